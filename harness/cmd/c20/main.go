// c20: runs the real layer2 msg server, EndBlocker and keeper-level LP functions on generated
// histories (several users create / bond / reclaim, bootstrap success and failure, LP messages,
// keeper-level swap / redeem / convert) and writes the observations for the Coq model
// (Model/Layer2.v) and the spec checker (Model/C20Check.v).
package main

import (
	"flag"
	"fmt"
	"os"
	"strings"
	"time"

	"verif/harness/hx"

	"github.com/KiraCore/sekai/x/gov"
	govkeeper "github.com/KiraCore/sekai/x/gov/keeper"
	govtypes "github.com/KiraCore/sekai/x/gov/types"
	l2keeper "github.com/KiraCore/sekai/x/layer2/keeper"
	l2types "github.com/KiraCore/sekai/x/layer2/types"
	spendingtypes "github.com/KiraCore/sekai/x/spending/types"
	sdk "github.com/cosmos/cosmos-sdk/types"
	authtypes "github.com/cosmos/cosmos-sdk/x/auth/types"
	minttypes "github.com/cosmos/cosmos-sdk/x/mint/types"
)

const nUsers = 5 // users 0..2 ordinary, 3 holds the bond-free creation permission, 4 is the team reserve
const startBal = int64(2_000_000_000)

type params struct {
	Denom    string `json:"denom"`
	LpOK     bool   `json:"lp_ok"`
	Ratio    string `json:"ratio"`
	Premint  int64  `json:"premint"`
	Postmint int64  `json:"postmint"`
	Fee      string `json:"fee"`
	Drip     int64  `json:"drip"`
	BV       bool   `json:"bond_verifiers"`
	TeamUp   bool   `json:"team_upper_case,omitempty"`
}

// network properties of a history
type cfg struct {
	Min, Max, Dur, LiqPeriod, LiqThr, FtFee uint64
	VBond                                 string
}

func (c cfg) coq() string {
	return fmt.Sprintf("(mkConfig %d %d %d %d %d %d %s)", c.Min, c.Max, c.Dur, c.LiqPeriod, c.LiqThr, c.FtFee, hx.ZBig(decStr(c.VBond).BigInt()))
}

type jop struct {
	Op      string  `json:"op"`
	U       int     `json:"u"`
	Name    string  `json:"name"`
	Name2   string  `json:"name2,omitempty"`
	Den     string  `json:"den,omitempty"`
	Foreign bool    `json:"foreign,omitempty"`
	Amt     int64   `json:"amt"`
	Fee     string  `json:"fee,omitempty"`
	Kind    int     `json:"kind,omitempty"`
	P       *params `json:"params,omitempty"`
	Status  int     `json:"status,omitempty"`
	Total   int64   `json:"total,omitempty"`
	Ctime   int64   `json:"ctime,omitempty"`
	Ptime   int64   `json:"ptime,omitempty"`
	Liq     int64   `json:"liq,omitempty"`
	Cfg     *cfg    `json:"cfg,omitempty"`
	X       *upx    `json:"proposal,omitempty"`
	Reg     bool    `json:"registered,omitempty"`
}

type jdapp struct {
	Name   string `json:"name"`
	Status int    `json:"status"`
	Total  string `json:"total"`
}
type jbond struct {
	Dapp string `json:"dapp"`
	U    int    `json:"u"`
	Amt  string `json:"amt"`
	User string `json:"user"`
}
type jlp struct {
	Den    string   `json:"den"`
	Supply string   `json:"supply"`
	Mod    string   `json:"mod"`
	Spend  string   `json:"spend"`
	Users  []string `json:"users"`
}
type jstep struct {
	jop
	OK    bool     `json:"ok"`
	Err   string   `json:"err,omitempty"`
	Now   int64    `json:"now"`
	Dapps []jdapp  `json:"dapps"`
	Bonds []jbond  `json:"bonds"`
	Mod   string   `json:"mod"`
	Bals  []string `json:"bals"`
	Lp    []jlp    `json:"lp,omitempty"`
}
type jcase struct {
	Kind  string  `json:"kind"`
	Min   uint64  `json:"min_raw"`
	Max   uint64  `json:"max_raw"`
	Dur   uint64  `json:"duration"`
	Cfg   cfg     `json:"cfg"`
	Steps []jstep `json:"steps"`
}

type env struct {
	k      l2keeper.Keeper
	ms     l2types.MsgServer
	bank   interface {
		GetBalance(ctx sdk.Context, addr sdk.AccAddress, denom string) sdk.Coin
		GetSupply(ctx sdk.Context, denom string) sdk.Coin
	}
	users  []sdk.AccAddress
	ustr   []string
	mod    sdk.AccAddress
	spend  sdk.AccAddress
	setCfg func(c sdk.Context, cf cfg)
	gms    govtypes.MsgServer
	gk     govkeeper.Keeper
	tokReg func(c sdk.Context, den string) bool
	tokInf func(c sdk.Context, den string) (reg bool, owner string, rate sdk.Dec, cap, sup sdk.Int)
	allTok func(c sdk.Context) []string
	send   func(c sdk.Context, from, to sdk.AccAddress, amt sdk.Coins) error
}

// one history on a private cache of the base state
type hist struct {
	e     *env
	c     sdk.Context
	t0    int64
	now   int64
	dens  []string // LP denoms seen (valid ones)
	coq   []string
	steps []jstep
	dist  hx.Counter
	denN  int
	ns    int64 // nanosecond part of the current block time
	cf    cfg
	ftN   int
	mode  [nUsers]int // spelling of a person's address in string fields: 0 lower case, 1 upper case, 2 changing per message
	sr    *hx.Rng
}

// sp: the spelling of user u's address for this message (bech32 is valid in all-lower and in all-upper case) and
// the Coq term for it
func (h *hist) sp(u int) (string, string) {
	up := h.mode[u] == 1 || (h.mode[u] == 2 && h.sr != nil && h.sr.Chance(40))
	if !up {
		return h.e.ustr[u], fmt.Sprintf("U%d", u)
	}
	s := strings.ToUpper(h.e.ustr[u])
	return s, hx.Str(s)
}

// person: index of the user whose address a string spells, in any case
func (h *hist) person(s string) int { return h.uidx(strings.ToLower(s)) }

func (h *hist) uidx(s string) int {
	for i, u := range h.e.ustr {
		if u == s {
			return i
		}
	}
	return -1
}

func (h *hist) observe(op jop, coqOp string, ok bool, errs string) {
	e := h.e
	st := jstep{jop: op, OK: ok, Err: errs, Now: h.now}
	var cd, cb, cl []string
	for _, d := range e.k.GetAllDapps(h.c) {
		st.Dapps = append(st.Dapps, jdapp{d.Name, int(d.Status), d.TotalBond.Amount.String()})
		cd = append(cd, hx.Tuple(hx.Str(d.Name), hx.Z(int64(d.Status)), hx.ZInt(d.TotalBond.Amount)))
	}
	for _, b := range e.k.GetAllUserDappBonds(h.c) {
		ui := h.uidx(b.User)
		st.Bonds = append(st.Bonds, jbond{b.DappName, h.person(b.User), b.Bond.Amount.String(), b.User})
		us := hx.Str(b.User)
		if ui >= 0 {
			us = fmt.Sprintf("U%d", ui)
		}
		cb = append(cb, hx.Tuple(hx.Str(b.DappName), us, hx.ZInt(b.Bond.Amount)))
	}
	m := e.bank.GetBalance(h.c, e.mod, "ukex").Amount
	st.Mod = m.String()
	var bals []string
	for _, u := range e.users {
		b := e.bank.GetBalance(h.c, u, "ukex").Amount
		st.Bals = append(st.Bals, b.String())
		bals = append(bals, hx.ZInt(b))
	}
	for _, den := range h.dens {
		sup := e.bank.GetSupply(h.c, den).Amount
		if sup.IsZero() {
			continue
		}
		l := jlp{Den: den, Supply: sup.String(), Mod: e.bank.GetBalance(h.c, e.mod, den).Amount.String(), Spend: e.bank.GetBalance(h.c, e.spend, den).Amount.String()}
		var us []string
		for _, u := range e.users {
			b := e.bank.GetBalance(h.c, u, den).Amount
			l.Users = append(l.Users, b.String())
			us = append(us, hx.ZInt(b))
		}
		st.Lp = append(st.Lp, l)
		cl = append(cl, hx.Tuple(hx.Str(den), hx.ZInt(sup), hx.ZInt(e.bank.GetBalance(h.c, e.mod, den).Amount), hx.ZInt(e.bank.GetBalance(h.c, e.spend, den).Amount), hx.List(us)))
	}
	h.steps = append(h.steps, st)
	h.coq = append(h.coq, fmt.Sprintf("(%s, mkObs %s %s %s %s %s %s)", coqOp, hx.B(ok), hx.List(cd), hx.List(cb), hx.ZInt(m), hx.List(bals), hx.List(cl)))
	h.dist.Inc(op.Op + ":" + map[bool]string{true: "accepted", false: "rejected"}[ok])
}

// tx semantics: run f on a cache, keep it only when it neither failed nor panicked
func (h *hist) tx(f func(c sdk.Context) error) (bool, string) {
	cc, write := h.c.CacheContext()
	var err error
	p := hx.Try(func() { err = f(cc) })
	if p != "" {
		return false, "panic: " + p
	}
	if err != nil {
		return false, err.Error()
	}
	write()
	return true, ""
}

func coin(den string, amt int64) sdk.Coin { return sdk.Coin{Denom: den, Amount: sdk.NewInt(amt)} }

func decStr(s string) sdk.Dec { return sdk.MustNewDecFromStr(s) }

func (h *hist) newParams(r *hx.Rng, lpBig bool) params {
	h.denN++
	p := params{Denom: fmt.Sprintf("dn%d", h.denN), LpOK: true, Ratio: []string{"0.5", "1", "0.001", "0.333333333333333333", "0", "2.5"}[r.Intn(6)],
		Premint: []int64{0, 7, 1000}[r.Intn(3)], Postmint: []int64{11, 1, 500000}[r.Intn(3)], Fee: []string{"0.01", "0", "0.003", "0.5", "1"}[r.Intn(5)]}
	p.Drip = []int64{100, 1, 0, 86400}[r.Intn(4)]
	p.TeamUp = r.Chance(12)
	p.BV = r.Chance(40)
	if lpBig {
		p.Postmint = []int64{100000000, 5000000, 40}[r.Intn(3)]
		p.Ratio = []string{"0.5", "1", "0.001", "0.00001", "3"}[r.Intn(5)]
	}
	if r.Chance(4) {
		p.Denom = "bad denom!"
	}
	if lpBig && r.Chance(8) { // the pool fee is a free field of the creation message
		p.Fee = []string{"-0.5", "-0.01", "1.5"}[r.Intn(3)]
	}
	p.LpOK = sdk.ValidateDenom("lp/"+p.Denom) == nil
	return p
}

func (h *hist) create(u int, name string, amt int64, foreign bool, p params) bool {
	e := h.e
	den := "ukex"
	if foreign {
		den = "foreign"
	}
	d := h.dappOf(name, p)
	snd, cq := h.sp(u)
	ok, errs := h.tx(func(c sdk.Context) error {
		_, err := e.ms.CreateDappProposal(sdk.WrapSDKContext(c), &l2types.MsgCreateDappProposal{Sender: snd, Dapp: d, Bond: coin(den, amt)})
		return err
	})
	if p.LpOK {
		found := false
		for _, x := range h.dens {
			found = found || x == "lp/"+p.Denom
		}
		if !found {
			h.dens = append(h.dens, "lp/"+p.Denom)
		}
	}
	pp := p
	h.observe(jop{Op: "create", U: u, Name: name, Amt: amt, Foreign: foreign, P: &pp},
		fmt.Sprintf("OCreate %s %s %s %s %s %s", cq, hx.B(u == 3), hx.B(foreign), hx.Str(name), hx.Z(amt), paramsCoq(p)), ok, errs)
	return ok
}

func paramsCoq(p params) string {
	team := "U4"
	if p.TeamUp {
		team = "(to_upper_U4)"
	}
	return fmt.Sprintf("(mkParams %s %s %s %s %s %s %s %s %s)", hx.Str("lp/"+p.Denom), hx.B(p.LpOK), hx.ZBig(decStr(p.Ratio).BigInt()),
		hx.Z(p.Premint), hx.Z(p.Postmint), hx.ZBig(decStr(p.Fee).BigInt()), team, hx.Z(p.Drip), hx.B(p.BV))
}

// the record a creation / upsert message carries: controllers are users 0..2
func (h *hist) dappOf(name string, p params) l2types.Dapp {
	e := h.e
	d := l2types.Dapp{Name: name, Denom: p.Denom, Pool: l2types.LpPoolConfig{Ratio: decStr(p.Ratio), Drip: uint64(p.Drip)},
		Issuance:   l2types.IssuanceConfig{Premint: sdk.NewInt(p.Premint), Postmint: sdk.NewInt(p.Postmint)},
		VoteQuorum: sdk.NewDecWithPrec(3, 1), VotePeriod: 10, VoteEnactment: 10, PoolFee: decStr(p.Fee), TeamReserve: e.ustr[4],
		TotalBond: coin("ukex", 0), EnableBondVerifiers: p.BV,
		Controllers: l2types.Controllers{Whitelist: l2types.AccountRange{Addresses: []string{e.ustr[0], e.ustr[1], e.ustr[2]}}}}
	if p.TeamUp {
		d.TeamReserve = strings.ToUpper(e.ustr[4])
	}
	return d
}

func (h *hist) blockTime() time.Time { return time.Unix(h.t0+h.now, h.ns).UTC() }

// network properties change between blocks
func (h *hist) setcfg(r *hx.Rng, cf cfg) {
	h.e.setCfg(h.c, cf)
	h.cf = cf
	c := cf
	h.observe(jop{Op: "setcfg", Cfg: &c}, "OSetCfg "+cf.coq(), true, "")
}

// MsgMintBurnTx
func (h *hist) burntx(u int, den string, amt int64) bool {
	e := h.e
	reg := e.tokReg(h.c, den)
	snd, cq := h.sp(u)
	ok, errs := h.tx(func(c sdk.Context) error {
		_, err := e.ms.MintBurnTx(sdk.WrapSDKContext(c), &l2types.MsgMintBurnTx{Sender: snd, Denom: den, Amount: sdk.NewInt(amt)})
		return err
	})
	h.observe(jop{Op: "burntx", U: u, Den: den, Amt: amt, Reg: reg}, fmt.Sprintf("OBurnTx %s %s %s %s", cq, hx.Str(den), hx.Z(amt), hx.B(reg)), ok, errs)
	return ok
}

// every denomination that exists on the chain at this moment (registry entries, LP denoms of this history,
// the native denom, a foreign token, one that does not exist)
func (h *hist) anyDenom(r *hx.Rng) string {
	set := append([]string{"ukex", "foreign", "nosuchdenom"}, h.dens...)
	set = append(set, h.e.allTok(h.c)...)
	if len(h.dens) > 0 && r.Chance(50) { // LP denominations of launched dApps most of the time
		return h.dens[r.Intn(len(h.dens))]
	}
	return set[r.Intn(len(set))]
}

// MsgMintIssueTx by anybody (owners and outsiders) for any denomination
func (h *hist) mintissue(u int, den string, amt int64) bool {
	e := h.e
	reg, owner, rate, cp, sp := e.tokInf(h.c, den)
	snd, cq := h.sp(u)
	ok, errs := h.tx(func(c sdk.Context) error {
		_, err := e.ms.MintIssueTx(sdk.WrapSDKContext(c), &l2types.MsgMintIssueTx{Sender: snd, Denom: den, Amount: sdk.NewInt(amt)})
		return err
	})
	if reg && !h.hasDen(den) && den != "ukex" && sdk.ValidateDenom(den) == nil {
		h.dens = append(h.dens, den)
	}
	ow := hx.Str(owner)
	if i := h.uidx(owner); i >= 0 {
		ow = fmt.Sprintf("U%d", i)
	}
	h.observe(jop{Op: "mintissue", U: u, Den: den, Amt: amt, Reg: reg, Fee: rate.String()},
		fmt.Sprintf("OMintIssue %s %s %s %s %s %s %s %s", cq, hx.Str(den), hx.Z(amt), hx.B(reg), ow, hx.ZBig(rate.BigInt()), hx.ZInt(cp), hx.ZInt(sp)), ok, errs)
	return ok
}

func (h *hist) hasDen(den string) bool {
	for _, x := range h.dens {
		if x == den {
			return true
		}
	}
	return false
}

// bank transfer between two accounts of any denomination
func (h *hist) banksend(u, to int, den string, amt int64) bool {
	e := h.e
	ok, errs := h.tx(func(c sdk.Context) error {
		if amt <= 0 || sdk.ValidateDenom(den) != nil {
			return fmt.Errorf("invalid coins")
		}
		return e.send(c, e.users[u], e.users[to], sdk.Coins{coin(den, amt)})
	})
	h.observe(jop{Op: "banksend", U: u, Name2: fmt.Sprint(to), Den: den, Amt: amt}, fmt.Sprintf("OBankSend U%d U%d %s %s", u, to, hx.Str(den), hx.Z(amt)), ok, errs)
	return ok
}

// an OUTSIDER (never bonded, never swapped) tries to get at the pool: mints himself LP tokens (or any other
// denomination), or is sent some, and redeems / converts them the way the message handlers would
func (h *hist) outsider(r *hx.Rng, names []string) {
	who := []int{4, 3, r.Intn(5)}[r.Intn(3)]
	for i := 0; i < 3+r.Intn(3); i++ {
		n := names[r.Intn(len(names))]
		d := h.e.k.GetDapp(h.c, n)
		den := h.anyDenom(r)
		if d.Name != "" && r.Chance(60) {
			den = d.LpToken()
		}
		amt := []int64{1, 1000, 1000000, 0, -5, 1 << 40}[r.Intn(6)]
		switch r.Intn(5) {
		case 0, 1, 2:
			h.mintissue(who, den, amt)
		case 3:
			h.banksend(r.Intn(3), who, den, r.Range(1, 100000))
		default:
			h.burntx(who, den, r.Range(1, 1000))
		}
		if d.Name != "" && !d.PoolFee.IsNil() && d.Status != l2types.Bootstrap && sdk.ValidateDenom(d.LpToken()) == nil {
			if b := h.lpBal(who, d.LpToken()); b > 0 && who < 5 {
				fee := d.PoolFee.String()
				h.lpmsg(1, who, n, "", d.LpToken(), b, "1")
				if r.Bool() {
					h.kredeem(who, n, d.LpToken(), r.Range(1, b), fee)
				} else {
					h.kconvert(who, n, names[r.Intn(len(names))], d.LpToken(), r.Range(1, b))
				}
			}
		}
	}
}

// MsgMintCreateFtTx
func (h *hist) mintft(u int, fresh bool) bool {
	e := h.e
	if fresh {
		h.ftN++
	}
	suffix := fmt.Sprintf("ft%d", h.ftN)
	snd, cq := h.sp(u)
	ok, errs := h.tx(func(c sdk.Context) error {
		_, err := e.ms.MintCreateFtTx(sdk.WrapSDKContext(c), &l2types.MsgMintCreateFtTx{Sender: snd, DenomSuffix: suffix, Name: suffix, Symbol: suffix,
			Decimals: 6, Cap: sdk.NewInt(1000000), Supply: sdk.ZeroInt(), FeeRate: sdk.NewDecWithPrec(1, 2), Owner: e.ustr[u]})
		return err
	})
	isFresh := fresh || h.ftN == 0
	if h.ftN == 0 {
		h.ftN = 1
	}
	h.observe(jop{Op: "mintft", U: u, Reg: isFresh}, fmt.Sprintf("OMintFt %s %s", cq, hx.B(isFresh)), ok, errs)
	return ok
}

// MsgJoinDappVerifierWithBond: the LP bond is taken from the Interx account
func (h *hist) joinverifier(u, interx int, name string) bool {
	e := h.e
	snd, cq := h.sp(u)
	isnd, icq := h.sp(interx)
	ok, errs := h.tx(func(c sdk.Context) error {
		_, err := e.ms.JoinDappVerifierWithBond(sdk.WrapSDKContext(c), &l2types.MsgJoinDappVerifierWithBond{Sender: snd, Interx: isnd, DappName: name})
		return err
	})
	h.observe(jop{Op: "joinverifier", U: u, Name: name, Name2: fmt.Sprint(interx)}, fmt.Sprintf("OJoinVerifier %s %s %s", cq, icq, hx.Str(name)), ok, errs)
	return ok
}

// ProposalUpsertDapp through the real gov msg server, the real gov EndBlocker and the real proposal router:
// submitted by controller 1, all three controllers vote yes, voting period and enactment period pass.
// The gov blocks run on later block times than the history's clock, which is restored afterwards.
// the fields of an upsert proposal the model does not carry (they must not matter for bonds and the pool)
type upx struct {
	Fee      string  `json:"fee"` // "nil" = unset
	Ctrl     []int   `json:"controllers"`
	BondDen  string  `json:"bond_denom"`
	Quorum   string  `json:"quorum"`
	VotePer  uint64  `json:"vote_period"`
	VoteEn   uint64  `json:"vote_enactment"`
	ExecMin  uint64  `json:"executors_min"`
	ExecMax  uint64  `json:"executors_max"`
	VerMin   uint64  `json:"verifiers_min"`
	UpdMax   uint64  `json:"update_time_max"`
	Bins     int     `json:"bins"`
	Team     int     `json:"team_reserve"`
	PostPaid bool    `json:"post_mint_paid"`
	Text     string  `json:"text"`
	CtrlUp   bool    `json:"controllers_upper_case"`
}

func (h *hist) randUpx(r *hx.Rng) upx {
	return upx{Fee: []string{"nil", "0", "0.01", "1", "-0.5", "-0.01", "-0.000000000000000001", "1.5", "0.003"}[r.Intn(9)],
		Ctrl:    [][]int{{0, 1, 2}, {0, 1, 2}, {0}, {1, 2}, {2}, {}}[r.Intn(6)],
		BondDen: []string{"ukex", "ukex", "foreign"}[r.Intn(3)], Quorum: []string{"0.3", "1"}[r.Intn(2)],
		VotePer: []uint64{10, 5, 1}[r.Intn(3)], VoteEn: []uint64{10, 5, 1}[r.Intn(3)],
		ExecMin: uint64(r.Intn(3)), ExecMax: []uint64{0, 1, 5, 1 << 40}[r.Intn(4)], VerMin: uint64(r.Intn(3)), UpdMax: []uint64{0, 60, 1 << 50}[r.Intn(3)],
		Bins: r.Intn(3), Team: []int{4, 4, 0}[r.Intn(3)], PostPaid: r.Bool(), Text: []string{"", "Some Text", "x"}[r.Intn(3)], CtrlUp: r.Chance(12)}
}

// ProposalUpsertDapp through the real gov msg server, the real gov EndBlocker and the real proposal router:
// submitted by the first of users 0..2 who is a controller of the stored dApp, every one of them votes yes,
// voting period and enactment period pass.  The gov blocks run on later block times than the history's
// clock, which is restored afterwards.  Every field of the record is the proposal's own.
func (h *hist) upsert(name string, total int64, status int, ctime int64, p params, ptime, liq int64, x upx) bool {
	e := h.e
	d := h.dappOf(name, p)
	d.TotalBond = coin(x.BondDen, total)
	d.Status = l2types.DappStatus(status)
	d.CreationTime = uint64(ctime)
	d.PremintTime = uint64(ptime)
	d.LiquidationStart = uint64(liq)
	if x.Fee == "nil" {
		d.PoolFee = sdk.Dec{}
	} else {
		d.PoolFee = decStr(x.Fee)
	}
	d.Controllers.Whitelist.Addresses = nil
	for _, i := range x.Ctrl {
		a := e.ustr[i]
		if x.CtrlUp {
			a = strings.ToUpper(a)
		}
		d.Controllers.Whitelist.Addresses = append(d.Controllers.Whitelist.Addresses, a)
	}
	d.VoteQuorum, d.VotePeriod, d.VoteEnactment = decStr(x.Quorum), x.VotePer, x.VoteEn
	d.ExecutorsMin, d.ExecutorsMax, d.VerifiersMin, d.UpdateTimeMax = x.ExecMin, x.ExecMax, x.VerMin, x.UpdMax
	for i := 0; i < x.Bins; i++ {
		d.Bin = append(d.Bin, l2types.BinaryInfo{Name: fmt.Sprintf("b%d", i), Hash: fmt.Sprintf("h%d", i)})
	}
	d.TeamReserve, d.PostMintPaid = e.ustr[x.Team], x.PostPaid
	d.Description, d.Website, d.Logo, d.Social, d.Docs = x.Text, x.Text, x.Text, x.Text, x.Text
	// who may propose: the controllers of the record as it is stored now
	cur := e.k.GetDapp(h.c, name)
	proposer := -1
	for i := 0; i < 3 && cur.Name != ""; i++ {
		if proposer < 0 && e.k.IsAllowedAddress(h.c, e.users[i], cur.Controllers) {
			proposer = i
		}
	}
	allowed := proposer >= 0
	if proposer < 0 {
		proposer = 1
	}
	ok, errs := h.tx(func(c sdk.Context) error {
		m, err := govtypes.NewMsgSubmitProposal(e.users[proposer], "upsert", "upsert", &l2types.ProposalUpsertDapp{Sender: e.ustr[proposer], Dapp: d})
		if err != nil {
			return err
		}
		resp, err := e.gms.SubmitProposal(sdk.WrapSDKContext(c), m)
		if err != nil {
			return err
		}
		for i := 0; i < 3; i++ { // non-controllers are refused, that is not an error of the scenario
			e.gms.VoteProposal(sdk.WrapSDKContext(c), govtypes.NewMsgVoteProposal(resp.ProposalID, e.users[i], govtypes.OptionYes, sdk.ZeroDec()))
		}
		c2 := c.WithBlockHeight(c.BlockHeight() + 4).WithBlockTime(c.BlockTime().Add(11 * time.Second))
		gov.EndBlocker(c2, e.gk)
		c3 := c.WithBlockHeight(c.BlockHeight() + 8).WithBlockTime(c.BlockTime().Add(22 * time.Second))
		gov.EndBlocker(c3, e.gk)
		pr, found := e.gk.GetProposal(c3, resp.ProposalID)
		if !found || pr.Result != govtypes.Passed || pr.ExecResult != "executed successfully" {
			return fmt.Errorf("proposal result %s / %s", pr.Result, pr.ExecResult)
		}
		return nil
	})
	if p.LpOK {
		found := false
		for _, y := range h.dens {
			found = found || y == "lp/"+p.Denom
		}
		if !found {
			h.dens = append(h.dens, "lp/"+p.Denom)
		}
	}
	// read back the pool fee the handler stored: the model follows it
	fa := sdk.ZeroDec()
	if after := e.k.GetDapp(h.c, name); after.Name != "" && !after.PoolFee.IsNil() {
		fa = after.PoolFee
	}
	pp, xx := p, x
	pp.Fee = x.Fee
	if x.Fee == "nil" {
		pp.Fee = "0"
	}
	h.observe(jop{Op: "upsert", Name: name, Total: total, Status: status, Ctime: ctime, Ptime: ptime, Liq: liq, P: &pp, X: &xx, Fee: fa.String(), Reg: allowed},
		fmt.Sprintf("OUpsert %s %s %d %s %s %s %s %s %s", hx.Str(name), hx.Z(total), status, hx.Z(ctime), paramsCoq(pp), hx.Z(ptime), hx.Z(liq), hx.B(allowed), hx.ZBig(fa.BigInt())), ok, errs)
	return ok
}

// what the three LP message handlers do once they find the dApp: the record is read from the store and the
// keeper function is called with the STORED pool fee; plus the messages themselves
func (h *hist) poolOpsAsHandlers(r *hx.Rng, names []string) {
	for _, n := range names {
		d := h.e.k.GetDapp(h.c, n)
		if d.Name == "" || d.Status == l2types.Bootstrap || d.PoolFee.IsNil() {
			continue
		}
		u := r.Intn(3)
		den := d.LpToken()
		fee := func() string { return h.e.k.GetDapp(h.c, n).PoolFee.String() }
		h.lpmsg(0, u, n, "", "ukex", 1000, "1")
		h.kswap(u, n, false, []int64{1000, 250000, 1}[r.Intn(3)], fee())
		if b := h.lpBal(u, den); b > 0 {
			h.lpmsg(1, u, n, "", den, b, "1")
			h.kredeem(u, n, den, r.Range(1, b), fee())
		}
		h.kswap(u, n, false, r.Range(1000, 100000), fee())
		if b := h.lpBal(u, den); b > 1 {
			n2 := names[r.Intn(len(names))]
			h.lpmsg(2, u, n, n2, den, 1, "1")
			h.kconvert(u, n, n2, den, r.Range(1, b/2+1))
		}
		if b := h.lpBal(u, den); b > 0 {
			h.kredeem(u, n, den, b, fee())
		}
	}
}

// keeper level: the record is stored with another status / PremintTime / LiquidationStart (absolute unix times)
func (h *hist) kforce(name string, status int, ptime, liq int64) bool {
	e := h.e
	ok, errs := h.tx(func(c sdk.Context) error {
		d := e.k.GetDapp(c, name)
		if d.Name == "" {
			return fmt.Errorf("no dapp")
		}
		d.Status = l2types.DappStatus(status)
		d.PremintTime = uint64(ptime)
		d.LiquidationStart = uint64(liq)
		e.k.SetDapp(c, d)
		return nil
	})
	h.observe(jop{Op: "kforce", Name: name, Status: status, Ptime: ptime, Liq: liq}, fmt.Sprintf("KForce %s %d %s %s", hx.Str(name), status, hx.Z(ptime), hx.Z(liq)), ok, errs)
	return ok
}

func (h *hist) bond(u int, name string, amt int64, foreign bool) bool {
	e := h.e
	den := "ukex"
	if foreign {
		den = "foreign"
		if len(h.dens) > 0 && (amt%2 == 0) { // any other denomination that exists, e.g. an LP token
			den = h.dens[int(amt/2)%len(h.dens)]
		}
	}
	snd, cq := h.sp(u)
	ok, errs := h.tx(func(c sdk.Context) error {
		_, err := e.ms.BondDappProposal(sdk.WrapSDKContext(c), &l2types.MsgBondDappProposal{Sender: snd, DappName: name, Bond: coin(den, amt)})
		return err
	})
	h.observe(jop{Op: "bond", U: u, Name: name, Amt: amt, Foreign: foreign}, fmt.Sprintf("OBond %s %s %s %s", cq, hx.Str(name), hx.B(foreign), hx.Z(amt)), ok, errs)
	return ok
}

func (h *hist) reclaim(u int, name string, amt int64, foreign bool) bool {
	e := h.e
	den := "ukex"
	if foreign {
		den = "foreign"
	}
	snd, cq := h.sp(u)
	if r := h.e.k.GetUserDappBond(h.c, name, snd); r.User == "" { // reclaim under the spelling the bond is recorded under, mostly
		if alt := strings.ToUpper(e.ustr[u]); h.e.k.GetUserDappBond(h.c, name, alt).User != "" && (h.sr == nil || h.sr.Chance(70)) {
			snd, cq = alt, hx.Str(alt)
		} else if h.e.k.GetUserDappBond(h.c, name, e.ustr[u]).User != "" && (h.sr == nil || h.sr.Chance(70)) {
			snd, cq = e.ustr[u], fmt.Sprintf("U%d", u)
		}
	}
	ok, errs := h.tx(func(c sdk.Context) error {
		_, err := e.ms.ReclaimDappBondProposal(sdk.WrapSDKContext(c), &l2types.MsgReclaimDappBondProposal{Sender: snd, DappName: name, Bond: coin(den, amt)})
		return err
	})
	h.observe(jop{Op: "reclaim", U: u, Name: name, Amt: amt, Foreign: foreign}, fmt.Sprintf("OReclaim %s %s %s %s", cq, hx.Str(name), hx.B(foreign), hx.Z(amt)), ok, errs)
	return ok
}

func (h *hist) tick(dt int64) bool {
	old := h.c
	h.now += dt
	oldNs := h.ns
	h.ns = []int64{0, 1, 999999999, 500000000, 123456789}[int(uint64(h.now*7+dt)%5)]
	h.c = h.c.WithBlockTime(h.blockTime()).WithBlockHeight(h.c.BlockHeight() + 1)
	ok, errs := h.tx(func(c sdk.Context) error { h.e.k.EndBlocker(c); return nil })
	if !ok {
		h.now -= dt
		h.ns = oldNs
		h.c = old
	}
	h.observe(jop{Op: "tick", Amt: dt}, fmt.Sprintf("OTick %s", hx.Z(dt)), ok, errs)
	return ok
}

// kind 0 swap, 1 redeem, 2 convert -- through the msg server
func (h *hist) lpmsg(kind, u int, name, name2, den string, amt int64, slip string) bool {
	e := h.e
	snd, cq := h.sp(u)
	ok, errs := h.tx(func(c sdk.Context) error {
		var err error
		switch kind {
		case 0:
			_, err = e.ms.SwapDappPoolTx(sdk.WrapSDKContext(c), &l2types.MsgSwapDappPoolTx{Sender: snd, DappName: name, Token: coin(den, amt), Slippage: decStr(slip)})
		case 1:
			_, err = e.ms.RedeemDappPoolTx(sdk.WrapSDKContext(c), &l2types.MsgRedeemDappPoolTx{Sender: snd, DappName: name, LpToken: coin(den, amt), Slippage: decStr(slip)})
		default:
			_, err = e.ms.ConvertDappPoolTx(sdk.WrapSDKContext(c), &l2types.MsgConvertDappPoolTx{Sender: snd, DappName: name, TargetDappName: name2, LpToken: coin(den, amt), Slippage: decStr(slip)})
		}
		return err
	})
	h.observe(jop{Op: "lpmsg", Kind: kind, U: u, Name: name, Name2: name2, Den: den, Amt: amt, Fee: slip},
		fmt.Sprintf("OLpMsg %d %s %s %s %s %s", kind, cq, hx.Str(name), hx.Str(name2), hx.Str(den), hx.Z(amt)), ok, errs)
	return ok
}

func (h *hist) kswap(u int, name string, foreign bool, amt int64, fee string) bool {
	e := h.e
	den := "ukex"
	if foreign {
		den = "foreign"
	}
	ok, errs := h.tx(func(c sdk.Context) error {
		d := e.k.GetDapp(c, name)
		if d.Name == "" {
			return fmt.Errorf("no dapp")
		}
		_, err := e.k.SwapDappPoolTx(c, e.users[u], d, decStr(fee), coin(den, amt))
		return err
	})
	h.observe(jop{Op: "kswap", U: u, Name: name, Amt: amt, Foreign: foreign, Fee: fee},
		fmt.Sprintf("KSwap U%d %s %s %s %s", u, hx.Str(name), hx.B(foreign), hx.Z(amt), hx.ZBig(decStr(fee).BigInt())), ok, errs)
	return ok
}

func (h *hist) kredeem(u int, name, den string, amt int64, fee string) bool {
	e := h.e
	ok, errs := h.tx(func(c sdk.Context) error {
		d := e.k.GetDapp(c, name)
		if d.Name == "" {
			return fmt.Errorf("no dapp")
		}
		_, err := e.k.RedeemDappPoolTx(c, e.users[u], d, decStr(fee), coin(den, amt))
		return err
	})
	h.observe(jop{Op: "kredeem", U: u, Name: name, Den: den, Amt: amt, Fee: fee},
		fmt.Sprintf("KRedeem U%d %s %s %s %s", u, hx.Str(name), hx.Str(den), hx.Z(amt), hx.ZBig(decStr(fee).BigInt())), ok, errs)
	return ok
}

func (h *hist) kconvert(u int, name, name2, den string, amt int64) bool {
	e := h.e
	ok, errs := h.tx(func(c sdk.Context) error {
		d1, d2 := e.k.GetDapp(c, name), e.k.GetDapp(c, name2)
		if d1.Name == "" || d2.Name == "" {
			return fmt.Errorf("no dapp")
		}
		_, err := e.k.ConvertDappPoolTx(c, e.users[u], d1, d2, coin(den, amt))
		return err
	})
	h.observe(jop{Op: "kconvert", U: u, Name: name, Name2: name2, Den: den, Amt: amt},
		fmt.Sprintf("KConvert U%d %s %s %s %s", u, hx.Str(name), hx.Str(name2), hx.Str(den), hx.Z(amt)), ok, errs)
	return ok
}

func (h *hist) userBond(name string, u int) int64 {
	b := h.e.k.GetUserDappBond(h.c, name, h.e.ustr[u])
	if b.User == "" || b.Bond.Amount.IsNil() {
		b = h.e.k.GetUserDappBond(h.c, name, strings.ToUpper(h.e.ustr[u]))
	}
	if b.User == "" || b.Bond.Amount.IsNil() {
		return 0
	}
	return b.Bond.Amount.Int64()
}
func (h *hist) lpDenom(name string) string { return h.e.k.GetDapp(h.c, name).LpToken() }
func (h *hist) lpBal(u int, den string) int64 {
	if sdk.ValidateDenom(den) != nil {
		return 0
	}
	return h.e.bank.GetBalance(h.c, h.e.users[u], den).Amount.Int64()
}

var cleanNames = [][]string{{"alpha", "beta", "gamma"}, {"dex", "amm", "zk"}, {"one", "two", "three"}, {"Qa", "qb", "r_1"}}

// ---------------------------------------------------------------- generators

// bootstrap phase with users 0..3; feature: "", "zero", "prefix", "prefixk", "empty", "max"
func (h *hist) bootstrap(r *hx.Rng, names []string, minThr, maxThr int64, nops int, feature string, lpBig bool) {
	for i, n := range names {
		u := r.Intn(4)
		amt := minThr/100 + r.Range(0, minThr/2)
		if r.Chance(25) {
			amt = minThr + r.Range(0, (maxThr-minThr)/2)
		}
		if u == 3 && r.Chance(50) {
			amt = r.Range(1, minThr/100)
			if feature == "negative" { // the bond-free creation permission skips every check of the amount
				amt = -r.Range(1, 5000)
			}
		}
		if feature == "max" && i == 0 {
			amt = maxThr + r.Range(1, 1000000)
		}
		if feature == "negative" && i == 0 {
			u, amt = 3, -r.Range(1, 5000)
		}
		h.create(u, n, amt, false, h.newParams(r, lpBig))
		if r.Chance(30) {
			h.tick(r.Range(0, 30))
		}
	}
	for i := 0; i < nops; i++ {
		n := names[r.Intn(len(names))]
		u := r.Intn(4)
		switch x := r.Intn(20); {
		case x < 8:
			amt := r.Range(1, minThr/2)
			if r.Chance(15) {
				amt = r.Range(minThr/2, maxThr)
			}
			h.bond(u, n, amt, false)
		case x < 13:
			cur := h.userBond(n, u)
			if cur > 1 {
				h.reclaim(u, n, r.Range(1, cur-1), false)
			} else {
				h.reclaim(u, n, r.Range(1, 1000), false)
			}
		case x < 14:
			h.tick(r.Range(0, 40))
			if r.Chance(25) { // network properties change between blocks, up and down across the current totals
				cf := h.cf
				cf.Max = []uint64{h.cf.Max, 1, 2, h.cf.Max + 3, 40}[r.Intn(5)]
				cf.Min = []uint64{h.cf.Min, 1, 3}[r.Intn(3)]
				if cf.Min > cf.Max {
					cf.Min = cf.Max
				}
				cf.Dur = []uint64{h.cf.Dur, h.cf.Dur / 2, h.cf.Dur * 2}[r.Intn(3)]
				h.setcfg(r, cf)
			} else if r.Chance(20) {
				h.burntx(r.Intn(4), "ukex", r.Range(1, 5000))
			}
		case x < 15: // adversarial amounts
			amt := []int64{0, -1, -1000000, maxThr + 1, 1 << 40}[r.Intn(5)]
			if r.Bool() {
				h.bond(u, n, amt, false)
			} else {
				h.reclaim(u, n, amt, false)
			}
		case x < 16: // other people's / unknown ids
			nn := []string{"nosuch", "", n + "x", strings.ToUpper(n)}[r.Intn(4)]
			if r.Bool() {
				h.bond(u, nn, r.Range(1, 1000), false)
			} else {
				h.reclaim(u, nn, r.Range(1, 1000), false)
			}
		case x < 17: // over-reclaim, foreign denom
			if r.Bool() {
				h.reclaim(u, n, h.userBond(n, u)+r.Range(1, 5), false)
			} else if r.Bool() {
				h.bond(u, n, r.Range(1, 1000), true)
			} else {
				h.reclaim(u, n, r.Range(1, 1000), true)
			}
		case x < 18: // duplicate / cheap / foreign creation
			switch r.Intn(3) {
			case 0:
				h.create(u, n, minThr/100+5, false, h.newParams(r, false))
			case 1:
				h.create(r.Intn(3), fmt.Sprintf("%sq%d", n, i), minThr/100-1-r.Range(0, 5), false, h.newParams(r, false))
			default:
				h.create(r.Intn(3), fmt.Sprintf("%sf%d", n, i), minThr, true, h.newParams(r, false))
			}
		case x < 19: // top up to the maximum exactly / one above
			d := h.e.k.GetDapp(h.c, n)
			if d.Name != "" {
				room := maxThr - d.TotalBond.Amount.Int64()
				if room > 0 && room < startBal/2 {
					h.bond(u, n, room+int64(r.Intn(2)), false)
				}
			}
		default:
			h.bond(u, n, r.Range(1, minThr), false)
		}
	}
	switch feature {
	case "zero": // a bonder takes everything back: a zero-amount record stays behind
		n := names[0]
		u := r.Intn(4)
		if h.userBond(n, u) == 0 {
			h.bond(u, n, 500+r.Range(0, 100), false)
		}
		h.reclaim(u, n, h.userBond(n, u), false)
	}
}

func (h *hist) finishCase(kind string, cf cfg) (string, jcase) {
	var bals []string
	for range h.e.users {
		bals = append(bals, hx.Z(startBal))
	}
	s := fmt.Sprintf("CHist %s %s [%s]", cf.coq(), hx.List(bals), strings.Join(h.coq, "; "))
	return s, jcase{Kind: kind, Min: cf.Min, Max: cf.Max, Dur: cf.Dur, Cfg: cf, Steps: h.steps}
}

func main() {
	outDir := flag.String("out", ".", "output directory")
	n := flag.Int("n", 300, "number of histories")
	flag.Parse()
	out := hx.Out{Dir: *outDir}
	seed := hx.Seed()
	r := hx.NewRng(seed)

	app := hx.NewApp()
	base := hx.Ctx(app, 10, 1700000000)
	e := &env{k: app.Layer2Keeper, ms: l2keeper.NewMsgServerImpl(app.Layer2Keeper), bank: app.BankKeeper,
		mod: authtypes.NewModuleAddress(l2types.ModuleName), spend: authtypes.NewModuleAddress(spendingtypes.ModuleName)}
	for i := 0; i < nUsers; i++ {
		a := sdk.AccAddress(fmt.Sprintf("c20user%d____________", i))
		e.users = append(e.users, a)
		e.ustr = append(e.ustr, a.String())
		c := sdk.NewCoins(sdk.NewInt64Coin("ukex", startBal), sdk.NewInt64Coin("foreign", startBal))
		if err := app.BankKeeper.MintCoins(base, minttypes.ModuleName, c); err != nil {
			panic(err)
		}
		if err := app.BankKeeper.SendCoinsFromModuleToAccount(base, minttypes.ModuleName, a, c); err != nil {
			panic(err)
		}
	}
	// the keeper's permission wrapper checks PermHandleBasketEmergency whatever it is asked for; user 3 gets both
	actor := govtypes.NewDefaultActor(e.users[3])
	for _, perm := range []govtypes.PermValue{govtypes.PermHandleBasketEmergency, govtypes.PermCreateDappProposalWithoutBond} {
		if err := app.CustomGovKeeper.AddWhitelistPermission(base, actor, perm); err != nil {
			panic(err)
		}
		actor, _ = app.CustomGovKeeper.GetNetworkActorByAddress(base, e.users[3])
	}
	// users 0..2 are the controllers of every dApp: they vote, so they must be network actors
	for i := 0; i < 3; i++ {
		if err := app.CustomGovKeeper.AddWhitelistPermission(base, govtypes.NewDefaultActor(e.users[i]), govtypes.PermClaimCouncilor); err != nil {
			panic(err)
		}
	}
	e.gms = govkeeper.NewMsgServerImpl(app.CustomGovKeeper)
	e.gk = app.CustomGovKeeper
	e.tokReg = func(c sdk.Context, den string) bool { return app.TokensKeeper.GetTokenInfo(c, den) != nil }
	e.tokInf = func(c sdk.Context, den string) (bool, string, sdk.Dec, sdk.Int, sdk.Int) {
		ti := app.TokensKeeper.GetTokenInfo(c, den)
		if ti == nil {
			return false, "", sdk.ZeroDec(), sdk.ZeroInt(), sdk.ZeroInt()
		}
		rate, cp, sp := ti.FeeRate, ti.SupplyCap, ti.Supply
		if rate.IsNil() {
			rate = sdk.ZeroDec()
		}
		if cp.IsNil() {
			cp = sdk.ZeroInt()
		}
		if sp.IsNil() {
			sp = sdk.ZeroInt()
		}
		return true, ti.Owner, rate, cp, sp
	}
	e.allTok = func(c sdk.Context) []string {
		var out []string
		for _, ti := range app.TokensKeeper.GetAllTokenInfos(c) {
			out = append(out, ti.Denom)
		}
		return out
	}
	e.send = func(c sdk.Context, from, to sdk.AccAddress, amt sdk.Coins) error { return app.BankKeeper.SendCoins(c, from, to, amt) }
	e.setCfg = func(c sdk.Context, cf cfg) {
		p := app.CustomGovKeeper.GetNetworkProperties(c)
		p.MinDappBond, p.MaxDappBond, p.DappBondDuration = cf.Min, cf.Max, cf.Dur
		p.DappLiquidationPeriod, p.DappLiquidationThreshold, p.MintingFtFee, p.DappVerifierBond = cf.LiqPeriod, cf.LiqThr, cf.FtFee, decStr(cf.VBond)
		if err := app.CustomGovKeeper.SetNetworkProperties(c, p); err != nil {
			panic(err)
		}
	}
	dist := hx.Counter{}
	mkCfg := func(min, max, dur uint64) cfg {
		return cfg{Min: min, Max: max, Dur: dur, LiqPeriod: 2419200, LiqThr: 100000000000, FtFee: 100000000000000, VBond: "0.001"}
	}
	newHistCfg := func(cf cfg) *hist {
		c, _ := base.CacheContext()
		e.setCfg(c, cf)
		return &hist{e: e, c: c, t0: 1700000000, dist: dist, cf: cf}
	}
	newHist := func(min, max, dur uint64) *hist { return newHistCfg(mkCfg(min, max, dur)) }

	// ---- probes: which of the known defects does this tree have?
	vPrefix, vZero, vCreate, vStale, vNeg, vUpsert, vFee := probes(e, newHist)

	var coq []string
	var js []jcase
	add := func(h *hist, kind string, cf cfg) {
		s, j := h.finishCase(kind, cf)
		coq = append(coq, s)
		js = append(js, j)
		dist.Inc("history:" + kind)
	}
	cfgs := [][3]uint64{{1, 10, 1000}, {2, 5, 300}, {1, 3, 50}, {3, 40, 100000}}
	for i := 0; i < *n; i++ {
		cf := cfgs[r.Intn(len(cfgs))]
		min, max, dur := cf[0], cf[1], cf[2]
		minThr, maxThr := int64(min)*1000000, int64(max)*1000000
		cf0 := mkCfg(min, max, dur)
		cf0.LiqPeriod = []uint64{2419200, 100, 5}[r.Intn(3)]
		cf0.LiqThr = []uint64{100000000000, 2, 1}[r.Intn(3)]
		cf0.FtFee = []uint64{100000000000000, 1000, 0}[r.Intn(3)]
		cf0.VBond = []string{"0.001", "0.5", "0"}[r.Intn(3)]
		h := newHistCfg(cf0)
		h.sr = r.Fork()
		if r.Chance(35) { // address STRING fields in upper case: always for some persons, changing per message for others
			for u := 0; u < nUsers; u++ {
				h.mode[u] = []int{0, 1, 2, 2}[r.Intn(4)]
			}
		}
		names := append([]string{}, cleanNames[r.Intn(len(cleanNames))][:1+r.Intn(3)]...)
		kind := "clean"
		switch x := i % 16; {
		case x == 12:
			kind = "time"
		case x == 13:
			kind = "upsert"
		case x == 14:
			kind = "status"
		case x == 15:
			kind = "other"
		case x == 3:
			kind = "zero"
		case x == 5:
			kind = "prefix"
			names = [][]string{{"ab", "abc"}, {"pool", "pool2", "po"}, {"x", "xy"}}[r.Intn(3)]
		case x == 7:
			kind = "prefixk" // "abk" is a prefix of "ab"+"kira1..."
			names = [][]string{{"ab", "abk"}, {"dex", "dexkira1"}}[r.Intn(2)]
		case x == 9:
			kind = "empty"
			names = append([]string{""}, names...)
			if r.Bool() {
				names = append(names, "")
			}
		case x == 11:
			kind = "max"
		case x == 1 && i%24 == 1:
			kind = "negative"
		case x == 2 || x == 8:
			kind = "lpmsg"
		case x == 4 || x == 6 || x == 10:
			kind = "keeper"
		}
		feature := kind
		lp := kind == "lpmsg" || kind == "keeper" || kind == "status" || kind == "other" || kind == "upsert"
		if kind == "time" {
			h.timeBoundaries(r, names, cf0)
			add(h, kind, cf0)
			continue
		}
		h.bootstrap(r, names, minThr, maxThr, 3+r.Intn(9), feature, lp)
		if lp { // make most dApps reach the minimum
			for _, nme := range names {
				d := e.k.GetDapp(h.c, nme)
				if d.Name != "" && d.TotalBond.Amount.Int64() < minThr && r.Chance(85) {
					need := minThr - d.TotalBond.Amount.Int64() + r.Range(0, (maxThr-minThr)/2)
					if need+d.TotalBond.Amount.Int64() > maxThr {
						need = maxThr - d.TotalBond.Amount.Int64()
					}
					h.bond(r.Intn(3), nme, need, false)
				}
			}
		}
		// bootstrap deadline
		if r.Chance(30) {
			h.tick(int64(dur) / 2)
			if r.Chance(50) && len(names) > 0 {
				h.bond(r.Intn(4), names[0], r.Range(1, 5000), false)
			}
		}
		h.tick(int64(dur) + r.Range(0, 10))
		if r.Chance(40) { // a dApp removed by a failed bootstrap can be proposed again; bonding after launch
			nme := names[r.Intn(len(names))]
			h.create(r.Intn(4), nme, minThr/100+r.Range(0, 1000), false, h.newParams(r, false))
			h.bond(r.Intn(4), nme, r.Range(1, 50000), false)
			if r.Bool() {
				u := r.Intn(4)
				h.reclaim(u, nme, h.userBond(nme, u)/2+1, false)
			}
			if r.Bool() {
				h.tick(int64(dur) + 1)
			}
		}
		switch kind {
		case "lpmsg":
			h.lpMessages(r, names)
		case "keeper":
			h.keeperOps(r, names)
		case "upsert":
			h.upserts(r, names, vUpsert)
		case "status":
			h.statuses(r, names)
		case "other":
			h.others(r, names)
		}
		if lp && r.Chance(60) {
			h.outsider(r, names)
		}
		add(h, kind, cf0)
	}

	var f strings.Builder
	f.WriteString("(* written by /verif/harness/cmd/c20 -- observations of the real code *)\n")
	f.WriteString("From Sekai Require Import Base.Prelude Base.Dec Model.Layer2 Model.C20Check.\n")
	for i, u := range e.ustr {
		f.WriteString(fmt.Sprintf("Definition U%d : string := %s.\n", i, hx.Str(u)))
	}
	f.WriteString("Definition users : list string := [U0; U1; U2; U3; U4].\n")
	f.WriteString(fmt.Sprintf("Definition to_upper_U4 : string := %s.\n", hx.Str(strings.ToUpper(e.ustr[4]))))
	f.WriteString(fmt.Sprintf("Definition tree : variant := mkVariant %s %s %s %s %s %s %s.\nDefinition T0 : Z := 1700000000.\n", hx.B(vPrefix), hx.B(vZero), hx.B(vCreate), hx.B(vStale), hx.B(vNeg), hx.B(vUpsert), hx.B(vFee)))
	out.WriteFile("pre.v", f.String())
	out.WriteFile("cases.txt", strings.Join(coq, "\n")+"\n")
	out.WriteJSON("meta.json", map[string]string{"case_type": "c20_case", "mismatch_fn": "c20_mismatches tree users T0", "violation_fn": "c20_violations users"})
	out.WriteJSON("cases.json", js)
	steps := 0
	for _, j := range js {
		steps += len(j.Steps)
	}
	out.WriteJSON("dist.json", map[string]interface{}{"seed": seed, "histories": len(js), "steps": steps, "by_kind": dist,
		"variant": map[string]bool{"prefix_iteration": vPrefix, "zero_record_blocks_refund": vZero, "creation_bond_unchecked": vCreate, "convert_swaps_into_stale_record": vStale, "negative_creation_bond_accepted": vNeg, "upsert_proposal_rewrites_bookkeeping": vUpsert, "pool_fee_unchecked": vFee}, "users": e.ustr})
	fmt.Fprintf(os.Stderr, "c20: %d histories, %d steps\n", len(js), steps)
}

// message-level LP traffic on launched (and missing) dApps, including the shape of the latent
// rounding exploit: many one-unit swaps, then redemption
func (h *hist) lpMessages(r *hx.Rng, names []string) {
	for i := 0; i < 8+r.Intn(8); i++ {
		n := names[r.Intn(len(names))]
		u := r.Intn(3)
		den := h.lpDenom(n)
		switch r.Intn(8) {
		case 0, 1, 2:
			h.lpmsg(0, u, n, "", "ukex", []int64{1, 1, 2, 1000, 250000}[r.Intn(5)], []string{"0", "0.5", "1"}[r.Intn(3)])
		case 3, 4:
			amt := h.lpBal(u, den)
			if amt == 0 || r.Bool() {
				amt = r.Range(1, 100)
			}
			h.lpmsg(1, u, n, "", den, amt, []string{"0", "1"}[r.Intn(2)])
		case 5:
			n2 := names[r.Intn(len(names))]
			h.lpmsg(2, u, n, n2, den, r.Range(1, 100), "1")
		case 6:
			h.lpmsg(r.Intn(3), u, "nosuch", "nosuch2", []string{"ukex", "lp/", den}[r.Intn(3)], r.Range(1, 100), "0")
		default:
			h.lpmsg(r.Intn(2), u, n, "", "foreign", r.Range(0, 5), "0")
		}
	}
	// exploit shape
	n := names[0]
	for i := 0; i < 4; i++ {
		h.lpmsg(0, 0, n, "", "ukex", 1, "1")
	}
	h.lpmsg(1, 0, n, "", h.lpDenom(n), h.lpBal(0, h.lpDenom(n))+1, "1")
}

func (h *hist) keeperOps(r *hx.Rng, names []string) {
	fees := []string{"0", "0.01", "0.003", "0.5", "1", "0.000000000000000001"}
	for u := 0; u < 3; u++ { // everybody buys some LP first, so that redemptions and conversions are mostly valid
		h.kswap(u, names[r.Intn(len(names))], false, []int64{250000, 1000, 40000}[r.Intn(3)], "0")
	}
	for i := 0; i < 10+r.Intn(14); i++ {
		n := names[r.Intn(len(names))]
		u := r.Intn(3)
		den := h.lpDenom(n)
		fee := fees[r.Intn(len(fees))]
		if d := h.e.k.GetDapp(h.c, n); d.Name != "" && !d.PoolFee.IsNil() && r.Chance(35) {
			fee = d.PoolFee.String() // what the message handlers pass
		}
		switch r.Intn(14) {
		case 0, 1, 2:
			h.kswap(u, n, false, []int64{1, 1, 2, 3, 1000, 250000, 7777777}[r.Intn(7)], fee)
		case 3, 4, 5:
			amt := h.lpBal(u, den)
			if amt > 1 && r.Bool() {
				amt = r.Range(1, amt)
			} else if amt == 0 {
				amt = r.Range(1, 50)
			}
			if r.Chance(30) {
				amt = 1
			}
			h.kredeem(u, n, den, amt, fee)
		case 6, 7:
			n2 := names[r.Intn(len(names))]
			amt := h.lpBal(u, den)
			if amt > 1 {
				amt = r.Range(1, amt)
			} else {
				amt = r.Range(1, 10)
			}
			h.kconvert(u, n, n2, den, amt)
		case 8: // adversarial amounts
			amt := []int64{0, -1, -7, 1 << 41}[r.Intn(4)]
			if r.Bool() {
				h.kswap(u, n, false, amt, fee)
			} else {
				h.kredeem(u, n, den, amt, fee)
			}
		case 9: // wrong denominations / unknown dApp
			switch r.Intn(3) {
			case 0:
				h.kswap(u, n, true, r.Range(1, 100), fee)
			case 1:
				h.kredeem(u, n, "ukex", r.Range(1, 100), fee)
			default:
				h.kswap(u, "nosuch", false, 5, fee)
			}
		case 10: // one-unit swaps then redemption (rounding in the user's favour)
			for j := 0; j < 3; j++ {
				h.kswap(u, n, false, 1, "0")
			}
			if b := h.lpBal(u, den); b > 0 {
				h.kredeem(u, n, den, b, "0")
			}
		case 11:
			for j := 0; j < 3; j++ {
				h.kredeem(u, n, den, 1, "0")
			}
		default: // several larger redemptions and swaps in a row on the same dApp, record re-read each time
			for j := 0; j < 2+r.Intn(3); j++ {
				if b := h.lpBal(u, den); b > 3 {
					h.kredeem(u, n, den, r.Range(1, b/3), fee)
				} else {
					h.kswap(u, n, false, r.Range(1000, 400000), fee)
				}
			}
		}
	}
}

// probes: three tiny experiments on the real keeper / msg server
func probes(e *env, newHist func(min, max, dur uint64) *hist) (prefix, zero, create, stale, neg, ups, fee bool) {
	{
		h := newHist(1, 10, 1000)
		e.k.SetUserDappBond(h.c, l2types.UserDappBond{User: e.ustr[0], DappName: "probeab", Bond: coin("ukex", 5)})
		prefix = len(e.k.GetUserDappBonds(h.c, "probea")) > 0
	}
	{
		h := newHist(1, 10, 1000)
		h.create(0, "probez", 20000, false, params{Denom: "probez", Ratio: "1", Fee: "0"})
		h.bond(1, "probez", 500, false)
		h.reclaim(1, "probez", 500, false)
		err := e.k.ExecuteDappRemove(h.c, e.k.GetDapp(h.c, "probez"))
		zero = err != nil
	}
	{
		h := newHist(1, 10, 1000)
		create = h.create(0, "probem", 10000001, false, params{Denom: "probem", Ratio: "1", Fee: "0"})
	}
	{
		h := newHist(1, 10, 1000)
		neg = h.create(3, "proben", -5, false, params{Denom: "proben", Ratio: "1", Fee: "0"})
	}
	{
		h := newHist(1, 10, 1000)
		p := params{Denom: "probeu", LpOK: true, Ratio: "1", Fee: "0", Drip: 100}
		h.create(0, "probeu", 20000, false, p)
		if h.upsert("probeu", 999, 0, h.t0, p, 0, 0, upx{Fee: "0", Ctrl: []int{0, 1, 2}, BondDen: "ukex", Quorum: "0.3", VotePer: 10, VoteEn: 10, Team: 4}) {
			ups = e.k.GetDapp(h.c, "probeu").TotalBond.Amount.Int64() == 999
		}
	}
	{
		h := newHist(1, 10, 1000)
		fee = h.create(0, "probef", 20000, false, params{Denom: "probef", LpOK: true, Ratio: "1", Fee: "-0.5", Drip: 100})
	}
	{
		h := newHist(1, 10, 100)
		h.create(0, "probec", 1000000, false, params{Denom: "probec", LpOK: true, Ratio: "1", Postmint: 5000000, Fee: "0"})
		h.tick(101)
		h.kswap(1, "probec", false, 1000, "0")
		if h.kconvert(1, "probec", "probec", "lp/probec", 1) {
			stale = e.k.GetDapp(h.c, "probec").TotalBond.Amount.GT(e.bank.GetBalance(h.c, e.mod, "ukex").Amount)
		}
	}
	return
}


// TIME: every comparison with a stored time is probed one second before, exactly at and one second after the
// boundary, with nanosecond parts in the block times, several messages inside one block time
func (h *hist) timeBoundaries(r *hx.Rng, names []string, cf cfg) {
	minThr, maxThr := int64(cf.Min)*1000000, int64(cf.Max)*1000000
	dur := int64(cf.Dur)
	n1 := names[0]
	h.tick(r.Range(0, 20))
	h.create(r.Intn(3), n1, minThr/100+r.Range(0, 1000), false, h.newParams(r, false))
	ct1 := h.now
	var n2 string
	ct2 := int64(-1)
	if len(names) > 1 { // a second dApp created a little later, reaching the minimum
		h.tick(r.Range(1, 3))
		n2 = names[1]
		h.create(r.Intn(3), n2, minThr/100+5, false, h.newParams(r, false))
		ct2 = h.now
		need := minThr - (minThr/100 + 5) - int64(r.Intn(2)) // exactly the minimum, or one below
		if need+minThr/100+5 <= maxThr {
			h.bond(r.Intn(3), n2, need, false)
		}
	}
	h.bond(r.Intn(4), n1, r.Range(1, 5000), false)
	// one second before the first deadline, exactly, one after -- messages in between
	if ct1+dur-1 > h.now {
		h.tick(ct1 + dur - 1 - h.now)
	}
	h.bond(r.Intn(4), n1, r.Range(1, 5000), false)
	h.tick(1)
	h.bond(r.Intn(4), n1, r.Range(1, 5000), false)
	u := r.Intn(4)
	h.reclaim(u, n1, h.userBond(n1, u)/2+1, false)
	h.tick(1)
	if ct2 >= 0 {
		for h.now < ct2+dur+1 {
			h.tick(1)
			h.bond(r.Intn(4), n2, r.Range(1, 500), false)
		}
	}
	// the bond period changed by proposal while a dApp is bootstrapping: shorter -> due at once, longer -> later
	n3 := names[0] + "t"
	h.create(r.Intn(3), n3, minThr/100+r.Range(0, 1000), false, h.newParams(r, false))
	ct3 := h.now
	cf2 := cf
	if r.Bool() {
		cf2.Dur = cf.Dur / 2
	} else {
		cf2.Dur = cf.Dur*2 + 1
	}
	h.tick(int64(cf.Dur)/2 - 1)
	h.setcfg(r, cf2)
	for i := 0; i < 3; i++ {
		h.tick(1)
	}
	if ct3+int64(cf2.Dur)-1 > h.now {
		h.tick(ct3 + int64(cf2.Dur) - 1 - h.now)
		h.tick(1)
		h.tick(1)
	}
}

// passed upsert proposals (real gov flow); rawTree: the tree stores the proposal's record wholesale
func (h *hist) upserts(r *hx.Rng, names []string, rawTree bool) {
	// everybody holds some LP of the launched dApps first
	for u := 0; u < 3; u++ {
		h.kswap(u, names[r.Intn(len(names))], false, []int64{250000, 1000, 40000}[r.Intn(3)], "0")
	}
	for i := 0; i < 2+r.Intn(4); i++ {
		n := names[r.Intn(len(names))]
		if r.Chance(8) {
			n = "nosuch"
		}
		d := h.e.k.GetDapp(h.c, n)
		p := h.newParams(r, true)
		x := h.randUpx(r)
		total, status, ctime, ptime, liq := int64(0), 0, h.t0+h.now, int64(0), int64(0)
		if d.Name != "" {
			total, status, ctime, ptime, liq = d.TotalBond.Amount.Int64(), int(d.Status), int64(d.CreationTime), int64(d.PremintTime), int64(d.LiquidationStart)
			if r.Chance(70) { // keep the LP denomination
				p.Denom = strings.TrimPrefix(d.LpToken(), "lp/")
				p.LpOK = sdk.ValidateDenom("lp/"+p.Denom) == nil
			}
			if d.EnableBondVerifiers && r.Chance(80) {
				p.BV = true
			}
		}
		switch r.Intn(4) {
		case 0: // description only
		case 1, 2: // the bookkeeping fields too
			total = []int64{0, total + 1, total * 2, total / 2, 1 << 40, -5}[r.Intn(6)]
			status = []int{0, 1, 2, 3}[r.Intn(4)]
			ctime = h.t0 + h.now - r.Range(0, 2000)
			ptime = h.t0 + h.now - r.Range(0, 200)
			liq = []int64{0, h.t0 + h.now, 1}[r.Intn(3)]
		default: // status alone
			if status != 0 {
				status = []int{1, 2, 3}[r.Intn(3)]
			}
		}
		h.upsert(n, total, status, ctime, p, ptime, liq, x)
		// the pool is used right after the proposal took effect, the way the message handlers would
		h.poolOpsAsHandlers(r, names)
		if r.Bool() {
			h.bond(r.Intn(3), n, r.Range(1, 5000), false)
		}
		if r.Bool() {
			h.tick(r.Range(0, 5))
		}
	}
	h.keeperOps(r, names)
}

// every status, with bonds / LP operations / blocks at each; PremintTime+Drip and LiquidationStart+period
// one second before, exactly at and one second after the block time
func (h *hist) statuses(r *hx.Rng, names []string) {
	for i := 0; i < 3+r.Intn(4); i++ {
		n := names[r.Intn(len(names))]
		d := h.e.k.GetDapp(h.c, n)
		if d.Name == "" {
			continue
		}
		st := []int{1, 1, 1, 2, 3}[r.Intn(5)]
		nowAbs := h.t0 + h.now
		dt := r.Range(1, 4) // the next block is dt seconds later
		ptime := nowAbs + dt - int64(d.Pool.Drip) + []int64{-1, 0, 1, -1000, 1000}[r.Intn(5)]
		liq := []int64{0, nowAbs + dt - int64(h.cf.LiqPeriod) + []int64{-1, 0, 1}[r.Intn(3)], nowAbs}[r.Intn(3)]
		if ptime < 0 {
			ptime = 0
		}
		if liq < 0 {
			liq = 0
		}
		h.kforce(n, st, ptime, liq)
		u := r.Intn(3)
		h.bond(u, n, r.Range(1, 5000), false)
		h.kswap(u, n, false, r.Range(1000, 300000), []string{"0", "0.01"}[r.Intn(2)])
		if b := h.lpBal(u, h.lpDenom(n)); b > 1 {
			h.kredeem(u, n, h.lpDenom(n), r.Range(1, b), "0")
		}
		h.lpmsg(r.Intn(3), u, n, n, h.lpDenom(n), 5, "1")
		h.tick(dt)
		if r.Bool() {
			h.tick(1)
		}
		h.reclaim(u, n, h.userBond(n, u)/2+1, false)
		if b := h.lpBal(u, h.lpDenom(n)); b > 1 && r.Bool() {
			h.kredeem(u, n, h.lpDenom(n), r.Range(1, b), "0.003")
		}
	}
}

// the other layer2 messages that move coins through the module account
func (h *hist) others(r *hx.Rng, names []string) {
	for u := 0; u < 3; u++ {
		h.kswap(u, names[r.Intn(len(names))], false, []int64{250000, 1000, 40000}[r.Intn(3)], "0")
	}
	for i := 0; i < 8+r.Intn(8); i++ {
		n := names[r.Intn(len(names))]
		u := r.Intn(4)
		den := h.lpDenom(n)
		switch r.Intn(8) {
		case 0, 1:
			h.burntx(u, "ukex", []int64{1, 5000, 0, -3, 1 << 40}[r.Intn(5)])
		case 2:
			amt := h.lpBal(u, den)
			if amt > 1 {
				amt = r.Range(1, amt)
			} else {
				amt = 3
			}
			if sdk.ValidateDenom(den) == nil {
				h.burntx(u, den, amt)
			}
		case 3:
			h.burntx(u, []string{"foreign", "nosuchdenom"}[r.Intn(2)], r.Range(1, 100))
		case 4:
			h.mintft(u, r.Chance(70))
		case 5, 6:
			h.joinverifier(u, r.Intn(4), []string{n, n, "nosuch"}[r.Intn(3)])
		default:
			h.kredeem(u, n, den, 1, "0")
			h.bond(u, n, r.Range(1, 500), false)
		}
	}
}
