package main

import (
	"fmt"

	"verif/harness/hx"

	govtypes "github.com/KiraCore/sekai/x/gov/types"
	l2keeper "github.com/KiraCore/sekai/x/layer2/keeper"
	l2types "github.com/KiraCore/sekai/x/layer2/types"
	sdk "github.com/cosmos/cosmos-sdk/types"
	authtypes "github.com/cosmos/cosmos-sdk/x/auth/types"
	minttypes "github.com/cosmos/cosmos-sdk/x/mint/types"
)

func main() {
	app := hx.NewApp()
	ctx := hx.Ctx(app, 10, 1700000000)
	k := app.Layer2Keeper
	ms := l2keeper.NewMsgServerImpl(k)
	props := app.CustomGovKeeper.GetNetworkProperties(ctx)
	props.MinDappBond = 1
	props.MaxDappBond = 10
	props.DappBondDuration = 1000
	fmt.Println("setprops", app.CustomGovKeeper.SetNetworkProperties(ctx, props))
	users := []sdk.AccAddress{sdk.AccAddress("user0_______________"), sdk.AccAddress("user1_______________"), sdk.AccAddress("user2_______________")}
	for _, u := range users {
		c := sdk.Coins{sdk.NewInt64Coin("ukex", 100000000)}
		if err := app.BankKeeper.MintCoins(ctx, minttypes.ModuleName, c); err != nil {
			panic(err)
		}
		if err := app.BankKeeper.SendCoinsFromModuleToAccount(ctx, minttypes.ModuleName, u, c); err != nil {
			panic(err)
		}
		fmt.Println(u.String())
	}
	mod := authtypes.NewModuleAddress(l2types.ModuleName)
	bal := func(c sdk.Context, a sdk.AccAddress) string { return app.BankKeeper.GetAllBalances(c, a).String() }
	mkDapp := func(name string) l2types.Dapp {
		return l2types.Dapp{Name: name, Denom: "d" + name, Pool: l2types.LpPoolConfig{Ratio: sdk.NewDecWithPrec(5, 1), Drip: 100},
			Issuance:   l2types.IssuanceConfig{Premint: sdk.NewInt(7), Postmint: sdk.NewInt(11)},
			VoteQuorum: sdk.NewDecWithPrec(3, 1), PoolFee: sdk.NewDecWithPrec(1, 2), TeamReserve: users[2].String(),
			TotalBond: sdk.NewInt64Coin("ukex", 0)}
	}
	create := func(c sdk.Context, u int, name string, amt int64) {
		var err error
		p := hx.Try(func() {
			_, err = ms.CreateDappProposal(sdk.WrapSDKContext(c), &l2types.MsgCreateDappProposal{Sender: users[u].String(), Dapp: mkDapp(name), Bond: sdk.NewInt64Coin("ukex", amt)})
		})
		fmt.Println("create", u, name, amt, "->", err, p)
	}
	bond := func(c sdk.Context, u int, name string, amt int64) {
		var err error
		p := hx.Try(func() {
			_, err = ms.BondDappProposal(sdk.WrapSDKContext(c), &l2types.MsgBondDappProposal{Sender: users[u].String(), DappName: name, Bond: sdk.NewInt64Coin("ukex", amt)})
		})
		fmt.Println("bond", u, name, amt, "->", err, p)
	}
	reclaim := func(c sdk.Context, u int, name string, amt int64) {
		var err error
		p := hx.Try(func() {
			_, err = ms.ReclaimDappBondProposal(sdk.WrapSDKContext(c), &l2types.MsgReclaimDappBondProposal{Sender: users[u].String(), DappName: name, Bond: sdk.Coin{Denom: "ukex", Amount: sdk.NewInt(amt)}})
		})
		fmt.Println("reclaim", u, name, amt, "->", err, p)
	}
	show := func(c sdk.Context) {
		for _, d := range k.GetAllDapps(c) {
			fmt.Println("  dapp", d.Name, d.Status, d.TotalBond)
		}
		for _, b := range k.GetAllUserDappBonds(c) {
			fmt.Println("  bond", b.DappName, b.User[len(b.User)-4:], b.Bond)
		}
		fmt.Println("  module", bal(c, mod))
		for i, u := range users {
			fmt.Println("  user", i, bal(c, u))
		}
	}
	end := func(c sdk.Context, t int64) sdk.Context {
		c2 := c.WithBlockTime(hx.BaseTime.Add(0)).WithBlockHeight(c.BlockHeight() + 1)
		c2 = c2.WithBlockTime(c.BlockTime().Add(1e9 * 0))
		_ = t
		return c2
	}
	_ = end
	{
		fmt.Println("=== zero bond blocks refund")
		c, _ := ctx.CacheContext()
		create(c, 0, "aa", 20000)
		bond(c, 1, "aa", 500)
		reclaim(c, 1, "aa", 500)
		show(c)
		c = c.WithBlockTime(c.BlockTime().Add(2000 * 1e9))
		p := hx.Try(func() { k.EndBlocker(c) })
		fmt.Println("endblock", p)
		show(c)
	}
	{
		fmt.Println("=== prefix collision")
		c, _ := ctx.CacheContext()
		create(c, 0, "ab", 20000)
		c = c.WithBlockTime(c.BlockTime().Add(500 * 1e9))
		create(c, 1, "abc", 30000)
		bond(c, 2, "abc", 700)
		show(c)
		c = c.WithBlockTime(c.BlockTime().Add(600 * 1e9))
		p := hx.Try(func() { k.EndBlocker(c) })
		fmt.Println("endblock", p)
		show(c)
		reclaim(c, 2, "abc", 700)
		show(c)
	}
	{
		fmt.Println("=== create above max, launch")
		c, _ := ctx.CacheContext()
		create(c, 0, "big", 50000000)
		create(c, 1, "ok", 900000)
		bond(c, 2, "ok", 200000)
		bond(c, 2, "ok", 9000000)
		create(c, 1, "ok", 900000)
		create(c, 1, "", 10000)
		create(c, 1, "", 20000)
		bond(c, 1, "", 5)
		reclaim(c, 0, "ok", 5)
		reclaim(c, 2, "ok", 200001)
		reclaim(c, 2, "ok", 0)
		reclaim(c, 2, "ok", -5)
		bond(c, 2, "ok", -5)
		bond(c, 2, "ok", 0)
		show(c)
		c = c.WithBlockTime(c.BlockTime().Add(2000 * 1e9))
		p := hx.Try(func() { k.EndBlocker(c) })
		fmt.Println("endblock", p)
		show(c)
		fmt.Println("supply", app.BankKeeper.GetSupply(c, "lp/dok"), app.BankKeeper.GetSupply(c, "lp/dbig"))
		bond(c, 1, "ok", 1000)
		reclaim(c, 1, "ok", 400)
		show(c)
		// LP messages
		var err error
		p = hx.Try(func() {
			_, err = ms.SwapDappPoolTx(sdk.WrapSDKContext(c), &l2types.MsgSwapDappPoolTx{Sender: users[0].String(), DappName: "ok", Token: sdk.NewInt64Coin("ukex", 100), Slippage: sdk.ZeroDec()})
		})
		fmt.Println("swapmsg ok", err, p)
		p = hx.Try(func() {
			_, err = ms.SwapDappPoolTx(sdk.WrapSDKContext(c), &l2types.MsgSwapDappPoolTx{Sender: users[0].String(), DappName: "nonexist", Token: sdk.NewInt64Coin("ukex", 100), Slippage: sdk.ZeroDec()})
		})
		fmt.Println("swapmsg nonexist", err, p)
		p = hx.Try(func() {
			_, err = ms.RedeemDappPoolTx(sdk.WrapSDKContext(c), &l2types.MsgRedeemDappPoolTx{Sender: users[0].String(), DappName: "nonexist", LpToken: sdk.Coin{Denom: "lp/", Amount: sdk.NewInt(5)}, Slippage: sdk.ZeroDec()})
		})
		fmt.Println("redeemmsg nonexist lp/", err, p)
		p = hx.Try(func() {
			_, err = ms.RedeemDappPoolTx(sdk.WrapSDKContext(c), &l2types.MsgRedeemDappPoolTx{Sender: users[0].String(), DappName: "nonexist", LpToken: sdk.Coin{Denom: "lp/dok", Amount: sdk.NewInt(5)}, Slippage: sdk.ZeroDec()})
		})
		fmt.Println("redeemmsg nonexist lp/dok", err, p)
		p = hx.Try(func() {
			_, err = ms.ConvertDappPoolTx(sdk.WrapSDKContext(c), &l2types.MsgConvertDappPoolTx{Sender: users[0].String(), DappName: "nonexist", TargetDappName: "x", LpToken: sdk.Coin{Denom: "lp/dok", Amount: sdk.NewInt(5)}, Slippage: sdk.ZeroDec()})
		})
		fmt.Println("convertmsg nonexist", err, p)
		// keeper level
		d := k.GetDapp(c, "ok")
		var out sdk.Coin
		p = hx.Try(func() { out, err = k.SwapDappPoolTx(c, users[0], d, d.PoolFee, sdk.NewInt64Coin("ukex", 1000)) })
		fmt.Println("swap keeper", out, err, p)
		show(c)
		d = k.GetDapp(c, "ok")
		p = hx.Try(func() { out, err = k.RedeemDappPoolTx(c, users[0], d, d.PoolFee, sdk.NewInt64Coin("lp/dok", 100)) })
		fmt.Println("redeem keeper", out, err, p)
		show(c)
		fmt.Println("supply", app.BankKeeper.GetSupply(c, "lp/dok"))
		_ = govtypes.PermHandleBasketEmergency
	}
}
