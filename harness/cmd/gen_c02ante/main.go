// gen_c02ante: reads app/ante/*.go of the tree under -repo and writes coq/Gen/C02AnteChain.v:
//
//	c02_chain    the decorators of NewAnteHandler in order, each tagged custom (defined in app/ante)
//	             or sdk (taken from cosmos-sdk x/auth/ante);
//	c02_returns  for every decorator type of package app/ante with an AnteHandle method, the shape of
//	             every `return` statement of that method (function literals inside it excluded):
//	             RNext / RErr / ROkNoNext / ROther;
//	c02_gen_errors  anything outside the expected fragment.
//
// Properties/C02.v states chain_ok c02_chain c02_returns c02_gen_errors = true: no custom decorator
// accepts a transaction without running the rest of the chain, and the authentication steps are all
// present, in order.
package main

import (
	"bytes"
	"crypto/sha256"
	"encoding/hex"
	"flag"
	"fmt"
	"go/ast"
	"go/parser"
	"go/printer"
	"go/token"
	"os"
	"path/filepath"
	"sort"
	"strings"
)

// fingerprint of every function of a file (printed from the AST without comments): the code the model was written from
func fingerprints(repo, rel string, only func(string) bool) []string {
	fset := token.NewFileSet()
	f, err := parser.ParseFile(fset, filepath.Join(repo, rel), nil, 0)
	if err != nil {
		bad("cannot parse %s: %v", rel, err)
		return nil
	}
	var out []string
	for _, d := range f.Decls {
		fd, ok := d.(*ast.FuncDecl)
		if !ok {
			continue
		}
		name := fd.Name.Name
		if r := recvName(fd); r != "" {
			name = r + "." + name
		}
		if only != nil && !only(name) {
			continue
		}
		var buf bytes.Buffer
		if err := printer.Fprint(&buf, fset, fd); err != nil {
			bad("cannot print %s %s", rel, name)
			continue
		}
		h := sha256.Sum256(buf.Bytes())
		out = append(out, fmt.Sprintf("(%s, %s)", coqStr(rel+":"+name), coqStr(hex.EncodeToString(h[:8]))))
	}
	sort.Strings(out)
	return out
}

// every call site in non-test code of app/ and x/ that writes an account's key / sequence / record
func accountWriters(repo string) []string {
	want := map[string]bool{"SetPubKey": true, "SetSequence": true, "SetAccountNumber": true, "SetAccount": true, "RemoveAccount": true,
		"NewAccountWithAddress": true, "NewAccount": true}
	var out []string
	for _, top := range []string{"app", "x", "types"} {
		filepath.Walk(filepath.Join(repo, top), func(path string, fi os.FileInfo, err error) error {
			if err != nil || fi.IsDir() || !strings.HasSuffix(path, ".go") || strings.HasSuffix(path, "_test.go") || strings.HasSuffix(path, ".pb.go") || strings.HasSuffix(path, ".pb.gw.go") {
				return nil
			}
			fset := token.NewFileSet()
			f, perr := parser.ParseFile(fset, path, nil, 0)
			if perr != nil {
				bad("cannot parse %s", path)
				return nil
			}
			rel, _ := filepath.Rel(repo, path)
			for _, d := range f.Decls {
				fd, ok := d.(*ast.FuncDecl)
				if !ok || fd.Body == nil {
					continue
				}
				name := fd.Name.Name
				if r := recvName(fd); r != "" {
					name = r + "." + name
				}
				ast.Inspect(fd.Body, func(n ast.Node) bool {
					if c, ok := n.(*ast.CallExpr); ok {
						if sel, ok := c.Fun.(*ast.SelectorExpr); ok && want[sel.Sel.Name] {
							out = append(out, coqStr(rel+":"+name+":"+sel.Sel.Name))
						}
					}
					return true
				})
			}
			return nil
		})
	}
	sort.Strings(out)
	return out
}

var errs []string

func bad(f string, a ...interface{}) { errs = append(errs, fmt.Sprintf(f, a...)) }

func coqStr(s string) string { return "\"" + strings.ReplaceAll(s, "\"", "'") + "\"" }

func recvName(fd *ast.FuncDecl) string {
	if fd.Recv == nil || len(fd.Recv.List) != 1 {
		return ""
	}
	t := fd.Recv.List[0].Type
	if st, ok := t.(*ast.StarExpr); ok {
		t = st.X
	}
	if id, ok := t.(*ast.Ident); ok {
		return id.Name
	}
	return ""
}

func isNilIdent(e ast.Expr) bool {
	id, ok := e.(*ast.Ident)
	return ok && id.Name == "nil"
}

// classify one return statement of an AnteHandle whose parameters are (ctx, tx, simulate, next)
func classify(r *ast.ReturnStmt, txName, simName, nextName string, guards []ast.Expr) string {
	if len(r.Results) == 1 {
		c, ok := r.Results[0].(*ast.CallExpr)
		if !ok {
			return "ROther \"single non-call result\""
		}
		id, ok := c.Fun.(*ast.Ident)
		if !ok || id.Name != nextName {
			return "ROther \"single result is not a call of next\""
		}
		if len(c.Args) != 3 {
			return "ROther \"next called with a wrong number of arguments\""
		}
		a1, ok1 := c.Args[1].(*ast.Ident)
		a2, ok2 := c.Args[2].(*ast.Ident)
		if !ok1 || !ok2 || a1.Name != txName || a2.Name != simName {
			return "ROther \"next called with an altered tx or simulate argument\""
		}
		return "RNext"
	}
	if len(r.Results) == 2 {
		e := r.Results[1]
		if isNilIdent(e) {
			return "ROkNoNext"
		}
		switch x := e.(type) {
		case *ast.CallExpr:
			// errorsmod.Wrap / sdkerrors.Wrap(f) / fmt.Errorf / errors.New / <err>.Wrap(f): a constructed error
			name := ""
			switch f := x.Fun.(type) {
			case *ast.SelectorExpr:
				name = f.Sel.Name
			case *ast.Ident:
				name = f.Name
			}
			switch name {
			case "Wrap", "Wrapf", "Errorf", "New":
				return "RErr"
			}
			return "ROther \"error produced by an unknown call " + name + "\""
		case *ast.SelectorExpr:
			// a package-level error value such as custodytypes.ErrNotInWhiteList
			if strings.HasPrefix(x.Sel.Name, "Err") {
				return "RErr"
			}
			return "ROther \"selector that is not an Err* value\""
		case *ast.Ident:
			// an error variable: must sit directly under `if <ident> != nil`
			for _, g := range guards {
				if b, ok := g.(*ast.BinaryExpr); ok && b.Op == token.NEQ && isNilIdent(b.Y) {
					if id, ok := b.X.(*ast.Ident); ok && id.Name == x.Name {
						return "RErr"
					}
				}
			}
			return "ROther \"error variable not guarded by a nil test\""
		}
		return "ROther \"unrecognised error expression\""
	}
	return "ROther \"naked or oddly sized return\""
}

// walk statements, keeping the stack of enclosing if-conditions (innermost last, then-branch only)
func walk(stmts []ast.Stmt, guards []ast.Expr, f func(*ast.ReturnStmt, []ast.Expr)) {
	for _, s := range stmts {
		walkStmt(s, guards, f)
	}
}

func walkStmt(s ast.Stmt, guards []ast.Expr, f func(*ast.ReturnStmt, []ast.Expr)) {
	switch x := s.(type) {
	case *ast.ReturnStmt:
		f(x, guards)
	case *ast.BlockStmt:
		walk(x.List, guards, f)
	case *ast.IfStmt:
		walk(x.Body.List, append(append([]ast.Expr{}, guards...), x.Cond), f)
		if x.Else != nil {
			walkStmt(x.Else, guards, f)
		}
	case *ast.ForStmt:
		walk(x.Body.List, guards, f)
	case *ast.RangeStmt:
		walk(x.Body.List, guards, f)
	case *ast.SwitchStmt:
		walk(x.Body.List, guards, f)
	case *ast.TypeSwitchStmt:
		walk(x.Body.List, guards, f)
	case *ast.CaseClause:
		walk(x.Body, guards, f)
	case *ast.LabeledStmt:
		walkStmt(x.Stmt, guards, f)
	case *ast.SelectStmt, *ast.GoStmt, *ast.DeferStmt:
		bad("unsupported statement %T in an AnteHandle", s)
	}
}

func main() {
	repo := flag.String("repo", "/repo", "repository root")
	out := flag.String("out", "", "output .v file")
	flag.Parse()
	fset := token.NewFileSet()
	dir := filepath.Join(*repo, "app", "ante")
	pkgs, err := parser.ParseDir(fset, dir, func(fi os.FileInfo) bool { return !strings.HasSuffix(fi.Name(), "_test.go") }, 0)
	if err != nil {
		fmt.Fprintln(os.Stderr, err)
		os.Exit(1)
	}
	var files []*ast.File
	for _, p := range pkgs {
		var names []string
		for n := range p.Files {
			names = append(names, n)
		}
		sort.Strings(names)
		for _, n := range names {
			files = append(files, p.Files[n])
		}
	}

	// ---- AnteHandle methods
	returns := map[string][]string{}
	custom := map[string]bool{}
	for _, f := range files {
		for _, d := range f.Decls {
			fd, ok := d.(*ast.FuncDecl)
			if !ok || fd.Name.Name != "AnteHandle" || fd.Body == nil {
				continue
			}
			rn := recvName(fd)
			if rn == "" {
				bad("AnteHandle without a simple receiver")
				continue
			}
			custom[rn] = true
			var params []string
			for _, fl := range fd.Type.Params.List {
				for _, n := range fl.Names {
					params = append(params, n.Name)
				}
			}
			if len(params) != 4 {
				bad("%s.AnteHandle: expected 4 named parameters, got %d", rn, len(params))
				continue
			}
			var rs []string
			walk(fd.Body.List, nil, func(r *ast.ReturnStmt, g []ast.Expr) {
				rs = append(rs, classify(r, params[1], params[2], params[3], g))
			})
			// the body must end in a return (no fall-through with named results)
			if n := len(fd.Body.List); n == 0 {
				bad("%s.AnteHandle: empty body", rn)
			} else if _, ok := fd.Body.List[n-1].(*ast.ReturnStmt); !ok {
				bad("%s.AnteHandle: does not end in a return statement", rn)
			}
			if _, dup := returns[rn]; dup {
				bad("%s: two AnteHandle methods", rn)
			}
			returns[rn] = rs
		}
	}

	// ---- the chain of NewAnteHandler
	var chain []string
	found := false
	for _, f := range files {
		for _, d := range f.Decls {
			fd, ok := d.(*ast.FuncDecl)
			if !ok || fd.Name.Name != "NewAnteHandler" || fd.Recv != nil || fd.Body == nil {
				continue
			}
			found = true
			if len(fd.Body.List) != 1 {
				bad("NewAnteHandler: body is not a single return")
				continue
			}
			r, ok := fd.Body.List[0].(*ast.ReturnStmt)
			if !ok || len(r.Results) != 1 {
				bad("NewAnteHandler: body is not a single return")
				continue
			}
			c, ok := r.Results[0].(*ast.CallExpr)
			if !ok {
				bad("NewAnteHandler: does not return a call")
				continue
			}
			if sel, ok := c.Fun.(*ast.SelectorExpr); !ok || sel.Sel.Name != "ChainAnteDecorators" {
				bad("NewAnteHandler: does not return sdk.ChainAnteDecorators(...)")
				continue
			}
			for _, a := range c.Args {
				origin, name := "", ""
				var fun ast.Expr
				switch x := a.(type) {
				case *ast.CallExpr:
					fun = x.Fun
				case *ast.CompositeLit:
					fun = x.Type
				default:
					bad("chain element of unexpected form %T", a)
					continue
				}
				switch fx := fun.(type) {
				case *ast.Ident:
					origin, name = "Custom", fx.Name
				case *ast.SelectorExpr:
					if p, ok := fx.X.(*ast.Ident); ok && p.Name == "ante" {
						origin, name = "Sdk", fx.Sel.Name
					} else {
						bad("chain element from an unexpected package %v", fx.X)
						continue
					}
				default:
					bad("chain element with unexpected constructor %T", fun)
					continue
				}
				name = strings.TrimPrefix(name, "New")
				if origin == "Custom" && !custom[name] {
					bad("custom chain element %s has no AnteHandle in app/ante", name)
				}
				chain = append(chain, fmt.Sprintf("mkEntry %s %s", origin, coqStr(name)))
			}
		}
	}
	if !found {
		bad("NewAnteHandler not found")
	}

	var sb strings.Builder
	sb.WriteString("(* GENERATED by /verif/harness/cmd/gen_c02ante from app/ante/*.go -- do not edit *)\n")
	sb.WriteString("From Sekai Require Import Base.Prelude Model.C02Chain.\n")
	sb.WriteString("Definition c02_chain : list chain_entry := [\n  " + strings.Join(chain, ";\n  ") + "]%string.\n")
	var names []string
	for n := range returns {
		names = append(names, n)
	}
	sort.Strings(names)
	var rows []string
	for _, n := range names {
		rows = append(rows, fmt.Sprintf("(%s, [%s])", coqStr(n), strings.Join(returns[n], "; ")))
	}
	sb.WriteString("Definition c02_returns : list (string * list ret_shape) := [\n  " + strings.Join(rows, ";\n  ") + "]%string.\n")
	fps := fingerprints(*repo, "app/ante/sigverify.go", nil)
	fps = append(fps, fingerprints(*repo, "app/ante/ante.go", func(n string) bool { return n == "NewAnteHandler" })...)
	fps = append(fps, fingerprints(*repo, "x/tokens/types/msg_eth_tx.go", nil)...)
	fps = append(fps, fingerprints(*repo, "types/Msg.go", func(n string) bool { return n == "MsgType" })...)
	sb.WriteString("Definition c02_fingerprints : list (string * string) := [\n  " + strings.Join(fps, ";\n  ") + "]%string.\n")
	sb.WriteString("Definition c02_account_writers : list string := [\n  " + strings.Join(accountWriters(*repo), ";\n  ") + "]%string.\n")
	var es []string
	for _, e := range errs {
		es = append(es, coqStr(e))
	}
	sb.WriteString("Definition c02_gen_errors : list string := [" + strings.Join(es, "; ") + "]%string.\n")
	if *out == "" {
		fmt.Print(sb.String())
		return
	}
	if err := os.WriteFile(*out, []byte(sb.String()), 0o644); err != nil {
		fmt.Fprintln(os.Stderr, err)
		os.Exit(1)
	}
}
