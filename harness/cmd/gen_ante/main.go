// gen_ante: reads app/ante/ante.go and app/app.go of the tree under -repo and writes
// coq/Gen/AnteChain.v: the decorator order of NewAnteHandler, the loop shape of the custom
// decorators (does `return next(...)` sit inside the message loop; which message types the
// freeze filter inspects), which keeper is handed to the SDK fee deduction, and whether a post
// handler is installed.  Anything outside the expected fragment is recorded in gen_errors
// (a theorem of Properties/C09.v and C14.v states gen_errors = []).
package main

import (
	"flag"
	"fmt"
	"go/ast"
	"go/parser"
	"go/token"
	"os"
	"path/filepath"
	"strings"
)

var errs []string

func bad(f string, a ...interface{}) { errs = append(errs, fmt.Sprintf(f, a...)) }

func exprName(e ast.Expr) string {
	switch x := e.(type) {
	case *ast.Ident:
		return x.Name
	case *ast.SelectorExpr:
		return exprName(x.X) + "." + x.Sel.Name
	case *ast.CallExpr:
		return exprName(x.Fun)
	case *ast.CompositeLit:
		return exprName(x.Type)
	case *ast.StarExpr:
		return exprName(x.X)
	}
	return "?"
}

func isNextCall(e ast.Expr) bool {
	c, ok := e.(*ast.CallExpr)
	if !ok {
		return false
	}
	id, ok := c.Fun.(*ast.Ident)
	return ok && id.Name == "next"
}

func returnsNext(s ast.Stmt) bool {
	r, ok := s.(*ast.ReturnStmt)
	return ok && len(r.Results) == 1 && isNextCall(r.Results[0])
}

func isContinue(s ast.Stmt) bool {
	b, ok := s.(*ast.BranchStmt)
	return ok && b.Tok == token.CONTINUE
}

// method AnteHandle of the named receiver type
func anteHandle(f *ast.File, recv string) *ast.FuncDecl {
	for _, d := range f.Decls {
		fd, ok := d.(*ast.FuncDecl)
		if !ok || fd.Recv == nil || fd.Name.Name != "AnteHandle" || len(fd.Recv.List) != 1 {
			continue
		}
		if exprName(fd.Recv.List[0].Type) == recv {
			return fd
		}
	}
	return nil
}

// the `for _, msg := range X.GetMsgs()` loops of a function
func msgLoops(fd *ast.FuncDecl) []*ast.RangeStmt {
	var out []*ast.RangeStmt
	ast.Inspect(fd.Body, func(n ast.Node) bool {
		if r, ok := n.(*ast.RangeStmt); ok {
			if strings.HasSuffix(exprName(r.X), ".GetMsgs") {
				out = append(out, r)
			}
		}
		return true
	})
	return out
}

func containsReturnNext(n ast.Node) bool {
	found := false
	ast.Inspect(n, func(x ast.Node) bool {
		if s, ok := x.(ast.Stmt); ok && returnsNext(s) {
			found = true
		}
		return true
	})
	return found
}

var typeConst = map[string]string{
	"bank.TypeMsgSend":         "send",
	"bank.TypeMsgMultiSend":    "multisend",
	"kiratypes.MsgTypeSend":    "custody_send",
	"banktypes.TypeMsgSend":    "send",
	"custodytypes.MsgTypeSend": "custody_send",
}

// message type constants compared with kiratypes.MsgType(msg) in a condition (== joined by ||)
func condTypes(e ast.Expr, where string) []string {
	switch x := e.(type) {
	case *ast.ParenExpr:
		return condTypes(x.X, where)
	case *ast.BinaryExpr:
		if x.Op == token.LOR {
			return append(condTypes(x.X, where), condTypes(x.Y, where)...)
		}
		if x.Op == token.EQL {
			l, r := exprName(x.X), exprName(x.Y)
			if l == "kiratypes.MsgType" {
				if t, ok := typeConst[r]; ok {
					return []string{t}
				}
				bad("%s: unknown message type constant %s", where, r)
				return nil
			}
			if r == "kiratypes.MsgType" {
				if t, ok := typeConst[l]; ok {
					return []string{t}
				}
				bad("%s: unknown message type constant %s", where, l)
				return nil
			}
		}
	}
	bad("%s: condition outside the fragment", where)
	return nil
}

func coqBool(b bool) string {
	if b {
		return "true"
	}
	return "false"
}

func main() {
	repo := flag.String("repo", "/repo", "source tree")
	out := flag.String("out", "AnteChain.v", "output file")
	flag.Parse()
	fset := token.NewFileSet()
	af, err := parser.ParseFile(fset, filepath.Join(*repo, "app/ante/ante.go"), nil, 0)
	if err != nil {
		fmt.Fprintln(os.Stderr, err)
		os.Exit(2)
	}
	pf, err := parser.ParseFile(fset, filepath.Join(*repo, "app/app.go"), nil, 0)
	if err != nil {
		fmt.Fprintln(os.Stderr, err)
		os.Exit(2)
	}

	// ---- decorator order
	var chain []string
	var params []string
	deductArg := ""
	for _, d := range af.Decls {
		fd, ok := d.(*ast.FuncDecl)
		if !ok || fd.Name.Name != "NewAnteHandler" {
			continue
		}
		for _, p := range fd.Type.Params.List {
			for _, n := range p.Names {
				params = append(params, n.Name)
			}
		}
		ast.Inspect(fd.Body, func(n ast.Node) bool {
			c, ok := n.(*ast.CallExpr)
			if !ok || exprName(c.Fun) != "sdk.ChainAnteDecorators" {
				return true
			}
			for _, a := range c.Args {
				name := exprName(a)
				if i := strings.LastIndex(name, "."); i >= 0 {
					name = name[i+1:]
				}
				name = strings.TrimPrefix(name, "New")
				chain = append(chain, name)
				if name == "DeductFeeDecorator" {
					if ce, ok := a.(*ast.CallExpr); ok && len(ce.Args) >= 2 {
						deductArg = exprName(ce.Args[1])
					}
				}
			}
			return false
		})
	}
	if len(chain) == 0 {
		bad("NewAnteHandler: sdk.ChainAnteDecorators call not found")
	}

	// ---- which keeper does app.go pass for the DeductFee bank keeper parameter
	wired := false
	idx := -1
	for i, p := range params {
		if p == deductArg {
			idx = i
		}
	}
	if idx < 0 {
		bad("DeductFeeDecorator: bank keeper argument %q is not a parameter of NewAnteHandler", deductArg)
	}
	found := false
	postInstalled := false
	for _, d := range pf.Decls {
		fd, ok := d.(*ast.FuncDecl)
		if !ok || fd.Body == nil {
			continue
		}
		ast.Inspect(fd.Body, func(n ast.Node) bool {
			c, ok := n.(*ast.CallExpr)
			if !ok {
				return true
			}
			fn := exprName(c.Fun)
			if strings.HasSuffix(fn, ".NewAnteHandler") && idx >= 0 && idx < len(c.Args) {
				found = true
				switch a := exprName(c.Args[idx]); a {
				case "app.BankKeeper":
					wired = false
				case "app.FeeProcessingKeeper":
					wired = true
				default:
					bad("app.go: unexpected keeper %s handed to the fee deduction", a)
				}
			}
			if strings.HasSuffix(fn, ".setPostHandler") || (strings.HasSuffix(fn, ".SetPostHandler") && fd.Name.Name != "setPostHandler") {
				postInstalled = true
			}
			return true
		})
	}
	if !found {
		bad("app.go: call of NewAnteHandler not found")
	}

	// ---- PoorNetworkManagementDecorator loop shape
	sendReturns, allowedReturns := true, true
	if fd := anteHandle(af, "PoorNetworkManagementDecorator"); fd == nil {
		bad("PoorNetworkManagementDecorator.AnteHandle not found")
	} else {
		loops := msgLoops(fd)
		if len(loops) != 1 {
			bad("PoorNetworkManagementDecorator: expected one message loop, found %d", len(loops))
		} else {
			body := loops[0].Body.List
			if len(body) != 3 {
				bad("PoorNetworkManagementDecorator: loop body has %d statements, expected 3", len(body))
			} else {
				i1, ok1 := body[0].(*ast.IfStmt)
				i2, ok2 := body[1].(*ast.IfStmt)
				r3, ok3 := body[2].(*ast.ReturnStmt)
				if !ok1 || !ok2 || !ok3 {
					bad("PoorNetworkManagementDecorator: loop body is not if / if / return")
				} else {
					ts := condTypes(i1.Cond, "PoorNetworkManagementDecorator send arm")
					if len(ts) != 1 || ts[0] != "send" {
						bad("PoorNetworkManagementDecorator: first arm is not the bank send arm")
					}
					last := i1.Body.List[len(i1.Body.List)-1]
					switch {
					case returnsNext(last):
						sendReturns = true
					case isContinue(last):
						sendReturns = false
					default:
						bad("PoorNetworkManagementDecorator: send arm ends with neither return next nor continue")
					}
					if c, ok := i2.Cond.(*ast.BinaryExpr); !ok || c.Op != token.GEQ || exprName(c.X) != "findString" {
						bad("PoorNetworkManagementDecorator: second arm is not findString(...) >= 0")
					}
					if len(i2.Body.List) != 1 {
						bad("PoorNetworkManagementDecorator: allowed arm has %d statements", len(i2.Body.List))
					} else {
						switch {
						case returnsNext(i2.Body.List[0]):
							allowedReturns = true
						case isContinue(i2.Body.List[0]):
							allowedReturns = false
						default:
							bad("PoorNetworkManagementDecorator: allowed arm is neither return next nor continue")
						}
					}
					if len(r3.Results) != 2 || isNextCall(r3.Results[0]) {
						bad("PoorNetworkManagementDecorator: loop does not end with an error return")
					}
				}
			}
		}
	}

	// ---- BlackWhiteTokensCheckDecorator: inspected message types, no return next inside the loop
	var bwTypes []string
	if fd := anteHandle(af, "BlackWhiteTokensCheckDecorator"); fd == nil {
		bad("BlackWhiteTokensCheckDecorator.AnteHandle not found")
	} else {
		loops := msgLoops(fd)
		if len(loops) != 1 {
			bad("BlackWhiteTokensCheckDecorator: expected one message loop, found %d", len(loops))
		} else {
			if containsReturnNext(loops[0]) {
				bad("BlackWhiteTokensCheckDecorator: return next inside the message loop")
			}
			for _, s := range loops[0].Body.List {
				is, ok := s.(*ast.IfStmt)
				if !ok {
					bad("BlackWhiteTokensCheckDecorator: loop statement outside the fragment")
					continue
				}
				bwTypes = append(bwTypes, condTypes(is.Cond, "BlackWhiteTokensCheckDecorator")...)
			}
		}
	}

	// ---- fee validation / execution fee registration: no return next inside a loop
	for _, recv := range []string{"ValidateFeeRangeDecorator", "ExecutionFeeRegistrationDecorator"} {
		fd := anteHandle(af, recv)
		if fd == nil {
			bad("%s.AnteHandle not found", recv)
			continue
		}
		ast.Inspect(fd.Body, func(n ast.Node) bool {
			if r, ok := n.(*ast.RangeStmt); ok && containsReturnNext(r) {
				bad("%s: return next inside a loop", recv)
			}
			return true
		})
	}

	q := func(xs []string) string {
		ys := make([]string, len(xs))
		for i, x := range xs {
			ys[i] = "\"" + strings.ReplaceAll(x, "\"", "\"\"") + "\""
		}
		return "[" + strings.Join(ys, "; ") + "]%string"
	}
	var b strings.Builder
	b.WriteString("(* GENERATED by /verif/harness/cmd/gen_ante from app/ante/ante.go and app/app.go -- do not edit *)\n")
	b.WriteString("From Sekai Require Import Base.Prelude Model.Filters.\n")
	b.WriteString("Definition ante_chain : list string := " + q(chain) + ".\n")
	b.WriteString(fmt.Sprintf("Definition gen_shape : shape := mkShape %s %s %s.\n", coqBool(sendReturns), coqBool(allowedReturns), q(bwTypes)))
	b.WriteString("Definition gen_wired : bool := " + coqBool(wired) + ".\n")
	b.WriteString("Definition gen_post_handler_installed : bool := " + coqBool(postInstalled) + ".\n")
	b.WriteString("Definition gen_errors : list string := " + q(errs) + ".\n")
	if err := os.WriteFile(*out, []byte(b.String()), 0o644); err != nil {
		fmt.Fprintln(os.Stderr, err)
		os.Exit(2)
	}
	if len(errs) > 0 {
		for _, e := range errs {
			fmt.Fprintln(os.Stderr, "gen_ante:", e)
		}
		os.Exit(1)
	}
	fmt.Fprintf(os.Stderr, "gen_ante: %d decorators, shape send_returns=%v allowed_returns=%v bw_types=%v wired=%v\n", len(chain), sendReturns, allowedReturns, bwTypes, wired)
}
