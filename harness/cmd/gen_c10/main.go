// gen_c10: reads from the working tree WHICH VARIANT of the repair sites of property C10 the code
// implements (claim owner comparison, end-blocker vote deletion, votes for signers only, share-denom
// prefix / share conversion / burn path in Undelegate) and writes coq/Gen/C10Cfg.v (Model/Pools.v is parametric in the variant):
//   - x/multistaking/keeper/msg_server.go ClaimUndelegation: is undelegation.Address compared with
//     msg.Sender (and the claim refused on a difference) before the coins are sent;
//   - x/distributor/keeper/abci.go EndBlocker: which votes the loop over all validator votes deletes
//     (height+snap > now: the fresh ones; height+snap <= now: the expired ones; no loop: none).
// Anything outside these shapes is an error (exit 2): the obligation "translator accepts the tree" breaks.
package main

import (
	"bytes"
	"flag"
	"fmt"
	"go/ast"
	"go/parser"
	"go/printer"
	"go/token"
	"os"
	"path/filepath"
	"strings"
)

var fset = token.NewFileSet()

func src(n ast.Node) string {
	var b bytes.Buffer
	printer.Fprint(&b, fset, n)
	return strings.Join(strings.Fields(b.String()), "")
}
func die(f string, a ...interface{}) {
	fmt.Fprintf(os.Stderr, "gen_c10: UNSUPPORTED: "+f+"\n", a...)
	os.Exit(2)
}
func findFunc(file *ast.File, name string) *ast.FuncDecl {
	for _, d := range file.Decls {
		if fd, ok := d.(*ast.FuncDecl); ok && fd.Name.Name == name && fd.Body != nil {
			return fd
		}
	}
	return nil
}
func parse(path string) *ast.File {
	f, err := parser.ParseFile(fset, path, nil, 0)
	if err != nil {
		die("%v", err)
	}
	return f
}

// returnsError: the block ends the function with a non-nil error
func returnsError(b *ast.BlockStmt) bool {
	for _, st := range b.List {
		if r, ok := st.(*ast.ReturnStmt); ok && len(r.Results) == 2 {
			if id, ok := r.Results[1].(*ast.Ident); ok && id.Name == "nil" {
				return false
			}
			return true
		}
	}
	return false
}

func ownerCheck(repo string) bool {
	fd := findFunc(parse(filepath.Join(repo, "x/multistaking/keeper/msg_server.go")), "ClaimUndelegation")
	if fd == nil {
		die("msgServer.ClaimUndelegation not found")
	}
	found, sent := false, false
	for _, st := range fd.Body.List { // top-level statements only, in order
		if strings.Contains(src(st), "SendCoinsFromModuleToAccount(") {
			sent = true
		}
		ifs, ok := st.(*ast.IfStmt)
		if !ok || ifs.Init != nil {
			continue
		}
		c := src(ifs.Cond)
		if c == "undelegation.Address!=msg.Sender" || c == "msg.Sender!=undelegation.Address" {
			if !returnsError(ifs.Body) || ifs.Else != nil {
				die("ClaimUndelegation: owner comparison does not refuse the claim: %s", src(ifs))
			}
			if sent {
				die("ClaimUndelegation: owner comparison after the coins were sent")
			}
			found = true
		} else if strings.Contains(c, "undelegation.Address") || strings.Contains(c, "msg.Sender") {
			die("ClaimUndelegation: unrecognised condition on the owner / sender: %s", c)
		}
	}
	if !sent {
		die("ClaimUndelegation: no SendCoinsFromModuleToAccount at top level")
	}
	return found
}

func endRule(repo string) int {
	fd := findFunc(parse(filepath.Join(repo, "x/distributor/keeper/abci.go")), "EndBlocker")
	if fd == nil {
		die("distributor Keeper.EndBlocker not found")
	}
	rule := 2
	loops := 0
	ast.Inspect(fd.Body, func(n ast.Node) bool {
		rs, ok := n.(*ast.RangeStmt)
		if !ok {
			return true
		}
		if !strings.Contains(src(rs.Body), "DeleteValidatorVote(") {
			return true
		}
		loops++
		if src(rs.X) != "allVotes" || len(rs.Body.List) != 1 {
			die("EndBlocker: vote-deleting loop of unknown shape: %s", src(rs))
		}
		ifs, ok := rs.Body.List[0].(*ast.IfStmt)
		if !ok || ifs.Else != nil || ifs.Init != nil {
			die("EndBlocker: vote-deleting loop of unknown shape: %s", src(rs))
		}
		be, ok := ifs.Cond.(*ast.BinaryExpr)
		if !ok || src(be.X) != "vote.Height+snapPeriod" || src(be.Y) != "ctx.BlockHeight()" {
			die("EndBlocker: unknown deletion condition: %s", src(ifs.Cond))
		}
		switch be.Op {
		case token.GTR:
			rule = 0
		case token.LEQ:
			rule = 1
		default:
			die("EndBlocker: unknown deletion condition: %s", src(ifs.Cond))
		}
		return false
	})
	if loops > 1 {
		die("EndBlocker: more than one vote-deleting loop")
	}
	if strings.Contains(src(fd.Body), "DeleteValidatorVote(") != (loops == 1) {
		die("EndBlocker: DeleteValidatorVote outside a recognised loop")
	}
	// snapPeriod / allVotes must be what the model assumes
	body := src(fd.Body)
	if loops == 1 && (!strings.Contains(body, "snapPeriod:=k.GetSnapPeriod(ctx)") || !strings.Contains(body, "allVotes:=k.GetAllValidatorVotes(ctx)")) {
		die("EndBlocker: snapPeriod / allVotes are not the stored snap period / all votes")
	}
	return rule
}

// BeginBlocker: for which validators of the last commit a vote is recorded
func signersOnly(repo string) bool {
	fd := findFunc(parse(filepath.Join(repo, "x/distributor/keeper/abci.go")), "BeginBlocker")
	if fd == nil {
		die("distributor Keeper.BeginBlocker not found")
	}
	res, loops := false, 0
	ast.Inspect(fd.Body, func(n ast.Node) bool {
		rs, ok := n.(*ast.RangeStmt)
		if !ok || !strings.Contains(src(rs.Body), "SetValidatorVote(") {
			return true
		}
		loops++
		if src(rs.X) != "req.LastCommitInfo.GetVotes()" || len(rs.Body.List) != 1 || src(rs.Value) != "bondedVote" {
			die("BeginBlocker: vote-recording loop of unknown shape: %s", src(rs))
		}
		call := "k.SetValidatorVote(ctx,bondedVote.Validator.Address,ctx.BlockHeight())"
		switch st := rs.Body.List[0].(type) {
		case *ast.ExprStmt:
			if src(st) != call {
				die("BeginBlocker: unknown vote-recording call: %s", src(st))
			}
		case *ast.IfStmt:
			if st.Init != nil || st.Else != nil || src(st.Cond) != "bondedVote.SignedLastBlock" || len(st.Body.List) != 1 || src(st.Body.List[0]) != call {
				die("BeginBlocker: unknown vote-recording condition: %s", src(st))
			}
			res = true
		default:
			die("BeginBlocker: vote-recording loop of unknown shape: %s", src(rs))
		}
		return false
	})
	if loops != 1 {
		die("BeginBlocker: expected exactly one vote-recording loop, found %d", loops)
	}
	return res
}

// Undelegate: the prefix looked for before dropping the delegator, the share conversion, the burn path
func undelegateFacts(repo string) (prefixOK bool, redeemRule int, burnRegistry bool) {
	fd := findFunc(parse(filepath.Join(repo, "x/multistaking/keeper/delegation.go")), "Undelegate")
	if fd == nil {
		die("multistaking Keeper.Undelegate not found")
	}
	body := src(fd.Body)
	switch {
	case strings.Contains(body, `prefix:=fmt.Sprintf("v%d_",pool.Id)`):
		prefixOK = false
	case strings.Contains(body, `prefix:=fmt.Sprintf("v%d/",pool.Id)`), strings.Contains(body, `prefix:=types.GetPoolPrefix(pool.Id)`):
		prefixOK = true
	default:
		die("Undelegate: unknown share-denom prefix")
	}
	if !strings.Contains(body, "if!strings.Contains(balances.String(),prefix){k.RemovePoolDelegator(ctx,pool.Id,delegator)}") {
		die("Undelegate: unknown delegator-removal condition")
	}
	switch {
	case strings.Contains(body, "poolCoins:=types.GetPoolCoins(pool,msg.Amounts)"):
		redeemRule = 0
	case strings.Contains(body, "poolCoins,err:=types.GetRedeemPoolCoins(pool,msg.Amounts)iferr!=nil{returnerr}"):
		redeemRule = 1
		f := findFunc(parse(filepath.Join(repo, "x/multistaking/types/pool.go")), "GetRedeemPoolCoins")
		if f == nil || !strings.Contains(src(f.Body), "burn:=coin.Amount.Mul(shares).Add(stake.SubRaw(1)).Quo(stake)") ||
			!strings.Contains(src(f.Body), "ifcoin.Amount.IsNegative()||!stake.IsPositive(){returnnil,ErrInsufficientTotalStakingTokens}") {
			die("GetRedeemPoolCoins: not the pro-rata rounded-up conversion the model has")
		}
	default:
		die("Undelegate: unknown share conversion")
	}
	switch {
	case strings.Contains(body, "k.bankKeeper.BurnCoins(ctx,types.ModuleName,poolCoins)"):
		burnRegistry = false
	case strings.Contains(body, "k.tokenKeeper.BurnCoins(ctx,types.ModuleName,poolCoins)"):
		burnRegistry = true
	default:
		die("Undelegate: unknown burn of the share tokens")
	}
	return
}

// app.go: does the slashing keeper get the application's multistaking keeper by reference or a copy by value
func slashByRef(repo string) bool {
	f := parse(filepath.Join(repo, "app/app.go"))
	res, found := false, 0
	ast.Inspect(f, func(n ast.Node) bool {
		call, ok := n.(*ast.CallExpr)
		if !ok || src(call.Fun) != "customslashingkeeper.NewKeeper" {
			return true
		}
		found++
		if len(call.Args) != 5 {
			die("app.go: customslashingkeeper.NewKeeper with %d arguments", len(call.Args))
		}
		switch src(call.Args[3]) {
		case "multiStakingKeeper":
			res = false
		case "&app.MultiStakingKeeper":
			res = true
		default:
			die("app.go: unknown multistaking keeper argument of the slashing keeper: %s", src(call.Args[3]))
		}
		return false
	})
	if found != 1 {
		die("app.go: expected one customslashingkeeper.NewKeeper call, found %d", found)
	}
	if res && !strings.Contains(src(f), "app.MultiStakingKeeper.SetDistrKeeper(app.DistrKeeper)") {
		die("app.go: the application's multistaking keeper never gets its distributor keeper")
	}
	return res
}

// slash.go: is the burn of the slashed default-denom stake skipped when there is none
func slashGuard(repo string) bool {
	fd := findFunc(parse(filepath.Join(repo, "x/multistaking/keeper/slash.go")), "SlashStakingPool")
	if fd == nil {
		die("multistaking Keeper.SlashStakingPool not found")
	}
	body := src(fd.Body)
	burn := "k.bankKeeper.BurnCoins(ctx,types.ModuleName,burnAmount)iferr!=nil{panic(err)}"
	switch {
	case strings.Contains(body, "ifdefaultDenomAmount.IsPositive(){err:="+burn+"}"):
		return true
	case strings.Contains(body, "err:="+burn):
		return false
	}
	die("SlashStakingPool: unknown burn of the slashed default-denom stake")
	return false
}

// IncreasePoolRewards: does a refused auto-compounding panic (inside BeginBlock) or is it run on a cache context
func compoundSafe(repo string) bool {
	f := parse(filepath.Join(repo, "x/multistaking/keeper/delegation.go"))
	fd := findFunc(f, "IncreasePoolRewards")
	if fd == nil {
		die("multistaking Keeper.IncreasePoolRewards not found")
	}
	body := src(fd.Body)
	tail := "err:=k.bankKeeper.SendCoinsFromModuleToAccount(ctx,authtypes.FeeCollectorName,delegator,autoCompoundRewards)"
	deleg := "err=k.Delegate(ctx,&types.MsgDelegate{DelegatorAddress:delegator.String(),ValidatorAddress:pool.Validator,Amounts:autoCompoundRewards,})"
	switch {
	case strings.Contains(body, "cacheCtx,write:=ctx.CacheContext()iferr:=k.autocompoundRewards(cacheCtx,pool,delegator);err==nil{write()}"):
		g := findFunc(f, "autocompoundRewards")
		if g == nil {
			die("autocompoundRewards not found")
		}
		b := src(g.Body)
		if !strings.Contains(b, tail+"iferr!=nil{returnerr}"+deleg+"iferr!=nil{returnerr}") || strings.Contains(b, "panic(") {
			die("autocompoundRewards: not the error-returning compounding the model has")
		}
		return true
	case strings.Contains(body, tail+"iferr!=nil{panic(err)}"+deleg+"iferr!=nil{panic(err)}"):
		return false
	}
	die("IncreasePoolRewards: unknown auto-compounding shape")
	return false
}

// genesis.go of x/multistaking: the shape the model's genesis round trip has (pools, undelegations, rewards are
// exported; the undelegation id counter is restored as the highest imported id)
func genesisShape(repo string) {
	f := parse(filepath.Join(repo, "x/multistaking/genesis.go"))
	exp, imp := findFunc(f, "ExportGenesis"), findFunc(f, "InitGenesis")
	if exp == nil || imp == nil {
		die("multistaking genesis.go: InitGenesis / ExportGenesis not found")
	}
	if src(exp.Body) != "{return&types.GenesisState{Pools:keeper.GetAllStakingPools(ctx),Undelegations:keeper.GetAllUndelegations(ctx),Rewards:keeper.GetAllDelegatorRewards(ctx),}}" {
		die("multistaking ExportGenesis: not the three-field export the model has: %s", src(exp.Body))
	}
	b := src(imp.Body)
	for _, want := range []string{
		"lastUndelegationId:=uint64(0)for_,undelegation:=rangegs.Undelegations{k.SetUndelegation(ctx,undelegation)ifundelegation.Id>lastUndelegationId{lastUndelegationId=undelegation.Id}}iflastUndelegationId>0{k.SetLastUndelegationId(ctx,lastUndelegationId)}",
		"for_,pool:=rangegs.Pools{k.SetStakingPool(ctx,pool)",
		"k.SetDelegatorRewards(ctx,delegator,reward.Rewards)",
	} {
		if !strings.Contains(b, want) {
			die("multistaking InitGenesis: not the import the model has (missing %s)", want)
		}
	}
}

func main() {
	repo := flag.String("repo", "/repo", "repository root")
	out := flag.String("out", "", "output .v file")
	flag.Parse()
	oc := ownerCheck(*repo)
	er := endRule(*repo)
	so := signersOnly(*repo)
	po, rr, br := undelegateFacts(*repo)
	sr, sg := slashByRef(*repo), slashGuard(*repo)
	cs := compoundSafe(*repo)
	genesisShape(*repo)
	var b strings.Builder
	b.WriteString("(* GENERATED by /verif/harness/cmd/gen_c10 from x/multistaking/keeper/msg_server.go (ClaimUndelegation),\n")
	b.WriteString("   x/multistaking/keeper/delegation.go (Undelegate), x/multistaking/keeper/slash.go, app/app.go (slashing keeper wiring)\n   and x/distributor/keeper/abci.go (BeginBlocker, EndBlocker) -- do not edit *)\n")
	b.WriteString("From Sekai Require Import Base.Prelude Model.Pools.\n")
	b.WriteString(fmt.Sprintf("Definition tree_variant : variant := mkVariant %v %d %v %v %d %v %v %v %v.\n", oc, er, so, po, rr, br, sr, sg, cs))
	if *out == "" {
		fmt.Print(b.String())
		return
	}
	if err := os.WriteFile(*out, []byte(b.String()), 0o644); err != nil {
		die("%v", err)
	}
	fmt.Fprintf(os.Stderr, "gen_c10: owner_check=%v end_rule=%d signers_only=%v prefix_ok=%v redeem_rule=%d burn_registry=%v slash_byref=%v slash_guard=%v compound_safe=%v\n", oc, er, so, po, rr, br, sr, sg, cs)
}
