// c03: global debit monitor at ABCI level.  Around EVERY DeliverTx (and BeginBlock / EndBlock)
// of generated histories it snapshots all bank balances and all recorded claims (pending
// undelegations, delegator rewards, layer2 user bonds, collective contributor bonds, identity
// verification tips) keyed by owner, plus the authorisation facts of the two sanctioned releases
// (custody approvals, address rotation), and writes one observation per step for the Coq spec
// checker c03_violations (Model/C03Check.v).  Honest operations are mixed with an adversarial
// stream in which every signer names other accounts / other people's object ids in every
// owner-ish field of the pay-out capable messages.
package main

import (
	"flag"
	"fmt"
	"os"
	"sort"
	"strings"

	"verif/harness/abci"
	"verif/harness/hx"

	mstypes "github.com/KiraCore/sekai/x/multistaking/types"
	cryptotypes "github.com/cosmos/cosmos-sdk/crypto/types"
	sdk "github.com/cosmos/cosmos-sdk/types"
)

func main() {
	outDir := flag.String("out", ".", "output directory")
	n := flag.Int("n", 12, "number of histories")
	only := flag.String("only", "", "run only the named scenario (debug)")
	flag.Parse()
	out := hx.Out{Dir: *outDir}
	seed := hx.Seed()
	rng := hx.NewRng(seed)

	rec := &recorder{dist: hx.Counter{}}
	for h := 0; h < *n; h++ {
		w := newWorld(seed*1000+uint64(h), rng.Fork(), rec, h)
		w.history(*only)
	}

	var pre strings.Builder
	pre.WriteString("(* written by /verif/harness/cmd/c03 -- observations of the real application *)\n")
	pre.WriteString("From Sekai Require Import Base.Prelude Model.Debit Model.C03Check.\n")
	out.WriteFile("pre.v", pre.String())
	out.WriteFile("cases.txt", strings.Join(rec.coq, "\n")+"\n")
	out.WriteJSON("meta.json", map[string]string{"case_type": "c03_case", "mismatch_fn": "c03_mismatches", "violation_fn": "c03_violations"})
	out.WriteJSON("cases.json", rec.js)
	acc, rej := 0, 0
	for _, j := range rec.js {
		if j.Phase == "tx" {
			if j.OK {
				acc++
			} else {
				rej++
			}
		}
	}
	out.WriteJSON("dist.json", map[string]interface{}{"seed": seed, "histories": *n, "cases": len(rec.js), "tx_accepted": acc, "tx_rejected": rej,
		"by_op": rec.dist, "modelled_cases": rec.modelled, "panics": rec.panics})
	fmt.Fprintf(os.Stderr, "c03: %d histories, %d cases (%d modelled), tx accepted %d rejected %d\n", *n, len(rec.js), rec.modelled, acc, rej)
}

// ---------------------------------------------------------------- recorder

type jcase struct {
	Hist    int      `json:"history"`
	Step    int      `json:"step"`
	Phase   string   `json:"phase"` // tx | begin | end
	Op      string   `json:"op,omitempty"`
	Attack  bool     `json:"adversarial,omitempty"`
	Msgs    []string `json:"msgs,omitempty"`
	MsgJSON []string `json:"msg_json,omitempty"`
	Signers []string `json:"signers,omitempty"`
	OK      bool     `json:"ok"`
	Log     string   `json:"log,omitempty"`
	Bal     []string `json:"balance_changes,omitempty"`
	Claims  []string `json:"claim_changes,omitempty"`
	Facts   []string `json:"facts,omitempty"`
	Seed    uint64   `json:"chain_seed"`
	Prior   []string `json:"prior_ops,omitempty"` // the operations of this history executed before (for replay)
}

type recorder struct {
	coq      []string
	js       []jcase
	dist     hx.Counter
	modelled int
	panics   []string
}

// ---------------------------------------------------------------- snapshots

type claimKey struct {
	Owner int64
	Kind  string
	ID    int64
	Payee int64 // -1 none
	Denom string
}

type snap struct {
	bal    map[int64]map[string]sdk.Int
	claims map[claimKey]sdk.Int
}

func coinsZ(cs sdk.Coins) string {
	var xs []string
	for _, c := range cs {
		xs = append(xs, hx.Pair(hx.Str(c.Denom), hx.ZInt(c.Amount)))
	}
	return hx.List(xs)
}

func (w *world) snapshot() snap {
	ctx := w.ctx()
	s := snap{bal: map[int64]map[string]sdk.Int{}, claims: map[claimKey]sdk.Int{}}
	w.c.App.BankKeeper.IterateAllBalances(ctx, func(addr sdk.AccAddress, coin sdk.Coin) bool {
		id := w.id(addr.String())
		if s.bal[id] == nil {
			s.bal[id] = map[string]sdk.Int{}
		}
		s.bal[id][coin.Denom] = coin.Amount
		return false
	})
	add := func(owner string, kind string, id int64, payee string, cs sdk.Coins) {
		p := int64(-1)
		if payee != "" {
			p = w.id(payee)
		}
		for _, c := range cs {
			k := claimKey{w.id(owner), kind, id, p, c.Denom}
			if old, ok := s.claims[k]; ok {
				s.claims[k] = old.Add(c.Amount)
			} else {
				s.claims[k] = c.Amount
			}
		}
	}
	app := w.c.App
	for _, u := range app.MultiStakingKeeper.GetAllUndelegations(ctx) {
		add(u.Address, "undelegation", int64(u.Id), "", u.Amount)
	}
	for _, r := range app.MultiStakingKeeper.GetAllDelegatorRewards(ctx) {
		add(r.Delegator, "reward", w.id(r.Delegator), "", r.Rewards)
	}
	for _, b := range app.Layer2Keeper.GetAllUserDappBonds(ctx) {
		add(b.User, "l2bond", w.nameID(b.DappName), "", sdk.Coins{b.Bond})
	}
	for _, cc := range app.CollectivesKeeper.GetAllCollectiveContributers(ctx) {
		add(cc.Address, "cbond", w.nameID(cc.Name), "", cc.Bonds)
	}
	for _, r := range app.CustomGovKeeper.GetAllIdRecordsVerifyRequests(ctx) {
		add(r.Address, "tip", int64(r.Id), r.Verifier, sdk.Coins{r.Tip})
	}
	for _, r := range app.RecoveryKeeper.GetAllRRHolderRewards(ctx) {
		add(r.Holder, "rrreward", w.id(r.Holder), "", r.Rewards)
	}
	// spending pools: what each registered beneficiary could claim now (the formula of
	// ClaimSpendingPool for a fixed-rate pool), keyed by the beneficiary
	now := ctx.BlockTime().Unix()
	for _, ci := range app.SpendingKeeper.GetAllClaimInfos(ctx) {
		pool := app.SpendingKeeper.GetSpendingPool(ctx, ci.PoolName)
		acc, err := sdk.AccAddressFromBech32(ci.Account)
		if pool == nil || err != nil || pool.DynamicRate || pool.Beneficiaries == nil {
			continue
		}
		weight := app.SpendingKeeper.GetBeneficiaryWeight(ctx, acc, *pool.Beneficiaries)
		start, end := int64(pool.ClaimStart), now
		if start < int64(ci.LastClaim) {
			start = int64(ci.LastClaim)
		}
		if pool.ClaimEnd != 0 && end > int64(pool.ClaimEnd) {
			end = int64(pool.ClaimEnd)
		}
		if weight.IsZero() || start >= end {
			continue
		}
		dur := end - start
		if dur > int64(pool.ClaimExpiry) {
			dur = int64(pool.ClaimExpiry)
		}
		var cs sdk.Coins
		for _, rate := range pool.Rates {
			amt := rate.Amount.Mul(sdk.NewDec(dur)).Mul(weight).RoundInt()
			if amt.IsPositive() {
				cs = cs.Add(sdk.NewCoin(rate.Denom, amt))
			}
		}
		add(ci.Account, "spclaim", w.nameID(ci.PoolName), "", cs)
	}
	return s
}

// ---------------------------------------------------------------- emitting one observation

func zopt(v int64) string {
	if v < 0 {
		return "None"
	}
	return "(Some " + hx.Z(v) + ")"
}

func (w *world) emit(phase int, op string, attack bool, msgs []sdk.Msg, signers []int, ok bool, log string, pre, post snap, facts []string, jfacts []string, model string) {
	var bal, jb []string
	ids := map[int64]bool{}
	for a := range pre.bal {
		ids[a] = true
	}
	for a := range post.bal {
		ids[a] = true
	}
	var order []int64
	for a := range ids {
		order = append(order, a)
	}
	sort.Slice(order, func(i, j int) bool { return order[i] < order[j] })
	for _, a := range order {
		ds := map[string]bool{}
		for d := range pre.bal[a] {
			ds[d] = true
		}
		for d := range post.bal[a] {
			ds[d] = true
		}
		var dl []string
		for d := range ds {
			dl = append(dl, d)
		}
		sort.Strings(dl)
		for _, d := range dl {
			b, a2 := sdk.ZeroInt(), sdk.ZeroInt()
			if v, ok := pre.bal[a][d]; ok {
				b = v
			}
			if v, ok := post.bal[a][d]; ok {
				a2 = v
			}
			if !b.Equal(a2) {
				bal = append(bal, hx.Tuple(hx.Z(a), hx.Str(d), hx.ZInt(b), hx.ZInt(a2)))
				jb = append(jb, fmt.Sprintf("%s %s: %s -> %s", w.name(a), d, b, a2))
			}
		}
	}
	keys := map[claimKey]bool{}
	for k := range pre.claims {
		keys[k] = true
	}
	for k := range post.claims {
		keys[k] = true
	}
	var kl []claimKey
	for k := range keys {
		kl = append(kl, k)
	}
	sort.Slice(kl, func(i, j int) bool {
		a, b := kl[i], kl[j]
		if a.Owner != b.Owner {
			return a.Owner < b.Owner
		}
		if a.Kind != b.Kind {
			return a.Kind < b.Kind
		}
		if a.ID != b.ID {
			return a.ID < b.ID
		}
		if a.Payee != b.Payee {
			return a.Payee < b.Payee
		}
		return a.Denom < b.Denom
	})
	var cl, jc []string
	for _, k := range kl {
		b, a2 := sdk.ZeroInt(), sdk.ZeroInt()
		if v, ok := pre.claims[k]; ok {
			b = v
		}
		if v, ok := post.claims[k]; ok {
			a2 = v
		}
		if !b.Equal(a2) {
			cl = append(cl, hx.Tuple(hx.Z(k.Owner), hx.Str(k.Kind), hx.Z(k.ID), zopt(k.Payee), hx.Str(k.Denom), hx.ZInt(b), hx.ZInt(a2)))
			jc = append(jc, fmt.Sprintf("%s %s#%d %s: %s -> %s", w.name(k.Owner), k.Kind, k.ID, k.Denom, b, a2))
		}
	}
	var sg []string
	var js []string
	for _, s := range signers {
		sg = append(sg, hx.Z(int64(s)))
		js = append(js, fmt.Sprintf("a%d", s))
	}
	if model == "" {
		model = "None"
	} else {
		w.rec.modelled++
	}
	w.rec.coq = append(w.rec.coq, fmt.Sprintf("mkCase %d %s %s %s %s %s", phase, hx.List(sg), hx.List(bal), hx.List(cl), hx.List(facts), model))
	j := jcase{Hist: w.hist, Step: w.step, Phase: []string{"tx", "begin", "end", "genesis"}[phase], Op: op, Attack: attack, Signers: js, OK: ok, Log: log,
		Bal: jb, Claims: jc, Facts: jfacts, Seed: w.seed}
	for _, m := range msgs {
		j.Msgs = append(j.Msgs, msgName(m))
		bz, err := w.c.Enc.Marshaler.MarshalInterfaceJSON(m)
		if err == nil {
			j.MsgJSON = append(j.MsgJSON, w.rename(string(bz)))
		}
	}
	if len(jb) > 0 || len(jc) > 0 {
		j.Prior = append([]string{}, w.opsLog...)
	}
	w.rec.js = append(w.rec.js, j)
	w.step++
	if phase == 0 {
		w.rec.dist.Inc(op + ":" + map[bool]string{true: "accepted", false: "rejected"}[ok])
		w.opsLog = append(w.opsLog, fmt.Sprintf("%s by %v ok=%v", op, js, ok))
	}
}

func msgName(m sdk.Msg) string {
	s := sdk.MsgTypeURL(m) // "/kira.multistaking.MsgDelegate"
	s = strings.TrimPrefix(s, "/")
	parts := strings.Split(s, ".")
	if len(parts) >= 2 {
		return parts[len(parts)-2] + "." + parts[len(parts)-1]
	}
	return s
}

// escrowFacts: after a step, per escrowed claim kind and denom: the module's balance and the sum of
// the pending entries owned by accounts that did not sign
func (w *world) escrowFacts(pre, post snap, signers []int) (coq, js []string) {
	mods := map[string]int64{"tip": 1003, "undelegation": 1001, "l2bond": 1004, "reward": 1002, "rrreward": 1007}
	type kd struct{ k, d string }
	total := func(sn snap) map[kd]sdk.Int {
		sum := map[kd]sdk.Int{}
		for ck, v := range sn.claims {
			if _, ok := mods[ck.Kind]; !ok {
				continue
			}
			signed := false
			for _, s := range signers {
				signed = signed || int64(s) == ck.Owner
			}
			if signed {
				continue
			}
			x := kd{ck.Kind, ck.Denom}
			if old, ok := sum[x]; ok {
				sum[x] = old.Add(v)
			} else {
				sum[x] = v
			}
		}
		return sum
	}
	sa, sb := total(post), total(pre)
	var keys []kd
	for x := range sa {
		keys = append(keys, x)
	}
	sort.Slice(keys, func(i, j int) bool { return keys[i].k+"/"+keys[i].d < keys[j].k+"/"+keys[j].d })
	get := func(sn snap, m int64, d string) sdk.Int {
		if v, ok := sn.bal[m][d]; ok {
			return v
		}
		return sdk.ZeroInt()
	}
	for _, x := range keys {
		pb := sdk.ZeroInt()
		if v, ok := sb[x]; ok {
			pb = v
		}
		ba, bb := get(post, mods[x.k], x.d), get(pre, mods[x.k], x.d)
		coq = append(coq, fmt.Sprintf("FEscrow %s %d %s %s %s %s %s", hx.Str(x.k), mods[x.k], hx.Str(x.d), hx.ZInt(sa[x]), hx.ZInt(ba), hx.ZInt(pb), hx.ZInt(bb)))
		if sa[x].GT(ba) {
			js = append(js, fmt.Sprintf("escrow of %s in %s: %s holds %s (before: %s), pending entries of non-signers sum to %s (before: %s)", x.k, x.d, w.name(mods[x.k]), ba, bb, sa[x], pb))
		}
	}
	return
}

// tx delivers msgs signed by the given accounts with full monitoring.
func (w *world) tx(op string, attack bool, msgs []sdk.Msg, signers []int) abci.TxResult {
	pre := w.snapshot()
	facts, jfacts := w.facts(msgs, signers)
	model := w.modelInput(op, msgs, signers, pre)
	var res abci.TxResult
	fee := abci.DefaultFee()
	if model == "" && w.foreignFees > 0 && w.r.Chance(45) { // fees in other denoms: rewards accrue in several denoms
		switch w.r.Intn(w.foreignFees) {
		case 0:
			fee = sdk.NewCoins(sdk.NewInt64Coin("ubtc", 100+int64(w.r.Intn(300))))
		default:
			fee = sdk.NewCoins(sdk.NewInt64Coin("xeth", 10000+int64(w.r.Intn(50000))))
		}
	}
	p := hx.Try(func() { res = w.c.Deliver(msgs, signers, fee) })
	if p != "" {
		res = abci.TxResult{Code: 1 << 29, Log: "harness panic: " + p}
		w.rec.panics = append(w.rec.panics, op+": "+p)
	}
	post := w.snapshot()
	log := ""
	if res.Code != 0 || res.Panic != "" {
		log = res.Log
		if len(log) > 160 {
			log = log[:160]
		}
		if res.Panic != "" {
			log = "PANIC " + res.Panic
		}
	}
	if res.Code != 0 && !strings.Contains(res.Log, "failed to execute message") {
		model = "" // refused by the ante handler: the message handler did not run
	}
	if model != "" {
		model = strings.Replace(model, "@OK@", hx.B(res.Code == 0 && res.Panic == ""), 1)
	}
	if res.Code == 0 { // an accepted rotation renames requester / verifier of pending requests: they leave the ghost record
		for _, m := range msgs {
			w.ghostRotation(m)
		}
	}
	ef, ej := w.escrowFacts(pre, post, signers)
	facts, jfacts = append(facts, ef...), append(jfacts, ej...)
	if w.expectOK != "" {
		handlerRan := res.Code == 0 || strings.Contains(res.Log, "failed to execute message")
		if handlerRan {
			ok := res.Code == 0 && res.Panic == ""
			facts = append(facts, fmt.Sprintf("FRightful %s %s", hx.Str(w.expectOK), hx.B(ok)))
			jfacts = append(jfacts, fmt.Sprintf("the signer settles a pending %s entry of his own (ghost record): accepted=%v", w.expectOK, ok))
		}
		w.expectOK = ""
	}
	w.emit(0, op, attack, msgs, signers, res.Code == 0 && res.Panic == "", log, pre, post, facts, jfacts, model)
	return res
}

// txFeePayer: msgs signed by [signers], the fee charged to account fp named in the transaction's
// fee-payer field; fp signs as the last signer when [fpSigns], otherwise its signature is missing.
func (w *world) txFeePayer(op string, attack bool, msgs []sdk.Msg, signers []int, fp int, fpSigns bool) abci.TxResult {
	pre := w.snapshot()
	txb := w.c.Enc.TxConfig.NewTxBuilder()
	var res abci.TxResult
	all := append([]int{}, signers...)
	dup := false
	for _, s := range signers {
		dup = dup || s == fp
	}
	if fpSigns && !dup {
		all = append(all, fp)
	}
	if err := txb.SetMsgs(msgs...); err != nil {
		res = abci.TxResult{Code: 1 << 30, Log: "build: " + err.Error()}
	} else {
		txb.SetFeeAmount(abci.DefaultFee())
		txb.SetGasLimit(10_000_000)
		txb.SetFeePayer(w.addr(fp))
		var privs []cryptotypes.PrivKey
		var nums, seqs []uint64
		for _, s := range all {
			privs = append(privs, w.c.Accounts[s].Priv)
			acc := w.c.App.AccountKeeper.GetAccount(w.ctx(), w.addr(s))
			if acc != nil {
				nums, seqs = append(nums, acc.GetAccountNumber()), append(seqs, acc.GetSequence())
			} else {
				nums, seqs = append(nums, 0), append(seqs, 0)
			}
		}
		bz, err := abci.SignTx(w.c.Enc.TxConfig, txb, privs, nums, seqs)
		if err != nil {
			res = abci.TxResult{Code: 1 << 30, Log: "sign: " + err.Error()}
		} else {
			res = w.c.DeliverRaw(bz)
		}
	}
	post := w.snapshot()
	ok := res.Code == 0 && res.Panic == ""
	log := res.Log
	if len(log) > 160 {
		log = log[:160]
	}
	w.emit(0, op, attack, msgs, all, ok, log, pre, post, nil, nil, "")
	return res
}

// txForged: the messages name [victim] as their signer; the attacker signs with his own key using
// the victim's account number and sequence (the strongest forgery available without the key).
func (w *world) txForged(op string, msgs []sdk.Msg, attacker, victim int) abci.TxResult {
	pre := w.snapshot()
	facts, jfacts := w.facts(msgs, []int{attacker})
	txb := w.c.Enc.TxConfig.NewTxBuilder()
	var res abci.TxResult
	if err := txb.SetMsgs(msgs...); err != nil {
		res = abci.TxResult{Code: 1 << 30, Log: "build: " + err.Error()}
	} else {
		txb.SetFeeAmount(abci.DefaultFee())
		txb.SetGasLimit(10_000_000)
		acc := w.c.App.AccountKeeper.GetAccount(w.ctx(), w.addr(victim))
		var num, seq uint64
		if acc != nil {
			num, seq = acc.GetAccountNumber(), acc.GetSequence()
		}
		bz, err := abci.SignTx(w.c.Enc.TxConfig, txb, []cryptotypes.PrivKey{w.c.Accounts[attacker].Priv}, []uint64{num}, []uint64{seq})
		if err != nil {
			res = abci.TxResult{Code: 1 << 30, Log: "sign: " + err.Error()}
		} else {
			res = w.c.DeliverRaw(bz)
		}
	}
	post := w.snapshot()
	ok := res.Code == 0 && res.Panic == ""
	log := res.Log
	if len(log) > 160 {
		log = log[:160]
	}
	w.emit(0, op, true, msgs, []int{attacker}, ok, log, pre, post, facts, jfacts, "")
	return res
}

// poolFacts: the exchange rate of every staking pool's share tokens (pre-state)
func (w *world) poolFacts() (coq, js []string) {
	ctx := w.ctx()
	for _, pool := range w.c.App.MultiStakingKeeper.GetAllStakingPools(ctx) {
		keep := sdk.OneDec().Sub(pool.Slashed)
		seen := map[string]bool{}
		for _, list := range [][]sdk.Coin{pool.TotalShareTokens, pool.TotalStakingTokens} {
			for _, c := range list {
				nd := mstypes.GetNativeDenom(pool.Id, c.Denom)
				if seen[nd] {
					continue
				}
				seen[nd] = true
				coq = append(coq, fmt.Sprintf("FPool %s %s %s", hx.Str(mstypes.GetShareDenom(pool.Id, nd)), hx.Str(nd), hx.ZBig(keep.BigInt())))
			}
		}
		// denoms never staked so far can still be compounded into this pool
		for _, nd := range []string{"ukex", "ubtc", "xeth"} {
			if !seen[nd] {
				coq = append(coq, fmt.Sprintf("FPool %s %s %s", hx.Str(mstypes.GetShareDenom(pool.Id, nd)), hx.Str(nd), hx.ZBig(keep.BigInt())))
			}
		}
		js = append(js, fmt.Sprintf("pool %d: 1 staked unit = %s share units", pool.Id, keep))
	}
	return
}

func (w *world) begin(dt int64) {
	pre := w.snapshot()
	facts, jf := w.poolFacts()
	prop := 0 // validator 0 owns the staking pool: proposing two blocks out of three keeps reward and compounding rounds out of step
	if w.c.Height%3 == 2 {
		prop = 1
	}
	p := w.c.BeginBlock(abci.BlockReq{Dt: dt, Proposer: prop})
	post := w.snapshot()
	jf = append(jf, w.compoundDesc...)
	ef, ej := w.escrowFacts(pre, post, nil)
	facts, jf = append(facts, ef...), append(jf, ej...)
	w.emit(1, "begin-block", false, nil, nil, p == "", p, pre, post, facts, jf, "")
}

func (w *world) end() {
	pre := w.snapshot()
	var r abci.EndResult
	// observe before Commit: EndBlock effects are visible on the deliver state only until Commit
	// resets it, and afterwards on the committed state -- c.Ctx() serves both
	facts, jf := w.poolFacts()
	r = w.c.EndBlock()
	post := w.snapshot()
	ef, ej := w.escrowFacts(pre, post, nil)
	facts, jf = append(facts, ef...), append(jf, ej...)
	w.emit(2, "end-block", false, nil, nil, r.Panic == "", r.Panic, pre, post, facts, jf, "")
}
