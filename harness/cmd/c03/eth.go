package main

import (
	"fmt"
	"math/big"

	"verif/harness/hx"

	"verif/harness/abci"

	tokenstypes "github.com/KiraCore/sekai/x/tokens/types"
	"github.com/cosmos/cosmos-sdk/crypto/keys/secp256k1"
	cryptotypes "github.com/cosmos/cosmos-sdk/crypto/types"
	sdk "github.com/cosmos/cosmos-sdk/types"
	"github.com/cosmos/cosmos-sdk/types/tx/signing"
	banktypes "github.com/cosmos/cosmos-sdk/x/bank/types"
	"github.com/ethereum/go-ethereum/common"
	ethtypes "github.com/ethereum/go-ethereum/core/types"
	ethcrypto "github.com/ethereum/go-ethereum/crypto"
	"github.com/ethereum/go-ethereum/rlp"
)

const ethChainID = 8789

// ethAccount: an Ethereum-style account: its address is the Ethereum address of its key, so the
// key on record does not hash to the address and the chain verifies it through raw transactions
func (w *world) setupEthAccount() {
	b := make([]byte, 32)
	r := hx.NewRng(w.seed*7919 + 4242)
	for i := range b {
		b[i] = byte(r.Next())
	}
	b[0] |= 1
	w.ethKey = &secp256k1.PrivKey{Key: b}
	ec, err := ethcrypto.ToECDSA(b)
	if err != nil {
		panic(err)
	}
	w.ethAddr = sdk.AccAddress(ethcrypto.PubkeyToAddress(ec.PublicKey).Bytes())
	w.id(w.ethAddr.String())
	w.must("fund-eth-account", []sdk.Msg{banktypes.NewMsgSend(w.addr(0), w.ethAddr, sdk.NewCoins(ukex(9_000_000_000)))}, []int{0})
	w.ethEnvelope("eth-honest", false, 0, w.addr(1), 5, nil) // puts the key on record
}

// ethEnvelope: a SIGN_MODE_DIRECT transaction whose first message is a raw Ethereum NativeSend of
// the Ethereum-style account, HONESTLY signed by its key (nonce = current sequence + nonceOff:
// 0 = fresh, negative = one already accepted), followed by [extra] messages.  The only signature
// material is the inner payload: the account authorised [amt] to [to] (plus the fee), nothing else.
func (w *world) ethEnvelope(op string, attack bool, nonceOff int64, to sdk.AccAddress, amt int64, extra []sdk.Msg) {
	ctx := w.ctx()
	acc := w.c.App.AccountKeeper.GetAccount(ctx, w.ethAddr)
	if acc == nil || w.ethKey == nil {
		return
	}
	ec, _ := ethcrypto.ToECDSA(w.ethKey.Key)
	toE := common.BytesToAddress(to)
	nonce := uint64(int64(acc.GetSequence()) + nonceOff)
	inner := &ethtypes.LegacyTx{Nonce: nonce, To: &toE, Value: new(big.Int).Mul(big.NewInt(amt), big.NewInt(1000_000_000_000)), Gas: 21000, GasPrice: big.NewInt(1)}
	etx, err := ethtypes.SignNewTx(ec, ethtypes.NewEIP155Signer(big.NewInt(ethChainID)), inner)
	if err != nil {
		return
	}
	data, err := rlp.EncodeToBytes(etx)
	if err != nil {
		return
	}
	msgs := append([]sdk.Msg{&tokenstypes.MsgEthereumTx{TxType: "NativeSend", Sender: w.ethAddr.String(), Hash: etx.Hash().Hex(), Data: data}}, extra...)
	pre := w.snapshot()
	txb := w.c.Enc.TxConfig.NewTxBuilder()
	res := abci.TxResult{}
	fee := abci.DefaultFee()
	if err := txb.SetMsgs(msgs...); err != nil {
		res = abci.TxResult{Code: 1 << 30, Log: "build: " + err.Error()}
	} else {
		txb.SetFeeAmount(fee)
		txb.SetGasLimit(10_000_000)
		noise := []byte("raw-eth-slot-noise-raw-eth-slot-noise-raw-eth-slot-noise-0123456789")[:65]
		sig := signing.SignatureV2{PubKey: w.ethKey.PubKey(),
			Data: &signing.SingleSignatureData{SignMode: signing.SignMode_SIGN_MODE_DIRECT, Signature: noise}, Sequence: acc.GetSequence()}
		if err := txb.SetSignatures(sig); err != nil {
			res = abci.TxResult{Code: 1 << 30, Log: "sign: " + err.Error()}
		} else if bz, err := w.c.Enc.TxConfig.TxEncoder()(txb.GetTx()); err != nil {
			res = abci.TxResult{Code: 1 << 30, Log: "encode: " + err.Error()}
		} else {
			res = w.c.DeliverRaw(bz)
		}
	}
	post := w.snapshot()
	ok := res.Code == 0 && res.Panic == ""
	log := res.Log
	if len(log) > 200 {
		log = log[:200]
	}
	auth := sdk.NewCoins(ukex(amt)).Add(fee...)
	facts := []string{fmt.Sprintf("FAuthorised %s %s", hx.Z(w.id(w.ethAddr.String())), coinsZ(auth))}
	jf := []string{fmt.Sprintf("%s signed only the inner raw transaction: %dukex to %s (plus the fee %s); %d further message(s) follow", w.name(w.id(w.ethAddr.String())), amt, w.name(w.id(to.String())), fee, len(extra))}
	ef, ej := w.escrowFacts(pre, post, nil)
	w.emit(0, op, attack, msgs, nil, ok, log, pre, post, append(facts, ef...), append(jf, ej...), "")
}

// coveredFirstOnly: account [v] honestly signs (SIGN_MODE_DIRECT) a transaction consisting of m0
// alone; the attacker re-uses that signature on a transaction [m0, extra...]
func (w *world) coveredFirstOnly(op string, v int, m0 sdk.Msg, authorised sdk.Coins, extra []sdk.Msg) {
	pre := w.snapshot()
	fee := abci.DefaultFee()
	res := abci.TxResult{}
	acc := w.c.App.AccountKeeper.GetAccount(w.ctx(), w.addr(v))
	txb := w.c.Enc.TxConfig.NewTxBuilder()
	if acc == nil || txb.SetMsgs(m0) != nil {
		return
	}
	txb.SetFeeAmount(fee)
	txb.SetGasLimit(10_000_000)
	if _, err := abci.SignTx(w.c.Enc.TxConfig, txb, []cryptotypes.PrivKey{w.c.Accounts[v].Priv}, []uint64{acc.GetAccountNumber()}, []uint64{acc.GetSequence()}); err != nil {
		return
	}
	sigs, err := txb.GetTx().GetSignaturesV2()
	if err != nil {
		return
	}
	msgs := append([]sdk.Msg{m0}, extra...)
	txb2 := w.c.Enc.TxConfig.NewTxBuilder()
	if txb2.SetMsgs(msgs...) != nil {
		return
	}
	txb2.SetFeeAmount(fee)
	txb2.SetGasLimit(10_000_000)
	if err := txb2.SetSignatures(sigs...); err != nil {
		return
	}
	bz, err := w.c.Enc.TxConfig.TxEncoder()(txb2.GetTx())
	if err != nil {
		return
	}
	res = w.c.DeliverRaw(bz)
	post := w.snapshot()
	ok := res.Code == 0 && res.Panic == ""
	log := res.Log
	if len(log) > 200 {
		log = log[:200]
	}
	facts := []string{fmt.Sprintf("FAuthorised %s %s", hx.Z(int64(v)), coinsZ(authorised.Add(fee...)))}
	jf := []string{fmt.Sprintf("a%d signed a transaction consisting of the first message only (%s plus the fee); its signature is re-used with %d appended message(s)", v, authorised, len(extra))}
	ef, ej := w.escrowFacts(pre, post, nil)
	w.emit(0, op, true, msgs, nil, ok, log, pre, post, append(facts, ef...), append(jf, ej...), "")
}

// ethForged: MsgEthereumTx{Sender: victim} whose raw Ethereum transaction (NativeSend to the
// attacker) is signed by the ATTACKER's key with the victim's sequence as nonce; the signature
// slot carries the attacker's public key and noise.  For a victim without a key on record the
// SetPubKey decorator stores the attacker's key, which routes verification to the raw-tx path.
func (w *world) ethForged(attacker int, victim sdk.AccAddress, ukexAmt int64) {
	ctx := w.ctx()
	acc := w.c.App.AccountKeeper.GetAccount(ctx, victim)
	if acc == nil {
		return
	}
	ec, err := ethcrypto.ToECDSA(w.c.Accounts[attacker].Priv.Bytes())
	if err != nil {
		return
	}
	to := common.BytesToAddress(w.addr(attacker))
	val := new(big.Int).Mul(big.NewInt(ukexAmt), big.NewInt(1000_000_000_000))
	inner := &ethtypes.LegacyTx{Nonce: acc.GetSequence(), To: &to, Value: val, Gas: 21000, GasPrice: big.NewInt(1)}
	etx, err := ethtypes.SignNewTx(ec, ethtypes.NewEIP155Signer(big.NewInt(ethChainID)), inner)
	if err != nil {
		return
	}
	data, err := rlp.EncodeToBytes(etx)
	if err != nil {
		return
	}
	msg := &tokenstypes.MsgEthereumTx{TxType: "NativeSend", Sender: victim.String(), Hash: etx.Hash().Hex(), Data: data}
	msgs := []sdk.Msg{msg}
	pre := w.snapshot()
	txb := w.c.Enc.TxConfig.NewTxBuilder()
	res := abci.TxResult{}
	if err := txb.SetMsgs(msgs...); err != nil {
		res = abci.TxResult{Code: 1 << 30, Log: "build: " + err.Error()}
	} else {
		txb.SetFeeAmount(abci.DefaultFee())
		txb.SetGasLimit(10_000_000)
		noise := []byte("raw-eth-slot-noise-raw-eth-slot-noise-raw-eth-slot-noise-0123456789")[:65]
		sig := signing.SignatureV2{PubKey: w.c.Accounts[attacker].Priv.PubKey(),
			Data: &signing.SingleSignatureData{SignMode: signing.SignMode_SIGN_MODE_DIRECT, Signature: noise}, Sequence: acc.GetSequence()}
		if err := txb.SetSignatures(sig); err != nil {
			res = abci.TxResult{Code: 1 << 30, Log: "sign: " + err.Error()}
		} else if bz, err := w.c.Enc.TxConfig.TxEncoder()(txb.GetTx()); err != nil {
			res = abci.TxResult{Code: 1 << 30, Log: "encode: " + err.Error()}
		} else {
			res = w.c.DeliverRaw(bz)
		}
	}
	post := w.snapshot()
	ok := res.Code == 0 && res.Panic == ""
	log := res.Log
	if len(log) > 200 {
		log = log[:200]
	}
	w.emit(0, "eth-raw-forged-sender", true, msgs, []int{attacker}, ok, log, pre, post, nil, nil, "")
}
