package main

import (
	"math/big"

	"verif/harness/abci"

	tokenstypes "github.com/KiraCore/sekai/x/tokens/types"
	sdk "github.com/cosmos/cosmos-sdk/types"
	"github.com/cosmos/cosmos-sdk/types/tx/signing"
	"github.com/ethereum/go-ethereum/common"
	ethtypes "github.com/ethereum/go-ethereum/core/types"
	ethcrypto "github.com/ethereum/go-ethereum/crypto"
	"github.com/ethereum/go-ethereum/rlp"
)

const ethChainID = 8789

// ethForged: MsgEthereumTx{Sender: victim} whose raw Ethereum transaction (NativeSend to the
// attacker) is signed by the ATTACKER's key with the victim's sequence as nonce; the signature
// slot carries the attacker's public key and noise.  For a victim without a key on record the
// SetPubKey decorator stores the attacker's key, which routes verification to the raw-tx path.
func (w *world) ethForged(attacker int, victim sdk.AccAddress, ukexAmt int64) {
	ctx := w.ctx()
	acc := w.c.App.AccountKeeper.GetAccount(ctx, victim)
	if acc == nil {
		return
	}
	ec, err := ethcrypto.ToECDSA(w.c.Accounts[attacker].Priv.Bytes())
	if err != nil {
		return
	}
	to := common.BytesToAddress(w.addr(attacker))
	val := new(big.Int).Mul(big.NewInt(ukexAmt), big.NewInt(1000_000_000_000))
	inner := &ethtypes.LegacyTx{Nonce: acc.GetSequence(), To: &to, Value: val, Gas: 21000, GasPrice: big.NewInt(1)}
	etx, err := ethtypes.SignNewTx(ec, ethtypes.NewEIP155Signer(big.NewInt(ethChainID)), inner)
	if err != nil {
		return
	}
	data, err := rlp.EncodeToBytes(etx)
	if err != nil {
		return
	}
	msg := &tokenstypes.MsgEthereumTx{TxType: "NativeSend", Sender: victim.String(), Hash: etx.Hash().Hex(), Data: data}
	msgs := []sdk.Msg{msg}
	pre := w.snapshot()
	txb := w.c.Enc.TxConfig.NewTxBuilder()
	res := abci.TxResult{}
	if err := txb.SetMsgs(msgs...); err != nil {
		res = abci.TxResult{Code: 1 << 30, Log: "build: " + err.Error()}
	} else {
		txb.SetFeeAmount(abci.DefaultFee())
		txb.SetGasLimit(10_000_000)
		noise := []byte("raw-eth-slot-noise-raw-eth-slot-noise-raw-eth-slot-noise-0123456789")[:65]
		sig := signing.SignatureV2{PubKey: w.c.Accounts[attacker].Priv.PubKey(),
			Data: &signing.SingleSignatureData{SignMode: signing.SignMode_SIGN_MODE_DIRECT, Signature: noise}, Sequence: acc.GetSequence()}
		if err := txb.SetSignatures(sig); err != nil {
			res = abci.TxResult{Code: 1 << 30, Log: "sign: " + err.Error()}
		} else if bz, err := w.c.Enc.TxConfig.TxEncoder()(txb.GetTx()); err != nil {
			res = abci.TxResult{Code: 1 << 30, Log: "encode: " + err.Error()}
		} else {
			res = w.c.DeliverRaw(bz)
		}
	}
	post := w.snapshot()
	ok := res.Code == 0 && res.Panic == ""
	log := res.Log
	if len(log) > 200 {
		log = log[:200]
	}
	w.emit(0, "eth-raw-forged-sender", true, msgs, []int{attacker}, ok, log, pre, post, nil, nil, "")
}
