package main

import (
	"fmt"
	"sort"
	"strings"

	"verif/harness/hx"

	collectivestypes "github.com/KiraCore/sekai/x/collectives/types"
	govtypes "github.com/KiraCore/sekai/x/gov/types"
	l2types "github.com/KiraCore/sekai/x/layer2/types"
	mstypes "github.com/KiraCore/sekai/x/multistaking/types"
	sdk "github.com/cosmos/cosmos-sdk/types"
	banktypes "github.com/cosmos/cosmos-sdk/x/bank/types"
)

// modelInput: for single-message transactions of a modelled kind whose GetSigners are exactly the
// signing accounts, the inputs of the Coq handler model (Model/Debit.v): message operands and the
// slice of the pre-state the handler touches (all balances of the accounts involved, all claims of
// the kind involved).  "@OK@" is replaced by the observed result.
func (w *world) modelInput(op string, msgs []sdk.Msg, signers []int, pre snap) string {
	if len(msgs) != 1 || len(signers) != 1 {
		return ""
	}
	m := msgs[0]
	gs := m.GetSigners()
	if len(gs) != 1 || gs[0].String() != w.astr(signers[0]) {
		return "" // rejected by signature verification: not a handler run
	}
	ctx := w.ctx()
	app := w.c.App
	s := int64(signers[0])
	var handler int
	var addrs, ids, coins, flags []string
	accts := []int64{s, 1002}
	kind := ""
	now := uint64(ctx.BlockTime().Unix())
	switch x := m.(type) {
	case *mstypes.MsgClaimUndelegation:
		handler, kind = 1, "undelegation"
		ids = []string{hx.ZU(x.UndelegationId)}
		u, found := app.MultiStakingKeeper.GetUndelegationById(ctx, x.UndelegationId)
		flags = []string{hx.B(found && now >= u.Expiry)}
		accts = append(accts, 1001)
	case *mstypes.MsgClaimRewards:
		handler, kind = 2, "reward"
		ids = []string{hx.Z(s)}
		accts = append(accts, 1002)
		// the keeper ignores "nothing to claim": modelled only when the sender has a rewards record
		if app.MultiStakingKeeper.GetDelegatorRewards(ctx, gs[0]).IsZero() {
			return ""
		}
	case *govtypes.MsgRequestIdentityRecordsVerify:
		handler, kind = 3, "tip"
		last := uint64(0)
		for _, r := range app.CustomGovKeeper.GetAllIdRecordsVerifyRequests(ctx) {
			if r.Id > last {
				last = r.Id
			}
		}
		// the next request id comes from a counter; the model takes it as an operand
		ids = []string{hx.ZU(app.CustomGovKeeper.GetLastIdRecordVerifyRequestId(ctx) + 1)}
		addrs = []string{hx.Z(w.id(x.Verifier.String()))}
		coins = []string{coinsZ(sdk.Coins{x.Tip})}
		ok := true
		owned := map[uint64]bool{}
		for _, r := range app.CustomGovKeeper.GetIdRecordsByAddress(ctx, x.Address) {
			owned[r.Id] = true
		}
		for _, id := range x.RecordIds {
			ok = ok && owned[id]
		}
		ok = ok && len(x.RecordIds) > 0 && x.Tip.Amount.GTE(sdk.NewInt(int64(app.CustomGovKeeper.GetNetworkProperties(ctx).MinIdentityApprovalTip))) && x.Tip.Denom == "ukex"
		flags = []string{hx.B(ok)}
		accts = append(accts, 1003)
	case *govtypes.MsgCancelIdentityRecordsVerifyRequest:
		handler, kind = 4, "tip"
		ids = []string{hx.ZU(x.VerifyRequestId)}
		accts = append(accts, 1003)
	case *govtypes.MsgHandleIdentityRecordsVerifyRequest:
		handler, kind = 5, "tip"
		ids = []string{hx.ZU(x.VerifyRequestId)}
		accts = append(accts, 1003)
	case *l2types.MsgJoinDappVerifierWithBond:
		handler = 7
		d := app.Layer2Keeper.GetDapp(ctx, x.DappName)
		opr := app.Layer2Keeper.GetDappOperator(ctx, x.DappName, x.Sender)
		flags = []string{hx.B(d.EnableBondVerifiers && !(opr.DappName != "" && opr.Verifier))}
		amt := sdk.NewDecFromInt(d.GetLpTokenSupply()).Mul(app.CustomGovKeeper.GetNetworkProperties(ctx).DappVerifierBond).RoundInt()
		coins = []string{coinsZ(sdk.NewCoins(sdk.NewCoin(d.LpToken(), amt)))}
		addrs = []string{hx.Z(w.id(x.Interx))}
		accts = append(accts, w.id(x.Interx), 1004)
	case *banktypes.MsgSend:
		handler = 8
		addrs = []string{hx.Z(w.id(x.ToAddress))}
		coins = []string{coinsZ(x.Amount)}
		accts = append(accts, w.id(x.ToAddress))
		if s == int64(w.custOwner) { // the custody ante decorator refuses plain sends of a custody account
			return ""
		}
	case *collectivestypes.MsgWithdrawCollective:
		_ = x
		return ""
	default:
		return ""
	}
	// claims of the kind involved (whole pre-state), their owners' balances too
	type ck struct {
		owner, id, payee int64
	}
	group := map[ck]sdk.Coins{}
	for k, v := range pre.claims {
		if k.Kind != kind {
			continue
		}
		g := ck{k.Owner, k.ID, k.Payee}
		group[g] = group[g].Add(sdk.NewCoin(k.Denom, v))
	}
	var gks []ck
	for g := range group {
		gks = append(gks, g)
	}
	sort.Slice(gks, func(i, j int) bool {
		if gks[i].id != gks[j].id {
			return gks[i].id < gks[j].id
		}
		return gks[i].owner < gks[j].owner
	})
	var cls []string
	for _, g := range gks {
		cls = append(cls, fmt.Sprintf("mkClaim %s %s %s %s %s", hx.Str(kind), hx.Z(g.id), hx.Z(g.owner), zopt(g.payee), coinsZ(group[g])))
		accts = append(accts, g.owner)
		if g.payee >= 0 {
			accts = append(accts, g.payee)
		}
	}
	seen := map[int64]bool{}
	var bl []string
	for _, a := range accts {
		if seen[a] {
			continue
		}
		seen[a] = true
		var ds []string
		for d := range pre.bal[a] {
			ds = append(ds, d)
		}
		sort.Strings(ds)
		if len(ds) == 0 {
			bl = append(bl, hx.Tuple(hx.Z(a), hx.Str("ukex"), "0"))
		}
		for _, d := range ds {
			bl = append(bl, hx.Tuple(hx.Z(a), hx.Str(d), hx.ZInt(pre.bal[a][d])))
		}
	}
	msg := fmt.Sprintf("(mkMsg [%s] %s %s %s %s)", hx.Z(s), hx.List(addrs), hx.List(ids), hx.List(coins), hx.List(flags))
	return fmt.Sprintf("(Some (mkModel %d %s %s %s 1000 @OK@))", handler, msg, hx.List(bl), "["+strings.Join(cls, "; ")+"]")
}
