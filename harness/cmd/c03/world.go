package main

import (
	"sort"
	"crypto/sha256"
	"encoding/hex"
	"fmt"
	"strings"

	"verif/harness/abci"
	"verif/harness/hx"

	"github.com/cosmos/cosmos-sdk/crypto/keys/secp256k1"

	collectivestypes "github.com/KiraCore/sekai/x/collectives/types"
	custodytypes "github.com/KiraCore/sekai/x/custody/types"
	govtypes "github.com/KiraCore/sekai/x/gov/types"
	l2types "github.com/KiraCore/sekai/x/layer2/types"
	mstypes "github.com/KiraCore/sekai/x/multistaking/types"
	recoverytypes "github.com/KiraCore/sekai/x/recovery/types"
	spendingtypes "github.com/KiraCore/sekai/x/spending/types"
	sdk "github.com/cosmos/cosmos-sdk/types"
	authtypes "github.com/cosmos/cosmos-sdk/x/auth/types"
	banktypes "github.com/cosmos/cosmos-sdk/x/bank/types"
	minttypes "github.com/cosmos/cosmos-sdk/x/mint/types"
)

const nAcc = 8

// account numbering shared with Model/Debit.v: users 0..nAcc-1, fresh user addresses 100..,
// module accounts 1001.., other escrow accounts (collective addresses) 1500..
var moduleIDs = []struct {
	name string
	id   int64
}{{"multistaking", 1001}, {authtypes.FeeCollectorName, 1002}, {govtypes.ModuleName, 1003}, {l2types.ModuleName, 1004},
	{collectivestypes.ModuleName, 1005}, {spendingtypes.ModuleName, 1006}, {recoverytypes.ModuleName, 1007}, {"basket", 1008},
	{minttypes.ModuleName, 1009}, {"distributor", 1010}}

type world struct {
	c       *abci.Chain
	r       *hx.Rng
	rec     *recorder
	hist    int
	step    int
	seed    uint64
	ids     map[string]int64
	names   map[int64]string
	nextU   int64
	nextE   int64
	nameIDs map[string]int64
	opsLog  []string
	valStr  string
	// custody
	custOwner  int
	custodians []int // ghost record of the custodian list IN FORCE: follows every accepted add / remove / drop
	formerCust []int // accounts that were custodians once and were removed or dropped
	custKeyN   int   // the settings key chain: the next edit presents "k<N>" and installs sha256("k<N+1>")
	custHashes []string
	// recovery
	secretOf map[int]string
	rrDenom  string
	fresh    int
	late     bool
	ethVictim sdk.AccAddress
	ethKey    *secp256k1.PrivKey // Ethereum-style account (address = Ethereum address of the key)
	ethAddr   sdk.AccAddress
	rrTotal, rrHeld sdk.Int
	rrVariant string
	custN, custMode int
	expectOK     string                  // set before a transaction that the ghost record says must be accepted
	tipGhost     map[uint64][2]int       // ghost record of pending verify requests: id -> (requester, verifier)
	ghost        map[string]map[int]bool // ghost record: lower-case hash -> listed custodians whose approval was accepted
	foreignFees  int      // 0: ukex fees only, 1: ukex+ubtc, 2: ukex+ubtc+xeth
	compoundDesc []string // the compound settings of this history (replay data)
}

func newWorld(seed uint64, r *hx.Rng, rec *recorder, hist int) *world {
	w := &world{r: r, rec: rec, hist: hist, seed: seed, ids: map[string]int64{}, names: map[int64]string{}, nextU: 100, nextE: 1500,
		nameIDs: map[string]int64{}, secretOf: map[int]string{}, ghost: map[string]map[int]bool{}, tipGhost: map[uint64][2]int{}}
	w.c = abci.NewChain(abci.Config{Accounts: nAcc, Validators: 2, Seed: seed, Gov: func(g *govtypes.GenesisState) {
		g.NetworkProperties.AutocompoundIntervalNumBlocks = uint64(1 + hist%2) // compounding rounds happen within a history
	}})
	for i, a := range w.c.Accounts {
		w.ids[a.Addr.String()] = int64(i)
		w.names[int64(i)] = fmt.Sprintf("a%d", i)
	}
	for _, m := range moduleIDs {
		w.ids[authtypes.NewModuleAddress(m.name).String()] = m.id
		w.names[m.id] = "module:" + m.name
	}
	w.valStr = w.c.Validators[0].ValAddr.String()
	return w
}

func (w *world) ctx() sdk.Context {
	if w.c.InBlock {
		return w.c.Ctx()
	}
	return w.c.QueryCtx()
}

func (w *world) id(addr string) int64 {
	if v, ok := w.ids[addr]; ok {
		return v
	}
	v := w.nextU
	w.nextU++
	w.ids[addr] = v
	w.names[v] = fmt.Sprintf("user%d", v)
	return v
}
func (w *world) escrow(addr sdk.AccAddress, label string) {
	if _, ok := w.ids[addr.String()]; ok {
		return
	}
	w.ids[addr.String()] = w.nextE
	w.names[w.nextE] = "escrow:" + label
	w.nextE++
}
func (w *world) name(id int64) string {
	if n, ok := w.names[id]; ok {
		return n
	}
	return fmt.Sprintf("acct%d", id)
}
func (w *world) nameID(n string) int64 {
	if v, ok := w.nameIDs[n]; ok {
		return v
	}
	v := int64(len(w.nameIDs) + 1)
	w.nameIDs[n] = v
	return v
}

// rename replaces bech32 addresses by their short names in replay data
func (w *world) rename(s string) string {
	for a, id := range w.ids {
		if strings.Contains(s, a) {
			s = strings.ReplaceAll(s, a, w.name(id))
		}
	}
	return s
}

func (w *world) addr(i int) sdk.AccAddress { return w.c.Accounts[i].Addr }
func (w *world) astr(i int) string         { return w.c.Accounts[i].Addr.String() }
func ukex(v int64) sdk.Coin                 { return sdk.NewInt64Coin("ukex", v) }

func (w *world) freshAddr() sdk.AccAddress {
	w.fresh++
	b := make([]byte, 20)
	copy(b, []byte(fmt.Sprintf("fresh-%d-%d", w.hist, w.fresh)))
	return sdk.AccAddress(b)
}

// other: a random account different from i
func (w *world) other(i int) int {
	j := w.r.Intn(nAcc - 1)
	if j >= i {
		j++
	}
	return j
}

// ---------------------------------------------------------------- history

func (w *world) history(only string) {
	w.begin(5)
	w.setupStaking()
	w.setupIdentity()
	w.setupLayer2()
	w.setupCustody()
	w.setupRecovery()
	w.setupSpending()
	w.setupCollective()
	w.ethVictim = w.freshAddr()
	w.id(w.ethVictim.String())
	w.setupEthAccount()
	w.must("fund-eth-victim", []sdk.Msg{banktypes.NewMsgSend(w.addr(0), w.ethVictim, sdk.NewCoins(ukex(5_000_000_000)))}, []int{0})
	w.end()
	// second block: time passes so that undelegations mature
	w.begin(2629800 + 100)
	w.ops(14, only)
	w.end()
	w.begin(5)
	w.tipScenario()
	w.ops(10, only)
	w.end()
	for i := 0; i < 3; i++ { // short blocks: several reward / compounding rounds
		w.begin(5)
		w.ops(4, only)
		if i == w.hist%3 { // genesis export / permuted import with pending claims of every exported kind, then new ids are drawn
			w.genesisRoundTrip()
			for _, d := range []int{1 + w.r.Intn(3), 1 + w.r.Intn(3)} {
				w.tx("undelegate", false, []sdk.Msg{mstypes.NewMsgUndelegate(w.astr(d), w.valStr, sdk.NewCoins(ukex(100+int64(w.r.Intn(2000)))))}, []int{d})
			}
			w.requestVerify([]int{0, 3}[w.r.Intn(2)], 1+w.r.Intn(2))
		}
		w.end()
	}
	w.begin(700)
	w.late = true
	w.ops(10, only)
	w.custodyBoundary()
	w.custodyMembership()
	w.rrBoundaryAttempt()
	w.end()
}

// must: a setup transaction that is expected to succeed (still monitored)
func (w *world) must(op string, msgs []sdk.Msg, signers []int) {
	r := w.tx(op, false, msgs, signers)
	if r.Code != 0 || r.Panic != "" {
		w.rec.panics = append(w.rec.panics, fmt.Sprintf("setup %s failed: %s %s", op, r.Log, r.Panic))
	}
}

func (w *world) setupStaking() {
	w.must("upsert-staking-pool", []sdk.Msg{mstypes.NewMsgUpsertStakingPool(w.astr(0), w.valStr, true, sdk.NewDecWithPrec(10, 2))}, []int{0})
	for _, d := range []int{1, 2, 3, 4} {
		amt := sdk.NewCoins(ukex(500_000_000_000 + int64(w.r.Intn(1000))))
		if d == 2 {
			amt = amt.Add(sdk.NewInt64Coin("ubtc", 70_000+int64(w.r.Intn(1000))))
		}
		w.must("delegate", []sdk.Msg{mstypes.NewMsgDelegate(w.astr(d), w.valStr, amt)}, []int{d})
	}
	for _, d := range []int{1, 2, 3, 4} {
		w.must("undelegate", []sdk.Msg{mstypes.NewMsgUndelegate(w.astr(d), w.valStr, sdk.NewCoins(ukex(1_000+int64(w.r.Intn(5000)))))}, []int{d})
	}
	w.setupCompound()
	// unclaimed rewards: recorded through the keeper, funded into the fee collector
	ctx := w.ctx()
	for _, d := range []int{0, 1, 2, 4} {
		rw := sdk.NewCoins(ukex(4000 + int64(w.r.Intn(1000))))
		// rewards already on record in the other fee denoms (the same denoms the fees of this
		// history are paid in), so that a compounding round meets non-compoundable leftovers
		if w.foreignFees >= 1 {
			rw = rw.Add(sdk.NewInt64Coin("ubtc", 20+int64(w.r.Intn(50))))
		}
		if w.foreignFees >= 2 {
			rw = rw.Add(sdk.NewInt64Coin("xeth", 30+int64(w.r.Intn(50))))
		}
		if err := w.c.App.BankKeeper.MintCoins(ctx, minttypes.ModuleName, rw); err != nil {
			panic(err)
		}
		if err := w.c.App.BankKeeper.SendCoinsFromModuleToModule(ctx, minttypes.ModuleName, authtypes.FeeCollectorName, rw); err != nil {
			panic(err)
		}
		w.c.App.MultiStakingKeeper.IncreaseDelegatorRewards(ctx, w.addr(d), rw)
	}
}

// setupCompound: every operation that rewrites the rewards record outside the owner's own
// transactions is driven: auto-compounding with AllDenom true/false and 1..3 opted-in denoms,
// rewards in several denoms (fees paid in ubtc / xeth), some of them not compoundable (xeth is not
// stake-enabled; ubtc below a raised StakeMin).
func (w *world) setupCompound() {
	type ci struct {
		acc    int
		all    bool
		denoms []string
	}
	variants := []struct {
		infos      []ci
		fees       int
		raiseUbtc  bool
	}{
		{[]ci{{1, true, nil}, {2, false, []string{"ukex"}}}, 1, false},
		{[]ci{{1, false, []string{"ukex", "xeth"}}, {2, false, []string{"ukex", "ubtc", "xeth"}}}, 2, false},
		{[]ci{{1, false, []string{"ukex", "ubtc"}}, {2, false, []string{"ubtc", "ukex", "xeth"}}}, 2, true},
		{[]ci{{1, false, []string{"xeth"}}, {2, false, []string{"ubtc"}}, {3, false, []string{"ukex", "xeth"}}}, 2, false},
		{[]ci{{1, true, nil}, {2, true, nil}}, 0, false},
		{[]ci{{1, false, []string{"ukex", "xeth"}}, {3, false, []string{"ukex", "ubtc"}}}, 2, true},
	}
	v := variants[w.hist%len(variants)]
	w.foreignFees = v.fees
	for _, c := range v.infos {
		w.must("register-delegator", []sdk.Msg{mstypes.NewMsgRegisterDelegator(w.astr(c.acc))}, []int{c.acc})
		w.must("set-compound-info", []sdk.Msg{mstypes.NewMsgSetCompoundInfo(w.astr(c.acc), c.all, c.denoms)}, []int{c.acc})
		w.compoundDesc = append(w.compoundDesc, fmt.Sprintf("compound info of a%d: all_denom=%v denoms=%v", c.acc, c.all, c.denoms))
	}
	if v.raiseUbtc {
		ctx := w.ctx()
		ti := w.c.App.TokensKeeper.GetTokenInfo(ctx, "ubtc")
		if ti != nil {
			ti.StakeMin = sdk.NewInt(1_000_000_000)
			if err := w.c.App.TokensKeeper.UpsertTokenInfo(ctx, *ti); err != nil {
				panic(err)
			}
			w.compoundDesc = append(w.compoundDesc, "ubtc StakeMin raised to 1000000000 (through the tokens keeper)")
		}
	}
	w.compoundDesc = append(w.compoundDesc, fmt.Sprintf("fee denoms in use: %d foreign; autocompound interval %d blocks", v.fees, 1+w.hist%2))
}

var identityOwners = []int{0, 1, 2, 3, 4}

func (w *world) registerIdentity(a int, value string, key string) abci.TxResult {
	r := w.tx("register-identity", false, []sdk.Msg{govtypes.NewMsgRegisterIdentityRecords(w.addr(a), []govtypes.IdentityInfoEntry{{Key: key, Info: value}})}, []int{a})
	if r.Code == 0 { // any accepted edit may cancel the owner's requests: they leave the ghost record
		for id, rv := range w.tipGhost {
			if rv[0] == a {
				delete(w.tipGhost, id)
			}
		}
	}
	return r
}

func (w *world) setupIdentity() {
	for _, a := range identityOwners {
		w.must("register-identity", []sdk.Msg{govtypes.NewMsgRegisterIdentityRecords(w.addr(a), []govtypes.IdentityInfoEntry{
			{Key: "moniker", Info: fmt.Sprintf("mon%d", a)}, {Key: "site", Info: fmt.Sprintf("s%d.example", a)}})}, []int{a})
	}
	// several requesters' tips sit in the escrow at once
	w.requestVerify(3, 4)
	w.requestVerify(4, 5)
	w.requestVerify(1, 2)
	w.requestVerify(0, 6)
}

func (w *world) requestVerify(req, ver int) {
	recs := w.c.App.CustomGovKeeper.GetIdRecordsByAddress(w.ctx(), w.addr(req))
	if len(recs) == 0 {
		return
	}
	r := w.tx("request-identity-verify", false, []sdk.Msg{govtypes.NewMsgRequestIdentityRecordsVerify(w.addr(req), w.addr(ver), []uint64{recs[0].Id}, ukex(300+int64(w.r.Intn(500))))}, []int{req})
	if r.Code == 0 {
		w.tipGhost[w.c.App.CustomGovKeeper.GetLastIdRecordVerifyRequestId(w.ctx())] = [2]int{req, ver}
	}
}

// handleVerify / cancelVerify: settlement messages; an accepted one by the rightful party closes
// the ghost entry, and a rightful settlement of an entry still pending in the ghost record and in
// the store is expected to be accepted
func (w *world) handleVerify(op string, attack bool, s int, id uint64, yes bool) {
	if rv, ok := w.tipGhost[id]; ok && rv[1] == s && w.c.App.CustomGovKeeper.GetIdRecordsVerifyRequest(w.ctx(), id) != nil {
		w.expectOK = "tip"
	}
	r := w.tx(op, attack, []sdk.Msg{govtypes.NewMsgHandleIdentityRecordsVerifyRequest(w.addr(s), id, yes)}, []int{s})
	if rv, ok := w.tipGhost[id]; ok && r.Code == 0 && rv[1] == s {
		delete(w.tipGhost, id)
	}
}
func (w *world) cancelVerify(op string, attack bool, s int, id uint64) {
	if rv, ok := w.tipGhost[id]; ok && rv[0] == s && w.c.App.CustomGovKeeper.GetIdRecordsVerifyRequest(w.ctx(), id) != nil {
		w.expectOK = "tip"
	}
	r := w.tx(op, attack, []sdk.Msg{govtypes.NewMsgCancelIdentityRecordsVerifyRequest(w.addr(s), id)}, []int{s})
	if rv, ok := w.tipGhost[id]; ok && r.Code == 0 && rv[0] == s {
		delete(w.tipGhost, id)
	}
}

func (w *world) ghostRotation(m sdk.Msg) {
	old := ""
	switch x := m.(type) {
	case *recoverytypes.MsgRotateRecoveryAddress:
		old = x.Address
	case *recoverytypes.MsgRotateValidatorByHalfRRTokenHolder:
		old = x.Address
	}
	if old == "" {
		return
	}
	for id, rv := range w.tipGhost {
		if w.astr(rv[0]) == old || w.astr(rv[1]) == old {
			delete(w.tipGhost, id)
		}
	}
}

// tipScenario: between the creation and the settlement of a request the requester operates on
// the underlying record (same value / new value / other key / delete), every settlement is
// repeated (handle twice, cancel after handle), and a bystander with a pending tip of his own
// finally settles it -- which must succeed
func (w *world) tipScenario() {
	ctx := w.ctx()
	var mine []govtypes.IdentityRecordsVerify
	for _, r := range w.c.App.CustomGovKeeper.GetAllIdRecordsVerifyRequests(ctx) {
		if w.id(r.Address) < nAcc && w.id(r.Verifier) < nAcc {
			mine = append(mine, r)
		}
	}
	if len(mine) < 2 {
		return
	}
	r := mine[w.hist%len(mine)]
	req, ver := int(w.id(r.Address)), int(w.id(r.Verifier))
	switch (w.hist / 2) % 4 {
	case 0:
		w.registerIdentity(req, fmt.Sprintf("mon%d", req), "moniker") // same value: the date moves, the request stays
	case 1:
		w.registerIdentity(req, fmt.Sprintf("s%d.example", req), "site") // same value of the other key
	case 2:
		w.registerIdentity(req, fmt.Sprintf("n%d.example", req), "site") // new value of the other key
	case 3: // nothing in between
	}
	w.handleVerify("identity-handle", false, ver, r.Id, w.r.Bool())
	w.handleVerify("identity-handle-repeat", true, ver, r.Id, true)
	w.handleVerify("identity-handle-repeat", true, ver, r.Id, false)
	w.cancelVerify("identity-cancel-after-handle", true, req, r.Id)
	// bystanders settle their own pending entries
	for id, rv := range w.tipGhost {
		_ = id
		_ = rv
	}
	var ids []uint64
	for id := range w.tipGhost {
		ids = append(ids, id)
	}
	sort.Slice(ids, func(i, j int) bool { return ids[i] < ids[j] })
	n := 0
	for _, id := range ids {
		rv := w.tipGhost[id]
		if id == r.Id || n >= 2 {
			continue
		}
		n++
		if n == 1 {
			w.cancelVerify("identity-cancel", false, rv[0], id)
		} else {
			w.handleVerify("identity-handle", false, rv[1], id, true)
		}
	}
}

func (w *world) setupLayer2() {
	mk := func(name, denom string) l2types.Dapp {
		return l2types.Dapp{Name: name, Denom: denom, Description: "d", Status: l2types.Bootstrap,
			Controllers: l2types.Controllers{Whitelist: l2types.AccountRange{Addresses: []string{w.astr(0)}}},
			Bin:         []l2types.BinaryInfo{{Name: "b", Hash: "h", Source: "s", Reference: "r", Type: "t"}},
			Pool:        l2types.LpPoolConfig{Ratio: sdk.OneDec(), Drip: 86400},
			Issuance:    l2types.IssuanceConfig{Premint: sdk.NewInt(1000), Postmint: sdk.NewInt(1000), Time: 10},
			VoteQuorum:  sdk.NewDecWithPrec(3, 1), PoolFee: sdk.NewDecWithPrec(1, 2), TeamReserve: w.astr(0), TotalBond: ukex(0),
			UpdateTimeMax: 60, ExecutorsMin: 1, ExecutorsMax: 2, VerifiersMin: 1, VotePeriod: 60, VoteEnactment: 30}
	}
	w.nameID("dappa")
	w.nameID("dappb")
	w.must("create-dapp", []sdk.Msg{&l2types.MsgCreateDappProposal{Sender: w.astr(1), Dapp: mk("dappa", "da"), Bond: ukex(20_000_000_000)}}, []int{1})
	w.must("bond-dapp", []sdk.Msg{&l2types.MsgBondDappProposal{Sender: w.astr(2), DappName: "dappa", Bond: ukex(5_000_000_000 + int64(w.r.Intn(1000)))}}, []int{2})
	w.must("bond-dapp", []sdk.Msg{&l2types.MsgBondDappProposal{Sender: w.astr(4), DappName: "dappa", Bond: ukex(3_000_000_000 + int64(w.r.Intn(1000)))}}, []int{4})
	// an active dapp that accepts bonded verifiers; accounts 3 and 6 hold its LP token
	ctx := w.ctx()
	d := mk("dappb", "db")
	d.Status = l2types.Active
	d.EnableBondVerifiers = true
	d.TotalBond = ukex(1_000_000_000)
	w.c.App.Layer2Keeper.SetDapp(ctx, d)
	lp := sdk.NewCoins(sdk.NewInt64Coin("lp/db", 900_000_000))
	if err := w.c.App.BankKeeper.MintCoins(ctx, l2types.ModuleName, lp.Add(lp...).Add(sdk.NewInt64Coin("lp/db", 1_000_000))); err != nil { // the module keeps the pre/post-mint amounts
		panic(err)
	}
	for _, a := range []int{3, 6} {
		if err := w.c.App.BankKeeper.SendCoinsFromModuleToAccount(ctx, l2types.ModuleName, w.addr(a), lp); err != nil {
			panic(err)
		}
	}
}

// custody thresholds sit on both sides of k/n for every k: (custodians, required percentage)
var custodySweep = [][2]int{{2, 100}, {2, 50}, {2, 51}, {3, 67}, {3, 66}, {3, 34}, {3, 33}, {3, 100}, {2, 49}, {3, 1}}

func (w *world) setupCustody() {
	w.custOwner = 5
	cfg := custodySweep[w.hist%len(custodySweep)]
	w.custN, w.custMode = cfg[0], cfg[1]
	w.custodians = []int{6, 7, 0}[:w.custN]
	key := "k0"
	kh := sha256.Sum256([]byte("k1"))
	w.must("custody-create", []sdk.Msg{custodytypes.NewMsgCreateCustody(w.addr(5), custodytypes.CustodySettings{CustodyEnabled: true, CustodyMode: uint64(w.custMode), UsePassword: false},
		key, hex.EncodeToString(kh[:]), "", "")}, []int{5})
	kh2 := sha256.Sum256([]byte("k2"))
	var cs []sdk.AccAddress
	for _, c := range w.custodians {
		cs = append(cs, w.addr(c))
	}
	w.must("custody-add-custodians", []sdk.Msg{custodytypes.NewMsgAddToCustodyCustodians(w.addr(5), cs, "k1", hex.EncodeToString(kh2[:]), "", "")}, []int{5})
	w.custKeyN = 2
	w.custodySend()
}

// custodyEdit: the owner edits the custodian list (kind: 0 remove one, 1 add one, 2 drop all); the
// ghost list follows the edit only when the transaction is accepted
func (w *world) custodyEdit(kind int, who int) bool {
	old := fmt.Sprintf("k%d", w.custKeyN)
	nh := sha256.Sum256([]byte(fmt.Sprintf("k%d", w.custKeyN+1)))
	nk := hex.EncodeToString(nh[:])
	var msg sdk.Msg
	op := ""
	switch kind {
	case 0:
		msg, op = custodytypes.NewMsgRemoveFromCustodyCustodians(w.addr(w.custOwner), w.addr(who), old, nk, "", ""), "custody-remove-custodian"
	case 1:
		msg, op = custodytypes.NewMsgAddToCustodyCustodians(w.addr(w.custOwner), []sdk.AccAddress{w.addr(who)}, old, nk, "", ""), "custody-add-custodian"
	default:
		msg, op = custodytypes.NewMsgDropCustodyCustodians(w.addr(w.custOwner), old, nk, "", ""), "custody-drop-custodians"
	}
	r := w.tx(op, false, []sdk.Msg{msg}, []int{w.custOwner})
	if r.Code != 0 || r.Panic != "" {
		return false
	}
	w.custKeyN++
	in := func(l []int, x int) bool {
		for _, y := range l {
			if y == x {
				return true
			}
		}
		return false
	}
	switch kind {
	case 0:
		var nl []int
		for _, c := range w.custodians {
			if c != who {
				nl = append(nl, c)
			}
		}
		w.custodians = nl
		if !in(w.formerCust, who) {
			w.formerCust = append(w.formerCust, who)
		}
	case 1:
		if !in(w.custodians, who) {
			w.custodians = append(w.custodians, who)
		}
		var nf []int
		for _, c := range w.formerCust {
			if c != who {
				nf = append(nf, c)
			}
		}
		w.formerCust = nf
	default:
		for _, c := range w.custodians {
			if !in(w.formerCust, c) {
				w.formerCust = append(w.formerCust, c)
			}
		}
		w.custodians = nil
	}
	return true
}

// custodyMembership: a transfer is requested; a listed custodian is removed and then acts
// (approve, decline); a custodian is added AFTER the request and acts; the threshold is judged
// against the list in force
func (w *world) custodyMembership() {
	w.custodySend()
	if len(w.custHashes) == 0 || len(w.custodians) == 0 {
		return
	}
	h := w.custHashes[0]
	removed := w.custodians[w.r.Intn(len(w.custodians))]
	if w.hist%3 == 2 {
		w.custodyEdit(2, 0)
	} else {
		w.custodyEdit(0, removed)
	}
	if len(w.custHashes) > 0 {
		if w.r.Bool() {
			w.tx("custody-decline-by-former", true, []sdk.Msg{custodytypes.NewMsgDeclineCustodyTransaction(w.addr(removed), w.addr(w.custOwner), w.spell(h))}, []int{removed})
		}
		w.approve("custody-approve-by-former", true, removed, w.spell(h))
	}
	for _, cand := range []int{1, 2, 3} {
		isIn := false
		for _, c := range w.custodians {
			isIn = isIn || c == cand
		}
		if !isIn && cand != removed {
			w.custodyEdit(1, cand)
			if len(w.custHashes) > 0 {
				w.approve("custody-approve-by-late-member", false, cand, w.spell(h))
			}
			break
		}
	}
}

// custodyBoundary: a fresh request approved by the listed custodians one after the other, so that
// the release is observed exactly at (and not before) the configured share
func (w *world) custodyBoundary() {
	w.custodySend()
	for _, c := range w.custodians {
		if len(w.custHashes) == 0 {
			return
		}
		h := w.custHashes[0]
		w.approve("custody-approve", false, c, w.spell(h))
		if len(w.custHashes) == 0 {
			return
		}
		w.approve("custody-approve-repeat", true, c, strings.ToUpper(h))
	}
}

// custodySend: the custody owner requests a transfer (pooled until approved)
func (w *world) custodySend() {
	to := 1 + w.r.Intn(3)
	msg := custodytypes.NewMsgSend(w.addr(w.custOwner), w.addr(to), sdk.NewCoins(ukex(1_000_000+int64(w.r.Intn(1000)))), "", sdk.NewCoins(ukex(2400+int64(w.r.Intn(100)))))
	pre := w.snapshot()
	bz, err := w.c.BuildTx([]sdk.Msg{msg}, []int{w.custOwner}, abci.DefaultFee())
	if err != nil {
		return
	}
	res := w.c.DeliverRaw(bz)
	post := w.snapshot()
	ok := res.Code == 0 && res.Panic == ""
	w.emit(0, "custody-send", false, []sdk.Msg{msg}, []int{w.custOwner}, ok, res.Log, pre, post, nil, nil, "")
	if ok {
		h := sha256.Sum256(bz)
		w.custHashes = []string{hex.EncodeToString(h[:])} // the pool keeps only the latest request
		w.refreshCustody()                                 // (executed at once when no custodian is listed)
	}
}

func (w *world) setupRecovery() {
	secret := "aa11"
	bz, _ := hex.DecodeString(secret)
	h := sha256.Sum256(bz)
	w.secretOf[4] = secret
	w.must("register-recovery-secret", []sdk.Msg{recoverytypes.NewMsgRegisterRecoverySecret(w.astr(4), hex.EncodeToString(h[:]), "00", "")}, []int{4})
	// validator a0 issues recovery tokens; the supply is made even or odd with the real burn
	// message and account a7 is handed a holding on either side of half of it
	w.must("issue-recovery-tokens", []sdk.Msg{recoverytypes.NewMsgIssueRecoveryTokens(w.astr(0))}, []int{0})
	w.rrDenom = "rr/mon0"
	issued := sdk.NewInt(10_000_000).Mul(sdk.NewInt(1000_000))
	type rv struct {
		name string
		burn sdk.Int
		held func(t sdk.Int) sdk.Int
	}
	two := sdk.NewInt(2)
	floor := func(t sdk.Int) sdk.Int { return t.Quo(two) }
	ceil := func(t sdk.Int) sdk.Int { return t.Add(sdk.OneInt()).Quo(two) }
	vs := []rv{
		{"even:half-1", sdk.NewInt(2), func(t sdk.Int) sdk.Int { return floor(t).SubRaw(1) }},
		{"even:half", sdk.NewInt(2), floor},
		{"even:half+1", sdk.ZeroInt(), func(t sdk.Int) sdk.Int { return ceil(t).AddRaw(1) }},
		{"odd:floor-1", sdk.NewInt(3), func(t sdk.Int) sdk.Int { return floor(t).SubRaw(1) }},
		{"odd:floor", sdk.NewInt(3), floor},
		{"odd:ceil", sdk.NewInt(3), ceil},
		{"odd:ceil+1", sdk.NewInt(1), func(t sdk.Int) sdk.Int { return ceil(t).AddRaw(1) }},
		{"one:holder-0", issued.SubRaw(1), func(t sdk.Int) sdk.Int { return sdk.ZeroInt() }},
		{"one:holder-1", issued.SubRaw(1), func(t sdk.Int) sdk.Int { return sdk.OneInt() }},
		{"three:holder-1", issued.SubRaw(3), func(t sdk.Int) sdk.Int { return sdk.OneInt() }},
		{"odd:floor", sdk.NewInt(12345), floor},
		{"40-percent", sdk.ZeroInt(), func(t sdk.Int) sdk.Int { return t.MulRaw(4).QuoRaw(10) }},
	}
	v := vs[w.hist%len(vs)]
	w.rrVariant = v.name
	if v.burn.IsPositive() {
		w.must("burn-rr", []sdk.Msg{recoverytypes.NewMsgBurnRecoveryTokens(w.addr(0), sdk.NewCoin(w.rrDenom, v.burn))}, []int{0})
	}
	w.rrTotal = issued.Sub(v.burn)
	w.rrHeld = v.held(w.rrTotal)
	if w.rrHeld.IsPositive() {
		w.must("send-rr", []sdk.Msg{banktypes.NewMsgSend(w.addr(0), w.addr(7), sdk.NewCoins(sdk.NewCoin(w.rrDenom, w.rrHeld)))}, []int{0})
	}
}

// rrBoundaryAttempt: at the very end of the history account a7 (holding exactly the swept amount)
// tries to rotate validator a0, whose unclaimed rewards are topped up so that the move is visible
func (w *world) rrBoundaryAttempt() {
	ctx := w.ctx()
	rw := sdk.NewCoins(ukex(3000 + int64(w.r.Intn(1000))))
	if err := w.c.App.BankKeeper.MintCoins(ctx, minttypes.ModuleName, rw); err == nil {
		if err := w.c.App.BankKeeper.SendCoinsFromModuleToModule(ctx, minttypes.ModuleName, authtypes.FeeCollectorName, rw); err == nil {
			w.c.App.MultiStakingKeeper.IncreaseDelegatorRewards(ctx, w.addr(0), rw)
		}
	}
	na := w.freshAddr()
	w.tx("recovery-rotate-validator-boundary:"+w.rrVariant, true, []sdk.Msg{recoverytypes.NewMsgRotateValidatorByHalfRRTokenHolder(w.astr(7), w.astr(0), na.String())}, []int{7})
}

func (w *world) setupCollective() {
	bonds := sdk.NewCoins(sdk.NewInt64Coin("v1/ukex", 200_000_000_000))
	msg := collectivestypes.NewMsgCreateCollective(w.addr(1), "col1", "c", bonds,
		collectivestypes.DepositWhitelist{Any: true}, collectivestypes.OwnersWhitelist{Accounts: []string{w.astr(1)}},
		[]collectivestypes.WeightedSpendingPool{{Name: "pool1", Weight: sdk.OneDec()}}, uint64(w.c.Time.Unix()), 86400*30, 0, sdk.NewDecWithPrec(30, 2), 600, 300)
	col := collectivestypes.Collective{Name: "col1"}
	w.escrow(col.GetCollectiveAddress(), "col1")
	w.escrow(col.GetCollectiveDonationAddress(), "col1-donation")
	w.nameID("col1")
	w.must("create-collective", []sdk.Msg{msg}, []int{1})
	w.must("contribute-collective", []sdk.Msg{collectivestypes.NewMsgBondCollective(w.addr(2), "col1", sdk.NewCoins(sdk.NewInt64Coin("v1/ukex", 50_000_000_000)))}, []int{2})
	w.must("contribute-collective", []sdk.Msg{collectivestypes.NewMsgBondCollective(w.addr(4), "col1", sdk.NewCoins(sdk.NewInt64Coin("v1/ukex", 30_000_000_000)))}, []int{4})
}

func (w *world) setupSpending() {
	msg := spendingtypes.NewMsgCreateSpendingPool("pool1", uint64(w.c.Time.Unix()), 0, sdk.NewDecCoins(sdk.NewDecCoinFromDec("ukex", sdk.NewDecWithPrec(1, 1))),
		sdk.NewDecWithPrec(30, 2), 600, 300, spendingtypes.PermInfo{OwnerAccounts: []string{w.astr(0)}},
		spendingtypes.WeightedPermInfo{Accounts: []spendingtypes.WeightedAccount{{Account: w.astr(1), Weight: sdk.OneDec()}, {Account: w.astr(2), Weight: sdk.OneDec()},
			{Account: w.astr(4), Weight: sdk.OneDec()}, {Account: w.astr(0), Weight: sdk.OneDec()}}}, w.addr(0), false, 0)
	msg.ClaimExpiry = 100000
	w.must("create-spending-pool", []sdk.Msg{msg}, []int{0})
	w.must("deposit-spending-pool", []sdk.Msg{spendingtypes.NewMsgDepositSpendingPool("pool1", sdk.NewCoins(ukex(50_000_000)), w.addr(0))}, []int{0})
	w.tx("register-spending-beneficiary", false, []sdk.Msg{spendingtypes.NewMsgRegisterSpendingPoolBeneficiary("pool1", w.addr(1))}, []int{1})
	for _, b := range []int{2, 4, 0} {
		w.tx("register-spending-beneficiary", false, []sdk.Msg{spendingtypes.NewMsgRegisterSpendingPoolBeneficiary("pool1", w.addr(b))}, []int{b})
	}
}

// ---------------------------------------------------------------- operations

type opFn func(w *world)

func (w *world) ops(n int, only string) {
	table := w.opTable()
	var names []string
	for k := range table {
		names = append(names, k)
	}
	sortStrings(names)
	for i := 0; i < n; i++ {
		name := names[w.r.Intn(len(names))]
		if only != "" && !strings.Contains(name, only) {
			continue
		}
		table[name](w)
	}
}

func sortStrings(a []string) {
	for i := 1; i < len(a); i++ {
		for j := i; j > 0 && a[j] < a[j-1]; j-- {
			a[j], a[j-1] = a[j-1], a[j]
		}
	}
}

func (w *world) opTable() map[string]opFn {
	app := w.c.App
	return map[string]opFn{
		"h:genesis-round-trip": func(w *world) {
			if w.r.Chance(35) {
				w.genesisRoundTrip()
			}
		},
		"h:bank-send": func(w *world) {
			s := w.r.Intn(nAcc)
			w.tx("bank-send", false, []sdk.Msg{banktypes.NewMsgSend(w.addr(s), w.addr(w.other(s)), sdk.NewCoins(ukex(1+int64(w.r.Intn(100000)))))}, []int{s})
		},
		"x:bank-send-from-other": func(w *world) { // the signer names somebody else as the sender
			s := w.r.Intn(nAcc)
			v := w.other(s)
			if w.r.Bool() {
				w.tx("bank-send-from-other", true, []sdk.Msg{banktypes.NewMsgSend(w.addr(v), w.addr(s), sdk.NewCoins(ukex(1000)))}, []int{s})
			} else {
				w.txForged("bank-send-from-other-forged", []sdk.Msg{banktypes.NewMsgSend(w.addr(v), w.addr(s), sdk.NewCoins(ukex(1000)))}, s, v)
			}
		},
		"h:claim-undelegation": func(w *world) {
			us := app.MultiStakingKeeper.GetAllUndelegations(w.ctx())
			if len(us) == 0 {
				return
			}
			u := us[w.r.Intn(len(us))]
			o := int(w.id(u.Address))
			if o >= nAcc {
				return
			}
			w.tx("claim-undelegation", false, []sdk.Msg{mstypes.NewMsgClaimUndelegation(u.Address, u.Id)}, []int{o})
		},
		"x:claim-undelegation-of-other": func(w *world) {
			us := app.MultiStakingKeeper.GetAllUndelegations(w.ctx())
			if len(us) == 0 {
				return
			}
			u := us[w.r.Intn(len(us))]
			o := int(w.id(u.Address))
			s := w.r.Intn(nAcc)
			if s == o {
				s = w.other(s)
			}
			w.tx("claim-undelegation-of-other", true, []sdk.Msg{mstypes.NewMsgClaimUndelegation(w.astr(s), u.Id)}, []int{s})
		},
		"h:claim-matured": func(w *world) {
			s := 1 + w.r.Intn(3)
			w.tx("claim-matured-undelegations", false, []sdk.Msg{mstypes.NewMsgClaimMaturedUndelegations(w.astr(s))}, []int{s})
		},
		"h:claim-rewards": func(w *world) {
			s := w.r.Intn(nAcc)
			w.tx("claim-rewards", false, []sdk.Msg{mstypes.NewMsgClaimRewards(w.astr(s))}, []int{s})
		},
		"h:delegate": func(w *world) {
			s := 1 + w.r.Intn(4)
			w.tx("delegate", false, []sdk.Msg{mstypes.NewMsgDelegate(w.astr(s), w.valStr, sdk.NewCoins(ukex(1000+int64(w.r.Intn(100000)))))}, []int{s})
		},
		"h:undelegate": func(w *world) {
			s := 1 + w.r.Intn(3)
			w.tx("undelegate", false, []sdk.Msg{mstypes.NewMsgUndelegate(w.astr(s), w.valStr, sdk.NewCoins(ukex(100+int64(w.r.Intn(2000)))))}, []int{s})
		},
		"x:undelegate-as-other": func(w *world) { // the signer names another delegator
			s := w.r.Intn(nAcc)
			v := 1 + w.r.Intn(3)
			if v == s {
				return
			}
			w.txForged("undelegate-as-other-forged", []sdk.Msg{mstypes.NewMsgUndelegate(w.astr(v), w.valStr, sdk.NewCoins(ukex(500)))}, s, v)
		},
		"h:register-delegator": func(w *world) {
			s := w.r.Intn(nAcc)
			w.tx("register-delegator", false, []sdk.Msg{mstypes.NewMsgRegisterDelegator(w.astr(s))}, []int{s})
		},
		"h:identity-request": func(w *world) {
			s := identityOwners[w.r.Intn(len(identityOwners))]
			w.requestVerify(s, w.other(s))
		},
		"h:identity-handle": func(w *world) {
			rs := app.CustomGovKeeper.GetAllIdRecordsVerifyRequests(w.ctx())
			if len(rs) == 0 {
				return
			}
			r := rs[w.r.Intn(len(rs))]
			v := int(w.id(r.Verifier))
			if v >= nAcc {
				return
			}
			w.handleVerify("identity-handle", false, v, r.Id, w.r.Bool())
			if w.r.Chance(40) { // every settlement is also repeated
				w.handleVerify("identity-handle-repeat", true, v, r.Id, w.r.Bool())
			}
			if w.r.Chance(30) && int(w.id(r.Address)) < nAcc {
				w.cancelVerify("identity-cancel-after-handle", true, int(w.id(r.Address)), r.Id)
			}
		},
		"h:identity-reregister": func(w *world) { // the requester edits the underlying records between creation and settlement
			a := identityOwners[w.r.Intn(len(identityOwners))]
			switch w.r.Intn(4) {
			case 0:
				w.registerIdentity(a, fmt.Sprintf("mon%d", a), "moniker")
			case 1:
				w.registerIdentity(a, fmt.Sprintf("s%d.example", a), "site")
			case 2:
				w.registerIdentity(a, fmt.Sprintf("n%d-%d.example", a, w.r.Intn(3)), "site")
			default:
				r := w.tx("delete-identity", false, []sdk.Msg{govtypes.NewMsgDeleteIdentityRecords(w.addr(a), []string{"site"})}, []int{a})
				if r.Code == 0 {
					for id, rv := range w.tipGhost {
						if rv[0] == a {
							delete(w.tipGhost, id)
						}
					}
				}
			}
		},
		"x:settle-twice": func(w *world) { // claim / withdraw the same entry twice in a row
			switch w.r.Intn(4) {
			case 0:
				us := app.MultiStakingKeeper.GetAllUndelegations(w.ctx())
				if len(us) == 0 {
					return
				}
				u := us[w.r.Intn(len(us))]
				o := int(w.id(u.Address))
				if o >= nAcc {
					return
				}
				for i := 0; i < 2; i++ {
					w.tx("claim-undelegation-twice", i > 0, []sdk.Msg{mstypes.NewMsgClaimUndelegation(u.Address, u.Id)}, []int{o})
				}
			case 1:
				s := w.r.Intn(nAcc)
				for i := 0; i < 2; i++ {
					w.tx("claim-rewards-twice", i > 0, []sdk.Msg{mstypes.NewMsgClaimRewards(w.astr(s))}, []int{s})
				}
			case 2:
				s := []int{1, 2, 4}[w.r.Intn(3)]
				for i := 0; i < 2; i++ {
					w.tx("collective-withdraw-twice", i > 0, []sdk.Msg{collectivestypes.NewMsgWithdrawCollective(w.addr(s), "col1")}, []int{s})
				}
			default:
				s := []int{0, 7}[w.r.Intn(2)]
				for i := 0; i < 2; i++ {
					w.tx("rr-claim-holder-rewards-twice", i > 0, []sdk.Msg{recoverytypes.NewMsgClaimRRHolderRewards(w.addr(s))}, []int{s})
				}
			}
		},
		"h:identity-cancel": func(w *world) {
			rs := app.CustomGovKeeper.GetAllIdRecordsVerifyRequests(w.ctx())
			if len(rs) == 0 {
				return
			}
			r := rs[w.r.Intn(len(rs))]
			o := int(w.id(r.Address))
			if o >= nAcc {
				return
			}
			w.cancelVerify("identity-cancel", false, o, r.Id)
			if w.r.Chance(40) {
				w.cancelVerify("identity-cancel-repeat", true, o, r.Id)
			}
		},
		"x:identity-handle-by-stranger": func(w *world) {
			rs := app.CustomGovKeeper.GetAllIdRecordsVerifyRequests(w.ctx())
			if len(rs) == 0 {
				return
			}
			r := rs[w.r.Intn(len(rs))]
			s := w.r.Intn(nAcc)
			if w.astr(s) == r.Verifier {
				s = w.other(s)
			}
			w.handleVerify("identity-handle-by-stranger", true, s, r.Id, true)
		},
		"x:identity-cancel-by-stranger": func(w *world) {
			rs := app.CustomGovKeeper.GetAllIdRecordsVerifyRequests(w.ctx())
			if len(rs) == 0 {
				return
			}
			r := rs[w.r.Intn(len(rs))]
			s := w.r.Intn(nAcc)
			if w.astr(s) == r.Address {
				s = w.other(s)
			}
			w.cancelVerify("identity-cancel-by-stranger", true, s, r.Id)
		},
		"x:identity-request-for-other": func(w *world) { // tip taken from msg.Address; the signer names somebody else
			s := w.r.Intn(nAcc)
			v := identityOwners[w.r.Intn(len(identityOwners))]
			if v == s {
				return
			}
			recs := app.CustomGovKeeper.GetIdRecordsByAddress(w.ctx(), w.addr(v))
			if len(recs) == 0 {
				return
			}
			w.txForged("identity-request-for-other-forged", []sdk.Msg{govtypes.NewMsgRequestIdentityRecordsVerify(w.addr(v), w.addr(s), []uint64{recs[0].Id}, ukex(900))}, s, v)
		},
		"h:l2-reclaim": func(w *world) {
			bs := app.Layer2Keeper.GetAllUserDappBonds(w.ctx())
			if len(bs) == 0 {
				return
			}
			b := bs[w.r.Intn(len(bs))]
			o := int(w.id(b.User))
			if o >= nAcc || !b.Bond.Amount.IsPositive() {
				return
			}
			amt := sdk.NewCoin(b.Bond.Denom, sdk.NewInt(1+int64(w.r.Intn(1000))))
			w.tx("l2-reclaim", false, []sdk.Msg{&l2types.MsgReclaimDappBondProposal{Sender: b.User, DappName: b.DappName, Bond: amt}}, []int{o})
		},
		"x:l2-reclaim-without-bond": func(w *world) {
			s := w.r.Intn(nAcc)
			w.tx("l2-reclaim-without-bond", true, []sdk.Msg{&l2types.MsgReclaimDappBondProposal{Sender: w.astr(s), DappName: "dappa", Bond: ukex(6_000_000_000)}}, []int{s})
		},
		"h:l2-bond": func(w *world) {
			s := w.r.Intn(nAcc)
			w.tx("l2-bond", false, []sdk.Msg{&l2types.MsgBondDappProposal{Sender: w.astr(s), DappName: "dappa", Bond: ukex(1000 + int64(w.r.Intn(1000)))}}, []int{s})
		},
		"h:l2-join-verifier": func(w *world) {
			s := []int{3, 6}[w.r.Intn(2)]
			w.tx("l2-join-verifier", false, []sdk.Msg{&l2types.MsgJoinDappVerifierWithBond{Sender: w.astr(s), DappName: "dappb", Interx: w.astr(s)}}, []int{s})
		},
		"x:l2-join-verifier-interx-other": func(w *world) {
			s := w.r.Intn(nAcc)
			v := []int{3, 6}[w.r.Intn(2)]
			if v == s {
				return
			}
			w.tx("l2-join-verifier-interx-other", true, []sdk.Msg{&l2types.MsgJoinDappVerifierWithBond{Sender: w.astr(s), DappName: "dappb", Interx: w.astr(v)}}, []int{s})
		},
		"h:custody-approve": func(w *world) {
			if len(w.custHashes) == 0 {
				w.custodySend()
				return
			}
			if len(w.custodians) == 0 {
				return
			}
			s := w.custodians[w.r.Intn(len(w.custodians))]
			w.approve("custody-approve", false, s, w.spell(w.custHashes[0]))
		},
		"h:custody-edit-custodians": func(w *world) {
			switch w.r.Intn(5) {
			case 0, 1:
				if len(w.custodians) > 0 {
					w.custodyEdit(0, w.custodians[w.r.Intn(len(w.custodians))])
				}
			case 2, 3:
				w.custodyEdit(1, []int{6, 7, 0, 1, 2, 3}[w.r.Intn(6)])
			default:
				if w.r.Chance(40) {
					w.custodyEdit(2, 0)
				}
			}
		},
		"x:custody-act-as-former-member": func(w *world) {
			if len(w.custHashes) == 0 || len(w.formerCust) == 0 {
				return
			}
			s := w.formerCust[w.r.Intn(len(w.formerCust))]
			if w.r.Chance(35) {
				w.tx("custody-decline-by-former", true, []sdk.Msg{custodytypes.NewMsgDeclineCustodyTransaction(w.addr(s), w.addr(w.custOwner), w.spell(w.custHashes[0]))}, []int{s})
			} else {
				w.approve("custody-approve-by-former", true, s, w.spell(w.custHashes[0]))
			}
		},
		"x:custody-approve-repeat": func(w *world) { // one custodian approves again in another spelling of the hash
			if len(w.custHashes) == 0 {
				return
			}
			if len(w.custodians) == 0 {
				return
			}
			s := w.custodians[w.r.Intn(len(w.custodians))]
			h := w.custHashes[0]
			w.approve("custody-approve", false, s, h)
			if len(w.custHashes) > 0 {
				w.approve("custody-approve-repeat", true, s, strings.ToUpper(h))
			}
			if len(w.custHashes) > 0 {
				w.approve("custody-approve-repeat", true, s, w.spell(h))
			}
		},
		"h:custody-send": func(w *world) { w.custodySend() },
		"x:custody-approve-by-stranger": func(w *world) {
			if len(w.custHashes) == 0 {
				return
			}
			s := w.r.Intn(5)
			w.approve("custody-approve-by-stranger", true, s, w.spell(w.custHashes[0]))
		},
		"x:custody-decline-by-stranger": func(w *world) {
			if len(w.custHashes) == 0 {
				return
			}
			s := w.r.Intn(5)
			w.tx("custody-decline-by-stranger", true, []sdk.Msg{custodytypes.NewMsgDeclineCustodyTransaction(w.addr(s), w.addr(w.custOwner), w.spell(w.custHashes[0]))}, []int{s})
		},
		"x:custody-confirm-by-stranger": func(w *world) {
			if len(w.custHashes) == 0 {
				return
			}
			s := w.r.Intn(5)
			w.tx("custody-confirm-by-stranger", true, []sdk.Msg{custodytypes.NewMsgPasswordConfirmTransaction(w.addr(s), w.addr(w.custOwner), w.spell(w.custHashes[0]), "x")}, []int{s})
			w.refreshCustody()
		},
		"h:recovery-rotate": func(w *world) {
			sec, ok := w.secretOf[4]
			if !ok {
				return
			}
			na := w.freshAddr()
			if !w.late && w.r.Chance(70) { // mostly late, so that a4 keeps acting with all its claims
				return
			}
			if w.r.Bool() {
				w.tx("recovery-rotate", false, []sdk.Msg{recoverytypes.NewMsgRotateRecoveryAddress(w.astr(4), w.astr(4), na.String(), sec)}, []int{4})
			} else { // separate fee payer: GetSigners = [fee payer, address]
				fp := w.other(4)
				w.tx("recovery-rotate-fee-payer", false, []sdk.Msg{recoverytypes.NewMsgRotateRecoveryAddress(w.astr(fp), w.astr(4), na.String(), sec)}, []int{fp, 4})
			}
		},
		"h:two-signers-two-msgs": func(w *world) {
			a := w.r.Intn(nAcc)
			b := w.other(a)
			w.tx("two-signers-two-msgs", false, []sdk.Msg{banktypes.NewMsgSend(w.addr(a), w.addr(b), sdk.NewCoins(ukex(10+int64(w.r.Intn(1000))))),
				banktypes.NewMsgSend(w.addr(b), w.addr(a), sdk.NewCoins(sdk.NewInt64Coin("ubtc", 1+int64(w.r.Intn(50)))))}, []int{a, b})
		},
		"h:separate-fee-payer": func(w *world) { // the fee payer signs too; only signers may be debited
			a := w.r.Intn(nAcc)
			b := w.other(a)
			fp := w.other(a)
			w.txFeePayer("separate-fee-payer", false, []sdk.Msg{banktypes.NewMsgSend(w.addr(a), w.addr(b), sdk.NewCoins(ukex(10+int64(w.r.Intn(1000)))))}, []int{a}, fp, true)
		},
		"x:fee-payer-unsigned": func(w *world) { // the named fee payer does not sign
			a := w.r.Intn(nAcc)
			b := w.other(a)
			fp := w.other(a)
			w.txFeePayer("fee-payer-unsigned", true, []sdk.Msg{banktypes.NewMsgSend(w.addr(a), w.addr(b), sdk.NewCoins(ukex(10)))}, []int{a}, fp, false)
		},
		"x:recovery-rotate-other": func(w *world) { // fee payer signs alone, names the victim's address
			s := w.r.Intn(nAcc)
			if s == 4 {
				return
			}
			na := w.freshAddr()
			proof := "bb22"
			if w.r.Bool() {
				proof = w.secretOf[4]
			}
			w.tx("recovery-rotate-other", true, []sdk.Msg{recoverytypes.NewMsgRotateRecoveryAddress(w.astr(s), w.astr(4), na.String(), proof)}, []int{s})
		},
		"x:recovery-rotate-validator": func(w *world) {
			s := []int{1, 2, 3, 6}[w.r.Intn(4)] // holders of no recovery tokens; a7's swept holding is tried at the end
			na := w.freshAddr()
			w.tx("recovery-rotate-validator", true, []sdk.Msg{recoverytypes.NewMsgRotateValidatorByHalfRRTokenHolder(w.astr(s), w.astr(0), na.String())}, []int{s})
		},
		"h:eth-honest": func(w *world) { // the Ethereum-style account sends its own raw transaction
			w.ethEnvelope("eth-honest", false, 0, w.addr(w.r.Intn(nAcc)), 1+int64(w.r.Intn(1000)), nil)
		},
		"x:eth-payload-then-appended": func(w *world) {
			// an honestly signed raw transaction of the victim (fresh, or one already accepted) as the
			// first message, followed by 1-2 ordinary messages naming the victim that nobody signed
			s := w.r.Intn(nAcc)
			extra := []sdk.Msg{banktypes.NewMsgSend(w.ethAddr, w.addr(s), sdk.NewCoins(ukex(1_000_000+int64(w.r.Intn(1000)))))}
			switch w.r.Intn(3) {
			case 0:
				extra = append(extra, mstypes.NewMsgDelegate(w.ethAddr.String(), w.valStr, sdk.NewCoins(ukex(50_000))))
			case 1:
				extra = append(extra, custodytypes.NewMsgSend(w.ethAddr, w.addr(s), sdk.NewCoins(ukex(70_000)), "", sdk.NewCoins(ukex(1000))))
			}
			off := int64(0)
			if w.r.Chance(25) {
				off = -1
			}
			w.ethEnvelope("eth-payload-then-appended", true, off, w.addr(w.other(s)), 5, extra)
		},
		"x:direct-signature-covers-first-only": func(w *world) {
			v := w.r.Intn(nAcc)
			s := w.other(v)
			m0 := banktypes.NewMsgSend(w.addr(v), w.addr(w.other(v)), sdk.NewCoins(ukex(5)))
			extra := []sdk.Msg{banktypes.NewMsgSend(w.addr(v), w.addr(s), sdk.NewCoins(ukex(900_000)))}
			if w.r.Bool() {
				extra = append(extra, mstypes.NewMsgClaimRewards(w.astr(v)))
			}
			w.coveredFirstOnly("direct-signature-covers-first-only", v, m0, sdk.NewCoins(ukex(5)), extra)
		},
		"x:eth-raw-forged-sender": func(w *world) {
			s := w.r.Intn(nAcc)
			victim := w.ethVictim
			if w.r.Chance(30) {
				victim = w.addr(w.other(s))
			}
			w.ethForged(s, victim, 1000+int64(w.r.Intn(100000)))
		},
		"h:rr-claim-holder-rewards": func(w *world) {
			s := []int{0, 7}[w.r.Intn(2)]
			w.tx("rr-claim-holder-rewards", false, []sdk.Msg{recoverytypes.NewMsgClaimRRHolderRewards(w.addr(s))}, []int{s})
		},
		"h:collective-withdraw": func(w *world) {
			s := 1 + w.r.Intn(2)
			w.tx("collective-withdraw", false, []sdk.Msg{collectivestypes.NewMsgWithdrawCollective(w.addr(s), "col1")}, []int{s})
		},
		"h:collective-contribute": func(w *world) {
			s := 1 + w.r.Intn(3)
			w.tx("collective-contribute", false, []sdk.Msg{collectivestypes.NewMsgBondCollective(w.addr(s), "col1", sdk.NewCoins(sdk.NewInt64Coin("v1/ukex", 1000+int64(w.r.Intn(1000)))))}, []int{s})
		},
		"x:collective-withdraw-stranger": func(w *world) {
			s := 4 + w.r.Intn(4)
			w.tx("collective-withdraw-stranger", true, []sdk.Msg{collectivestypes.NewMsgWithdrawCollective(w.addr(s), "col1")}, []int{s})
		},
		"h:spending-claim": func(w *world) {
			s := 1 + w.r.Intn(2)
			w.tx("spending-claim", false, []sdk.Msg{spendingtypes.NewMsgClaimSpendingPool("pool1", w.addr(s))}, []int{s})
		},
		"x:spending-claim-stranger": func(w *world) {
			s := 3 + w.r.Intn(5)
			w.tx("spending-claim-stranger", true, []sdk.Msg{spendingtypes.NewMsgClaimSpendingPool("pool1", w.addr(s))}, []int{s})
		},
		"x:two-signer-smuggle": func(w *world) { // the second message names an account that did not sign
			s := w.r.Intn(nAcc)
			v := w.other(s)
			w.tx("two-msg-second-unsigned", true, []sdk.Msg{banktypes.NewMsgSend(w.addr(s), w.addr(v), sdk.NewCoins(ukex(5))),
				banktypes.NewMsgSend(w.addr(v), w.addr(s), sdk.NewCoins(ukex(70_000)))}, []int{s})
		},
	}
}

// spell: the hash in one of the spellings the code normalises (it lower-cases hashes)
func (w *world) spell(h string) string {
	switch w.r.Intn(3) {
	case 0:
		return h
	case 1:
		return strings.ToUpper(h)
	}
	b := []byte(h)
	for i := range b {
		if i%2 == 0 && b[i] >= 'a' && b[i] <= 'f' {
			b[i] -= 32
		}
	}
	return string(b)
}

// approve: one approval message, any spelling; the ghost record notes accepted approvals of listed custodians
func (w *world) approve(op string, attack bool, s int, hash string) {
	lower := strings.ToLower(hash)
	r := w.tx(op, attack, []sdk.Msg{custodytypes.NewMsgApproveCustodyTransaction(w.addr(s), w.addr(w.custOwner), hash)}, []int{s})
	if r.Code == 0 && r.Panic == "" {
		for _, c := range w.custodians {
			if c == s {
				if w.ghost[lower] == nil {
					w.ghost[lower] = map[int]bool{}
				}
				w.ghost[lower][s] = true
			}
		}
	}
	w.refreshCustody()
}

func (w *world) refreshCustody() {
	pool := w.c.App.CustodyKeeper.GetCustodyPoolByAddress(w.ctx(), w.addr(w.custOwner))
	var hs []string
	for _, h := range w.custHashes {
		if pool != nil && pool.Record[h] != nil {
			hs = append(hs, h)
		}
	}
	w.custHashes = hs
}

// ---------------------------------------------------------------- authorisation facts (pre-state)

func (w *world) facts(msgs []sdk.Msg, signers []int) (coq []string, js []string) {
	ctx := w.ctx()
	app := w.c.App
	isSigner := func(a string) bool {
		for _, s := range signers {
			if w.astr(s) == a {
				return true
			}
		}
		return false
	}
	custody := func(caller, target sdk.AccAddress, hash string) {
		hash = strings.ToLower(hash)
		pool := app.CustodyKeeper.GetCustodyPoolByAddress(ctx, target)
		if pool == nil || pool.Record[hash] == nil || pool.Record[hash].Transaction == nil {
			return
		}
		rec := pool.Record[hash]
		settings := app.CustodyKeeper.GetCustodyInfoByAddress(ctx, target)
		cl := app.CustodyKeeper.GetCustodyCustodiansByAddress(ctx, target)
		// the checker's own record: who is a listed custodian (from the accepted settings messages)
		// and which of them had an approval of THIS transfer accepted (distinct approvers);
		// the vote store of the module is not consulted
		n := len(w.custodians)
		callerIdx := -1
		for _, c := range w.custodians {
			if w.addr(c).Equals(caller) {
				callerIdx = c
			}
		}
		callerIs := callerIdx >= 0 && target.Equals(w.addr(w.custOwner))
		legit := 0
		voted := false
		inForce := map[int]bool{}
		for _, c := range w.custodians {
			inForce[c] = true
		}
		for c := range w.ghost[hash] {
			if c == callerIdx {
				voted = true
			} else if inForce[c] {
				legit++ // approvals of members since removed do not count
			}
		}
		if !target.Equals(w.addr(w.custOwner)) {
			n, legit = 0, 0
		}
		_ = cl
		enabled, usepw, mode := false, false, uint64(0)
		if settings != nil {
			enabled, usepw, mode = settings.CustodyEnabled, settings.UsePassword, settings.CustodyMode
		}
		pwok := !usepw || rec.Confirmed
		to, _ := sdk.AccAddressFromBech32(rec.Transaction.ToAddress)
		if voted {
			legit++ // the caller's earlier approval stays counted once
		}
		coq = append(coq, fmt.Sprintf("FCustody %s %s %s %s %d %d %d %s %s %s %d %s", hx.Z(w.id(target.String())), hx.Z(w.id(to.String())),
			coinsZ(rec.Transaction.Amount), coinsZ(rec.Transaction.Reward), legit, n, mode, hx.B(enabled), hx.B(pwok), hx.B(callerIs && !voted), rec.Votes, hx.B(callerIs)))
		js = append(js, fmt.Sprintf("custody request of %s to %s amount %s reward %s: DISTINCT listed custodians with an accepted approval %d of %d (votes on record %d), mode %d%%, enabled %v, password ok %v, caller is a listed custodian who has not voted %v",
			w.name(w.id(target.String())), w.name(w.id(to.String())), rec.Transaction.Amount, rec.Transaction.Reward, legit, n, rec.Votes, mode, enabled, pwok, callerIs && !voted))
	}
	for _, m := range msgs {
		switch x := m.(type) {
		case *custodytypes.MsgApproveCustodyTransaction:
			custody(x.FromAddress, x.TargetAddress, x.Hash)
		case *custodytypes.MsgDeclineCustodyTransaction:
			custody(x.FromAddress, x.TargetAddress, x.Hash)
		case *custodytypes.MsgPasswordConfirmTransaction:
			custody(x.FromAddress, x.SenderAddress, x.Hash)
		case *recoverytypes.MsgRotateRecoveryAddress:
			recd, err := app.RecoveryKeeper.GetRecoveryRecord(ctx, x.Address)
			ok := false
			if err == nil {
				bz, e2 := hex.DecodeString(x.Proof)
				h := sha256.Sum256(bz)
				ok = e2 == nil && hex.EncodeToString(h[:]) == recd.Challenge
			}
			coq = append(coq, fmt.Sprintf("FRotate %s %s %s", hx.Z(w.id(x.Address)), hx.Z(w.id(x.Recovery)), hx.B(ok)))
			js = append(js, fmt.Sprintf("rotation of %s to %s: proof matches the recorded challenge %v; owner signed %v", w.name(w.id(x.Address)), w.name(w.id(x.Recovery)), ok, isSigner(x.Address)))
		case *recoverytypes.MsgRotateValidatorByHalfRRTokenHolder:
			tok, err := app.RecoveryKeeper.GetRecoveryToken(ctx, x.Address)
			amt, sup := sdk.ZeroInt(), sdk.ZeroInt()
			if err == nil {
				h, e2 := sdk.AccAddressFromBech32(x.RrHolder)
				if e2 == nil {
					amt = app.BankKeeper.GetBalance(ctx, h, tok.Token).Amount
				}
				sup = app.BankKeeper.GetSupply(ctx, tok.Token).Amount
			}
			coq = append(coq, fmt.Sprintf("FRotateRR %s %s %s %s", hx.Z(w.id(x.Address)), hx.Z(w.id(x.Recovery)), hx.ZInt(amt), hx.ZInt(sup)))
			js = append(js, fmt.Sprintf("validator rotation of %s to %s by a holder of %s of %s recovery tokens", w.name(w.id(x.Address)), w.name(w.id(x.Recovery)), amt, sup))
		}
	}
	return
}
