package main

import (
	"bytes"
	"encoding/json"
	"fmt"

	"verif/harness/hx"

	customgov "github.com/KiraCore/sekai/x/gov"
	govtypes "github.com/KiraCore/sekai/x/gov/types"
	"github.com/KiraCore/sekai/x/multistaking"
	mstypes "github.com/KiraCore/sekai/x/multistaking/types"
	"github.com/KiraCore/sekai/x/recovery"
	recoverytypes "github.com/KiraCore/sekai/x/recovery/types"
	"github.com/KiraCore/sekai/x/spending"
	spendingtypes "github.com/KiraCore/sekai/x/spending/types"
	sdk "github.com/cosmos/cosmos-sdk/types"
)

// Classes the tree is known NOT to export (known-findings.txt, property C12, lost:*), pinned here.
// Modules whose genesis is empty / commented out are not round-tripped at all (their claim kinds
// are therefore not judged by the round-trip clause); lost index classes inside round-tripped
// modules are carried over byte for byte so that the history can continue.
var notRoundTripped = []string{"collectives (lost:collectives/*: cbond)", "layer2 (lost:layer2/*: l2bond)", "custody (lost:custody/*)"}
var carriedOver = map[string][][]byte{
	mstypes.ModuleName:      {{0x5}, {0x7}}, // lost:multistaking/KeyPrefixPoolDelegator, lost:multistaking/KeyPrefixCompoundInfo
	recoverytypes.ModuleName: {{0x07}},       // lost:recovery/KeyPrefixRRTokenHolder
}

// genesisRoundTrip: real ExportGenesis (AppModule entry point, JSON codec) of the modules whose
// claims are monitored, every list of the exported state PERMUTED (genesis validation imposes no
// order; merged / hand-edited files are not id-sorted), the module's store wiped, real
// InitGenesis.  The history continues on the imported state.  Observed as a phase-3 case: no
// balance and no claim record may differ right after the round trip.
func (w *world) genesisRoundTrip() {
	if !w.c.InBlock {
		return
	}
	pre := w.snapshot()
	ctx := w.ctx()
	app := w.c.App
	cdc := app.AppCodec()
	mods := []struct {
		name string
		exp  func() []byte
		imp  func(bz []byte)
	}{
		{mstypes.ModuleName,
			func() []byte {
				return multistaking.NewAppModule(app.MultiStakingKeeper, app.BankKeeper, app.CustomGovKeeper, app.CustomStakingKeeper).ExportGenesis(ctx, cdc)
			},
			func(bz []byte) {
				multistaking.NewAppModule(app.MultiStakingKeeper, app.BankKeeper, app.CustomGovKeeper, app.CustomStakingKeeper).InitGenesis(ctx, cdc, bz)
			}},
		{spendingtypes.ModuleName,
			func() []byte { return spending.NewAppModule(app.SpendingKeeper, app.CustomGovKeeper, app.BankKeeper).ExportGenesis(ctx, cdc) },
			func(bz []byte) { spending.NewAppModule(app.SpendingKeeper, app.CustomGovKeeper, app.BankKeeper).InitGenesis(ctx, cdc, bz) }},
		{recoverytypes.ModuleName,
			func() []byte {
				return recovery.NewAppModule(cdc, app.RecoveryKeeper, app.AccountKeeper, app.CustomStakingKeeper).ExportGenesis(ctx, cdc)
			},
			func(bz []byte) {
				recovery.NewAppModule(cdc, app.RecoveryKeeper, app.AccountKeeper, app.CustomStakingKeeper).InitGenesis(ctx, cdc, bz)
			}},
		{govtypes.ModuleName,
			func() []byte { return customgov.NewAppModule(app.CustomGovKeeper).ExportGenesis(ctx, cdc) },
			func(bz []byte) { customgov.NewAppModule(app.CustomGovKeeper).InitGenesis(ctx, cdc, bz) }},
	}
	var log []string
	p := hx.Try(func() {
		for _, m := range mods {
			if m.name == govtypes.ModuleName && w.hist%2 == 1 {
				continue // gov (tips) is round-tripped in every other history
			}
			bz := permuteLists(m.exp(), w.r)
			store := ctx.KVStore(app.GetKey(m.name))
			var keys, keep [][]byte
			var keepV [][]byte
			it := store.Iterator(nil, nil)
			for ; it.Valid(); it.Next() {
				k := append([]byte{}, it.Key()...)
				keys = append(keys, k)
				for _, pfx := range carriedOver[m.name] {
					if bytes.HasPrefix(k, pfx) {
						keep, keepV = append(keep, k), append(keepV, append([]byte{}, it.Value()...))
					}
				}
			}
			it.Close()
			for _, k := range keys {
				store.Delete(k)
			}
			m.imp(bz)
			for i, k := range keep {
				store.Set(k, keepV[i])
			}
			log = append(log, fmt.Sprintf("%s: %d keys wiped, %d carried over", m.name, len(keys), len(keep)))
		}
	})
	post := w.snapshot()
	if p != "" {
		w.rec.panics = append(w.rec.panics, "genesis round trip: "+p)
	}
	w.emit(3, "genesis-round-trip", false, nil, nil, p == "", p, pre, post, nil, append(log, "not round-tripped: "+fmt.Sprint(notRoundTripped)), "")
	w.opsLog = append(w.opsLog, "genesis-round-trip (lists permuted)")
}

// permuteLists: every JSON array of objects at the top level of the module's genesis state is
// rotated so that its former last element comes first (and shuffled further at random)
func permuteLists(bz []byte, r *hx.Rng) []byte {
	var m map[string]json.RawMessage
	if json.Unmarshal(bz, &m) != nil {
		return bz
	}
	for k, v := range m {
		var arr []json.RawMessage
		if json.Unmarshal(v, &arr) != nil || len(arr) < 2 {
			continue
		}
		arr = append([]json.RawMessage{arr[len(arr)-1]}, arr[:len(arr)-1]...)
		for i := len(arr) - 1; i > 1; i-- { // keep the former last element in front
			j := 1 + r.Intn(i)
			arr[i], arr[j] = arr[j], arr[i]
		}
		nb, err := json.Marshal(arr)
		if err == nil {
			m[k] = nb
		}
	}
	out, err := json.Marshal(m)
	if err != nil {
		return bz
	}
	return out
}

var _ = sdk.AccAddress{}
