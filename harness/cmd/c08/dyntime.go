// Timing / quorum scenarios for EVERY dynamic-voter proposal kind (voters, quorum, voting period and
// enactment delay come from an owning object of another module): the object is created with pairwise
// distinct vote quorum / vote period / vote enactment, the proposal goes through the real gov msg server
// (submit, votes) and the real EndBlocker, with blocks one nanosecond before / exactly at the object's
// voting end and enactment end.  The checker judges from the OBJECT's recorded parameters.
package main

import (
	"fmt"
	"strings"
	"time"

	"verif/harness/hx"

	simapp "github.com/KiraCore/sekai/app"
	"github.com/KiraCore/sekai/x/collectives"
	collectivestypes "github.com/KiraCore/sekai/x/collectives/types"
	"github.com/KiraCore/sekai/x/gov"
	govkeeper "github.com/KiraCore/sekai/x/gov/keeper"
	govtypes "github.com/KiraCore/sekai/x/gov/types"
	"github.com/KiraCore/sekai/x/layer2"
	layer2types "github.com/KiraCore/sekai/x/layer2/types"
	"github.com/KiraCore/sekai/x/spending"
	spendingtypes "github.com/KiraCore/sekai/x/spending/types"
	sdk "github.com/cosmos/cosmos-sdk/types"
	minttypes "github.com/cosmos/cosmos-sdk/x/mint/types"
)

type dynKind struct {
	name string
	// creates the owning object with the given owners and parameters, returns the content to propose
	setup func(ctx sdk.Context, app *simapp.SekaiApp, owners []sdk.AccAddress, q sdk.Dec, period, enact uint64, t0 time.Time) govtypes.Content
}

type dynResult struct {
	Name    string     `json:"dynamic_kind"`
	T0      int64      `json:"submit_time_ns"`
	Period  uint64     `json:"object_vote_period_s"`
	Enact   uint64     `json:"object_vote_enactment_s"`
	Quorum  string     `json:"object_vote_quorum_e18"`
	Owners  int        `json:"owners"`
	Votes   int        `json:"yes_votes"`
	Blocks  [][3]int64 `json:"blocks_time_result_calls"`
	VoteEnd int64      `json:"proposal_record_voting_end_ns"`
	EnactAt int64      `json:"proposal_record_enactment_end_ns"`
	Note    string     `json:"note,omitempty"`
}

func (d dynResult) coq() string {
	var bs []string
	for _, b := range d.Blocks {
		bs = append(bs, fmt.Sprintf("(%d, %d, %d)", b[0], b[1], b[2]))
	}
	return fmt.Sprintf("CDyn %s %d %d %d %s %d %d %s", hx.Str(d.Name), d.T0, d.Period, d.Enact, d.Quorum, d.Owners, d.Votes, hx.List(bs))
}

func strs(as []sdk.AccAddress) []string {
	var out []string
	for _, a := range as {
		out = append(out, a.String())
	}
	return out
}

func dynKinds() []dynKind {
	type A = *simapp.SekaiApp
	const pool, coll, dapp = "dynpool", "dyncoll", "dyndapp"
	ben := []sdk.AccAddress{sdk.AccAddress("dyn_ben_a___________"), sdk.AccAddress("dyn_ben_b___________")}
	mkSpending := func(ctx sdk.Context, app A, owners []sdk.AccAddress, q sdk.Dec, period, enact uint64, t0 time.Time) {
		app.SpendingKeeper.SetSpendingPool(ctx, spendingtypes.SpendingPool{
			Name: pool, ClaimExpiry: 100, Rates: sdk.NewDecCoins(sdk.NewDecCoin("ukex", sdk.NewInt(1))),
			VoteQuorum: q, VotePeriod: period, VoteEnactment: enact,
			Owners: &spendingtypes.PermInfo{OwnerAccounts: strs(owners)},
			Beneficiaries: &spendingtypes.WeightedPermInfo{Accounts: []spendingtypes.WeightedAccount{
				{Account: ben[0].String(), Weight: sdk.NewDec(1)}, {Account: ben[1].String(), Weight: sdk.NewDec(1)}}},
		})
		if err := app.BankKeeper.MintCoins(ctx, minttypes.ModuleName, coins(100000)); err != nil {
			panic(err)
		}
		if err := app.SpendingKeeper.DepositSpendingPoolFromModule(ctx, minttypes.ModuleName, pool, coins(100000)); err != nil {
			panic(err)
		}
		for _, x := range ben {
			app.SpendingKeeper.SetClaimInfo(ctx, spendingtypes.ClaimInfo{PoolName: pool, Account: x.String(), LastClaim: uint64(t0.Unix() - 50)})
		}
	}
	mkColl := func(ctx sdk.Context, app A, owners []sdk.AccAddress, q sdk.Dec, period, enact uint64) {
		app.CollectivesKeeper.SetCollective(ctx, collectivestypes.Collective{
			Name: coll, Description: "d", Status: collectivestypes.CollectiveActive,
			OwnersWhitelist: collectivestypes.OwnersWhitelist{Accounts: strs(owners)},
			VoteQuorum:      q, VotePeriod: period, VoteEnactment: enact, Donations: coins(1000),
		})
		fund(ctx, app, collectivestypes.ModuleName, 1000)
	}
	return []dynKind{
		{"spending_update", func(ctx sdk.Context, app A, o []sdk.AccAddress, q sdk.Dec, p, e uint64, t0 time.Time) govtypes.Content {
			mkSpending(ctx, app, o, q, p, e, t0)
			return spendingtypes.NewUpdateSpendingPoolProposal(pool, 0, 0, sdk.DecCoins{}, q, p, e, spendingtypes.PermInfo{OwnerAccounts: strs(o)}, spendingtypes.WeightedPermInfo{}, false, 0)
		}},
		{"spending_distribution", func(ctx sdk.Context, app A, o []sdk.AccAddress, q sdk.Dec, p, e uint64, t0 time.Time) govtypes.Content {
			mkSpending(ctx, app, o, q, p, e, t0)
			return spendingtypes.NewSpendingPoolDistributionProposal(pool)
		}},
		{"spending_withdraw", func(ctx sdk.Context, app A, o []sdk.AccAddress, q sdk.Dec, p, e uint64, t0 time.Time) govtypes.Content {
			mkSpending(ctx, app, o, q, p, e, t0)
			return spendingtypes.NewSpendingPoolWithdrawProposal(pool, []string{ben[0].String()}, coins(10))
		}},
		{"collective_update", func(ctx sdk.Context, app A, o []sdk.AccAddress, q sdk.Dec, p, e uint64, t0 time.Time) govtypes.Content {
			mkColl(ctx, app, o, q, p, e)
			return collectivestypes.NewProposalCollectiveUpdate(coll, "d2", collectivestypes.CollectiveActive, collectivestypes.DepositWhitelist{},
				collectivestypes.OwnersWhitelist{Accounts: strs(o)}, nil, 0, 0, 0, q, p, e)
		}},
		{"collective_send_donation", func(ctx sdk.Context, app A, o []sdk.AccAddress, q sdk.Dec, p, e uint64, t0 time.Time) govtypes.Content {
			mkColl(ctx, app, o, q, p, e)
			return collectivestypes.NewProposalCollectiveSendDonation(coll, ben[0].String(), coins(50))
		}},
		{"collective_remove", func(ctx sdk.Context, app A, o []sdk.AccAddress, q sdk.Dec, p, e uint64, t0 time.Time) govtypes.Content {
			mkColl(ctx, app, o, q, p, e)
			return collectivestypes.NewProposalCollectiveRemove(coll)
		}},
		{"dapp_upsert", func(ctx sdk.Context, app A, o []sdk.AccAddress, q sdk.Dec, p, e uint64, t0 time.Time) govtypes.Content {
			d := layer2types.Dapp{Name: dapp, Denom: "dd", Controllers: layer2types.Controllers{Whitelist: layer2types.AccountRange{Addresses: strs(o)}},
				VoteQuorum: q, VotePeriod: p, VoteEnactment: e, TotalBond: sdk.NewInt64Coin("ukex", 0), PoolFee: sdk.ZeroDec(),
				Pool: layer2types.LpPoolConfig{Ratio: sdk.OneDec()}, Issuance: layer2types.IssuanceConfig{Premint: sdk.ZeroInt(), Postmint: sdk.ZeroInt()}}
			app.Layer2Keeper.SetDapp(ctx, d)
			d2 := d
			d2.Description = "upserted"
			return &layer2types.ProposalUpsertDapp{Dapp: d2}
		}},
		{"dapp_join", func(ctx sdk.Context, app A, o []sdk.AccAddress, q sdk.Dec, p, e uint64, t0 time.Time) govtypes.Content {
			d := layer2types.Dapp{Name: dapp, Denom: "dd", Controllers: layer2types.Controllers{Whitelist: layer2types.AccountRange{Addresses: strs(o)}},
				VoteQuorum: q, VotePeriod: p, VoteEnactment: e, TotalBond: sdk.NewInt64Coin("ukex", 0), PoolFee: sdk.ZeroDec(), VerifiersMin: 1, ExecutorsMax: 3,
				Pool: layer2types.LpPoolConfig{Ratio: sdk.OneDec()}, Issuance: layer2types.IssuanceConfig{Premint: sdk.ZeroInt(), Postmint: sdk.ZeroInt()}}
			app.Layer2Keeper.SetDapp(ctx, d)
			return &layer2types.ProposalJoinDapp{Sender: ben[1].String(), DappName: dapp, Executor: false, Verifier: true, Interx: "ix"}
		}},
	}
}

func runDynTiming(app *simapp.SekaiApp, base sdk.Context) []dynResult {
	t0 := time.Unix(1700000000, 123456789).UTC()
	variants := []struct {
		period, enact uint64
		q             string
		votes         int
	}{
		{60, 600, "400000000000000000", 2}, // enactment delay longer than the voting period; quorum 0.4 of 3 owners met by 2
		{600, 60, "700000000000000000", 3}, // shorter; quorum 0.7 of 3 needs all three
		{90, 30, "700000000000000000", 2},  // quorum missed by one vote
	}
	var out []dynResult
	for _, kind := range dynKinds() {
		for _, v := range variants {
			res := dynResult{Name: kind.name, T0: t0.UnixNano(), Period: v.period, Enact: v.enact, Quorum: v.q, Owners: 3, Votes: v.votes}
			pan := hx.Try(func() {
				ctx, _ := base.CacheContext()
				ctx = ctx.WithBlockTime(t0).WithBlockHeight(5).WithEventManager(sdk.NewEventManager())
				k := app.CustomGovKeeper
				mk := func(h govtypes.DynamicVoterProposalHandler) govtypes.ProposalHandler { return loggedDyn{logged{h}, h} }
				k.SetProposalRouter(govtypes.NewProposalRouter([]govtypes.ProposalHandler{
					mk(spending.NewApplyUpdateSpendingPoolProposalHandler(app.SpendingKeeper)),
					mk(spending.NewApplySpendingPoolDistributionProposalHandler(app.SpendingKeeper, k)),
					mk(spending.NewApplySpendingPoolWithdrawProposalHandler(app.SpendingKeeper, app.BankKeeper)),
					mk(collectives.NewApplyCollectiveSendDonationProposalHandler(app.CollectivesKeeper)),
					mk(collectives.NewApplyCollectiveUpdateProposalHandler(app.CollectivesKeeper)),
					mk(collectives.NewApplyCollectiveRemoveProposalHandler(app.CollectivesKeeper)),
					mk(layer2.NewApplyJoinDappProposalHandler(app.Layer2Keeper)),
					mk(layer2.NewApplyUpsertDappProposalHandler(app.Layer2Keeper)),
				}))
				probeKeeper = k
				ms := govkeeper.NewMsgServerImpl(k)
				owners := []sdk.AccAddress{sdk.AccAddress("dyn_owner_1_________"), sdk.AccAddress("dyn_owner_2_________"), sdk.AccAddress("dyn_owner_3_________")}
				for _, o := range owners {
					k.SaveNetworkActor(ctx, govtypes.NewDefaultActor(o))
				}
				qi, _ := sdk.NewIntFromString(v.q)
				content := kind.setup(ctx, app, owners, sdk.NewDecFromIntWithPrec(qi, 18), v.period, v.enact, t0)
				m, err := govtypes.NewMsgSubmitProposal(owners[0], "t", "d", content)
				if err != nil {
					panic(err)
				}
				resp, err := ms.SubmitProposal(sdk.WrapSDKContext(ctx), m)
				if err != nil {
					panic(fmt.Sprintf("submit: %v", err))
				}
				id := resp.ProposalID
				for i := 0; i < v.votes; i++ {
					if _, err := ms.VoteProposal(sdk.WrapSDKContext(ctx), govtypes.NewMsgVoteProposal(id, owners[i], govtypes.OptionYes, sdk.ZeroDec())); err != nil {
						panic(fmt.Sprintf("vote: %v", err))
					}
				}
				pr, _ := k.GetProposal(ctx, id)
				res.VoteEnd, res.EnactAt = pr.VotingEndTime.UnixNano(), pr.EnactmentEndTime.UnixNano()
				// blocks around the OBJECT's voting end and enactment end
				vend := t0.UnixNano() + int64(v.period)*sec
				eend := vend + int64(v.enact)*sec
				h := int64(5)
				for _, bt := range []int64{vend - 1, vend, vend + 1, eend - 1, eend, eend + 1} {
					h += 5
					c := ctx.WithBlockTime(time.Unix(0, bt).UTC()).WithBlockHeight(h)
					applyLog = nil
					inEnd = true
					gov.EndBlocker(c, k)
					inEnd = false
					calls := int64(0)
					for _, a := range applyLog {
						if a.ID == id {
							calls++
						}
					}
					p, _ := k.GetProposal(c, id)
					res.Blocks = append(res.Blocks, [3]int64{bt, int64(p.Result), calls})
				}
			})
			inEnd = false
			if pan != "" {
				res.Note = "panic: " + strings.ReplaceAll(pan, "\n", " ")
			}
			out = append(out, res)
		}
	}
	return out
}
