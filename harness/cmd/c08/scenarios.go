// Scripted atomicity scenarios on REAL multi-step proposal handlers of other modules, driven through the
// real gov msg server, the real router.ApplyProposal and the real gov.EndBlocker: the proposal is
// submitted while every step of its Apply would succeed (so the dry run of SubmitProposal passes), it
// passes, and before the enactment block the k-th step is made to fail.  Observed: the handler call,
// ExecResult, whether every store of the application is unchanged by the enactment block apart from the
// proposal's own record / queue entry, and whether the complete effect is present.
package main

import (
	"bytes"
	"fmt"
	"sort"
	"time"

	"verif/harness/hx"

	simapp "github.com/KiraCore/sekai/app"
	"github.com/KiraCore/sekai/x/basket"
	baskettypes "github.com/KiraCore/sekai/x/basket/types"
	"github.com/KiraCore/sekai/x/gov"
	govkeeper "github.com/KiraCore/sekai/x/gov/keeper"
	govtypes "github.com/KiraCore/sekai/x/gov/types"
	"github.com/KiraCore/sekai/x/spending"
	spendingtypes "github.com/KiraCore/sekai/x/spending/types"
	"github.com/cosmos/cosmos-sdk/store/rootmulti"
	storetypes "github.com/cosmos/cosmos-sdk/store/types"
	sdk "github.com/cosmos/cosmos-sdk/types"
	minttypes "github.com/cosmos/cosmos-sdk/x/mint/types"
)

type scenario struct {
	name       string
	expectFail bool
	setup      func(ctx sdk.Context, app *simapp.SekaiApp, owner, a, b sdk.AccAddress) govtypes.Content
	brk        func(ctx sdk.Context, app *simapp.SekaiApp, owner, a, b sdk.AccAddress)
	full       func(ctx sdk.Context, app *simapp.SekaiApp, owner, a, b sdk.AccAddress) bool
}

type scenResult struct {
	Name       string   `json:"scenario"`
	ExpectFail bool     `json:"scripted_step_fails"`
	Calls      int      `json:"handler_calls"`
	OK         bool     `json:"handler_ok"`
	Exec       string   `json:"exec_result"`
	Result     string   `json:"result"`
	Unchanged  bool     `json:"stores_unchanged_except_own_proposal"`
	Full       bool     `json:"complete_effect_present"`
	Changed    []string `json:"changed_keys,omitempty"`
	Note       string   `json:"note,omitempty"`
}

func (s scenResult) coq() string {
	ec := execCode(s.Exec)
	rc := map[string]int{"VOTE_RESULT_UNKNOWN": 0, "VOTE_RESULT_PASSED": 1, "VOTE_RESULT_REJECTED": 2, "VOTE_RESULT_REJECTED_WITH_VETO": 3,
		"VOTE_PENDING": 4, "VOTE_RESULT_QUORUM_NOT_REACHED": 5, "VOTE_RESULT_ENACTMENT": 6, "VOTE_RESULT_PASSED_WITH_EXEC_FAIL": 7}[s.Result]
	return fmt.Sprintf("CScen %s %s %d %s %d %d %s %s", hx.Str(s.Name), hx.B(s.ExpectFail), s.Calls, hx.B(s.OK), ec, rc, hx.B(s.Unchanged), hx.B(s.Full))
}

// dump of every KV store of the application
func dumpStores(ctx sdk.Context, app *simapp.SekaiApp) map[string][]byte {
	out := map[string][]byte{}
	rs := app.CommitMultiStore().(*rootmulti.Store)
	for name, key := range rs.StoreKeysByName() {
		if _, ok := key.(*storetypes.KVStoreKey); !ok {
			continue
		}
		it := ctx.KVStore(key).Iterator(nil, nil)
		for ; it.Valid(); it.Next() {
			out[name+"/"+string(it.Key())] = append([]byte{}, it.Value()...)
		}
		it.Close()
	}
	return out
}

func coins(n int64) sdk.Coins { return sdk.Coins{sdk.NewInt64Coin("ukex", n)} }

func fund(ctx sdk.Context, app *simapp.SekaiApp, module string, n int64) {
	if err := app.BankKeeper.MintCoins(ctx, minttypes.ModuleName, coins(n)); err != nil {
		panic(err)
	}
	if err := app.BankKeeper.SendCoinsFromModuleToModule(ctx, minttypes.ModuleName, module, coins(n)); err != nil {
		panic(err)
	}
}

const scenPool = "scenpool"

func mkPool(ctx sdk.Context, app *simapp.SekaiApp, owner, a, b sdk.AccAddress, t0 time.Time) {
	app.SpendingKeeper.SetSpendingPool(ctx, spendingtypes.SpendingPool{
		Name: scenPool, ClaimExpiry: 100, Rates: sdk.NewDecCoins(sdk.NewDecCoin("ukex", sdk.NewInt(1))),
		VoteQuorum: sdk.NewDecWithPrec(50, 2), VotePeriod: 10, VoteEnactment: 10,
		Owners: &spendingtypes.PermInfo{OwnerAccounts: []string{owner.String()}},
		Beneficiaries: &spendingtypes.WeightedPermInfo{Accounts: []spendingtypes.WeightedAccount{
			{Account: a.String(), Weight: sdk.NewDec(1)}, {Account: b.String(), Weight: sdk.NewDec(1)}}},
	})
	if err := app.BankKeeper.MintCoins(ctx, minttypes.ModuleName, coins(1000)); err != nil {
		panic(err)
	}
	if err := app.SpendingKeeper.DepositSpendingPoolFromModule(ctx, minttypes.ModuleName, scenPool, coins(1000)); err != nil {
		panic(err)
	}
	for _, x := range []sdk.AccAddress{a, b} {
		app.SpendingKeeper.SetClaimInfo(ctx, spendingtypes.ClaimInfo{PoolName: scenPool, Account: x.String(), LastClaim: uint64(t0.Unix() - 50)})
	}
}

func bal(ctx sdk.Context, app *simapp.SekaiApp, x sdk.AccAddress) int64 {
	return app.BankKeeper.GetBalance(ctx, x, "ukex").Amount.Int64()
}

func scenarios(t0 time.Time) []scenario {
	type A = *simapp.SekaiApp
	nop := func(sdk.Context, A, sdk.AccAddress, sdk.AccAddress, sdk.AccAddress) {}
	setPoolBalance := func(n int64) func(sdk.Context, A, sdk.AccAddress, sdk.AccAddress, sdk.AccAddress) {
		return func(ctx sdk.Context, app A, _, _, _ sdk.AccAddress) {
			p := app.SpendingKeeper.GetSpendingPool(ctx, scenPool)
			p.Balances = coins(n)
			app.SpendingKeeper.SetSpendingPool(ctx, *p)
		}
	}
	distSetup := func(ctx sdk.Context, app A, o, a, b sdk.AccAddress) govtypes.Content {
		mkPool(ctx, app, o, a, b, t0)
		return spendingtypes.NewSpendingPoolDistributionProposal(scenPool)
	}
	distFull := func(ctx sdk.Context, app A, o, a, b sdk.AccAddress) bool {
		return bal(ctx, app, a) == 100 && bal(ctx, app, b) == 100
	}
	wdSetup := func(ctx sdk.Context, app A, o, a, b sdk.AccAddress) govtypes.Content {
		mkPool(ctx, app, o, a, b, t0)
		return spendingtypes.NewSpendingPoolWithdrawProposal(scenPool, []string{a.String(), b.String()}, coins(100))
	}
	wdFull := func(ctx sdk.Context, app A, o, a, b sdk.AccAddress) bool {
		p := app.SpendingKeeper.GetSpendingPool(ctx, scenPool)
		return bal(ctx, app, a) == 100 && bal(ctx, app, b) == 100 && sdk.Coins(p.Balances).IsEqual(coins(800))
	}
	durSetup := func(ctx sdk.Context, app A, o, a, b sdk.AccAddress) govtypes.Content {
		return govtypes.NewSetProposalDurationsProposal([]string{"SetNetworkProperty", "UpsertDataRegistry"}, []uint64{400, 350})
	}
	durFull := func(ctx sdk.Context, app A, o, a, b sdk.AccAddress) bool {
		return app.CustomGovKeeper.GetProposalDuration(ctx, "SetNetworkProperty") == 400 && app.CustomGovKeeper.GetProposalDuration(ctx, "UpsertDataRegistry") == 350
	}
	bkSetup := func(ctx sdk.Context, app A, o, a, b sdk.AccAddress) govtypes.Content {
		for id, sfx := range map[uint64]string{1: "sa", 2: "sb"} {
			app.BasketKeeper.SetBasket(ctx, baskettypes.Basket{Id: id, Suffix: sfx, Amount: sdk.ZeroInt(), SwapFee: sdk.ZeroDec(), SlipppageFeeMin: sdk.ZeroDec(),
				TokensCap: sdk.ZeroDec(), MintsMin: sdk.ZeroInt(), MintsMax: sdk.ZeroInt(), BurnsMin: sdk.ZeroInt(), BurnsMax: sdk.ZeroInt(),
				SwapsMin: sdk.ZeroInt(), SwapsMax: sdk.ZeroInt(), Surplus: coins(100)})
		}
		fund(ctx, app, baskettypes.ModuleName, 200)
		return baskettypes.NewProposalBasketWithdrawSurplus([]uint64{1, 2}, a.String())
	}
	bkFull := func(ctx sdk.Context, app A, o, a, b sdk.AccAddress) bool {
		b1, e1 := app.BasketKeeper.GetBasketById(ctx, 1)
		b2, e2 := app.BasketKeeper.GetBasketById(ctx, 2)
		return e1 == nil && e2 == nil && sdk.Coins(b1.Surplus).IsZero() && sdk.Coins(b2.Surplus).IsZero() && bal(ctx, app, a) == 200
	}
	return []scenario{
		{"spending_distribution", false, distSetup, nop, distFull},
		{"spending_distribution:second_beneficiary_unregistered", true, distSetup,
			func(ctx sdk.Context, app A, _, _, b sdk.AccAddress) {
				app.SpendingKeeper.RemoveClaimInfo(ctx, spendingtypes.ClaimInfo{PoolName: scenPool, Account: b.String()})
			}, distFull},
		{"spending_distribution:pool_covers_first_payout_only", true, distSetup, setPoolBalance(150), distFull},
		{"spending_withdraw", false, wdSetup, nop, wdFull},
		{"spending_withdraw:pool_covers_first_payout_only", true, wdSetup, setPoolBalance(150), wdFull},
		{"gov_set_proposal_durations", false, durSetup, nop, durFull},
		{"gov_set_proposal_durations:second_entry_below_raised_minimum", true, durSetup,
			func(ctx sdk.Context, app A, _, _, _ sdk.AccAddress) {
				if err := app.CustomGovKeeper.SetNetworkProperty(ctx, govtypes.MinimumProposalEndTime, govtypes.NetworkPropertyValue{Value: 380}); err != nil {
					panic(err)
				}
			}, durFull},
		{"basket_withdraw_surplus", false, bkSetup, nop, bkFull},
		{"basket_withdraw_surplus:second_basket_removed", true, bkSetup,
			func(ctx sdk.Context, app A, _, _, _ sdk.AccAddress) {
				b2, err := app.BasketKeeper.GetBasketById(ctx, 2)
				if err != nil {
					panic(err)
				}
				app.BasketKeeper.DeleteBasket(ctx, b2)
			}, bkFull},
	}
}

func runScenarios(app *simapp.SekaiApp, base sdk.Context) []scenResult {
	t0 := time.Unix(1700000000, 0).UTC()
	var out []scenResult
	for _, sc := range scenarios(t0) {
		res := scenResult{Name: sc.name, ExpectFail: sc.expectFail}
		pan := hx.Try(func() {
			ctx, _ := base.CacheContext()
			ctx = ctx.WithBlockTime(t0).WithBlockHeight(5).WithEventManager(sdk.NewEventManager())
			k := app.CustomGovKeeper
			k.SetProposalRouter(govtypes.NewProposalRouter([]govtypes.ProposalHandler{
				logged{gov.NewApplySetProposalDurationsProposalHandler(k)},
				loggedDyn{logged{spending.NewApplySpendingPoolDistributionProposalHandler(app.SpendingKeeper, k)}, spending.NewApplySpendingPoolDistributionProposalHandler(app.SpendingKeeper, k)},
				loggedDyn{logged{spending.NewApplySpendingPoolWithdrawProposalHandler(app.SpendingKeeper, app.BankKeeper)}, spending.NewApplySpendingPoolWithdrawProposalHandler(app.SpendingKeeper, app.BankKeeper)},
				logged{basket.NewApplyBasketWithdrawSurplusProposalHandler(app.BasketKeeper)},
			}))
			probeKeeper = k
			ms := govkeeper.NewMsgServerImpl(k)
			owner, a, b := sdk.AccAddress("scen_owner__________"), sdk.AccAddress("scen_ben_a__________"), sdk.AccAddress("scen_ben_b__________")
			content := sc.setup(ctx, app, owner, a, b)
			actor := govtypes.NewDefaultActor(owner)
			k.SaveNetworkActor(ctx, actor)
			for _, pm := range []govtypes.PermValue{content.ProposalPermission(), content.VotePermission()} {
				if pm != govtypes.PermZero {
					act, _ := k.GetNetworkActorByAddress(ctx, owner)
					if !act.Permissions.IsWhitelisted(pm) {
						if err := k.AddWhitelistPermission(ctx, act, pm); err != nil {
							panic(err)
						}
					}
				}
			}
			m, err := govtypes.NewMsgSubmitProposal(owner, "t", "d", content)
			if err != nil {
				panic(err)
			}
			resp, err := ms.SubmitProposal(sdk.WrapSDKContext(ctx), m)
			if err != nil {
				panic(fmt.Sprintf("submit: %v", err))
			}
			id := resp.ProposalID
			if _, err := ms.VoteProposal(sdk.WrapSDKContext(ctx), govtypes.NewMsgVoteProposal(id, owner, govtypes.OptionYes, sdk.ZeroDec())); err != nil {
				panic(fmt.Sprintf("vote: %v", err))
			}
			ctx = ctx.WithBlockTime(t0.Add(1000 * time.Second)).WithBlockHeight(20)
			gov.EndBlocker(ctx, k)
			if p, _ := k.GetProposal(ctx, id); p.Result != govtypes.Enactment {
				res.Note = "not passed: " + p.Result.String()
			}
			if sc.expectFail {
				sc.brk(ctx, app, owner, a, b)
			}
			before := dumpStores(ctx, app)
			ctx = ctx.WithBlockTime(t0.Add(2000 * time.Second)).WithBlockHeight(40)
			applyLog = nil
			inEnd = true
			gov.EndBlocker(ctx, k)
			inEnd = false
			after := dumpStores(ctx, app)
			for _, c := range applyLog {
				if c.ID == id {
					res.Calls++
					res.OK = c.OK
				}
			}
			p, _ := k.GetProposal(ctx, id)
			res.Exec, res.Result = p.ExecResult, p.Result.String()
			// differences, except the proposal's own record and its enactment-queue entry
			own := map[string]bool{"customgov/" + string(govkeeper.GetProposalKey(id)): true, "customgov/" + string(govkeeper.EnactmentProposalKey(p)): true}
			keys := map[string]bool{}
			for kk := range before {
				keys[kk] = true
			}
			for kk := range after {
				keys[kk] = true
			}
			for kk := range keys {
				if !own[kk] && !bytes.Equal(before[kk], after[kk]) {
					res.Changed = append(res.Changed, fmt.Sprintf("%q", kk))
				}
			}
			sort.Strings(res.Changed)
			res.Unchanged = len(res.Changed) == 0
			if len(res.Changed) > 6 {
				res.Changed = res.Changed[:6]
			}
			res.Full = sc.full(ctx, app, owner, a, b)
		})
		inEnd = false
		if pan != "" {
			res.Note = "panic: " + pan
		}
		out = append(out, res)
	}
	return out
}
