// c08: runs the REAL gov msg server (SubmitProposal, VoteProposal) and the REAL gov.EndBlocker on
// generated histories (submit / vote / end block / direct state edits, with arbitrary block-time and
// height progressions) and writes the observations for the Coq model and spec checker.
//
// The proposal router is rebuilt from the real handlers, each wrapped by a logger that records the
// handler calls made while EndBlocker runs (id, success) -- router.ApplyProposal itself is the real one.
package main

import (
	"flag"
	"fmt"
	"math/big"
	"os"
	"sort"
	"strconv"
	"strings"
	"time"

	"verif/harness/hx"

	"crypto/sha256"
	"encoding/hex"

	"github.com/KiraCore/sekai/x/gov"
	govkeeper "github.com/KiraCore/sekai/x/gov/keeper"
	govtypes "github.com/KiraCore/sekai/x/gov/types"
	recoverykeeper "github.com/KiraCore/sekai/x/recovery/keeper"
	recoverytypes "github.com/KiraCore/sekai/x/recovery/types"
	"github.com/KiraCore/sekai/x/spending"
	spendingkeeper "github.com/KiraCore/sekai/x/spending/keeper"
	spendingtypes "github.com/KiraCore/sekai/x/spending/types"
	sdk "github.com/cosmos/cosmos-sdk/types"
	minttypes "github.com/cosmos/cosmos-sdk/x/mint/types"
)

// ---------------------------------------------------------------- logging router

type applyRec struct {
	ID uint64
	OK bool
}

var probeKeeper govkeeper.Keeper

var (
	inEnd      bool
	applyLog   []applyRec
	typeNames  = []string{"SetNetworkProperty", "UpsertDataRegistry", "WhitelistAccountPermission", "RemoveWhitelistedAccountPermission", "SetProposalDurations", "UpdateSpendingPool", "X7", "X8"}
	poolNames  = []string{"probe1", "probe2"}
	spk        spendingkeeper.Keeper
	regKeys    = []string{"k1", "k2", "k3", "k4"}
	createPerm = []uint32{12, 10, 4, 35, 31}
	votePerm   = []uint32{13, 11, 5, 36, 32}
)

type logged struct{ h govtypes.ProposalHandler }

func (l logged) ProposalType() string { return l.h.ProposalType() }
func (l logged) Apply(ctx sdk.Context, id uint64, c govtypes.Content, slash sdk.Dec) error {
	// probe for the router's cache discipline: a registry upsert with hash "h9" fails AFTER the real
	// handler wrote, when key "k4" was present before (so the dry run at submission can succeed and
	// the enactment can fail once another proposal has created k4)
	probeFail := false
	if p, ok := c.(*govtypes.UpsertDataRegistryProposal); ok && p.Hash == "h9" {
		_, probeFail = probeKeeper.GetDataRegistryEntry(ctx, "k4")
	}
	err := l.h.Apply(ctx, id, c, slash)
	if err == nil && probeFail {
		err = fmt.Errorf("probe: failing after write")
	}
	if inEnd {
		applyLog = append(applyLog, applyRec{id, err == nil})
	}
	return err
}

// a dynamic-voter handler (voters, quorum and periods come from the handler): the real one, with logged Apply
type loggedDyn struct {
	logged
	d govtypes.DynamicVoterProposalHandler
}

func (l loggedDyn) IsAllowedAddress(ctx sdk.Context, a sdk.AccAddress, c govtypes.Content) bool {
	return l.d.IsAllowedAddress(ctx, a, c)
}
func (l loggedDyn) Quorum(ctx sdk.Context, c govtypes.Content) sdk.Dec { return l.d.Quorum(ctx, c) }
func (l loggedDyn) VotePeriod(ctx sdk.Context, c govtypes.Content) uint64 {
	return l.d.VotePeriod(ctx, c)
}
func (l loggedDyn) VoteEnactment(ctx sdk.Context, c govtypes.Content) uint64 {
	return l.d.VoteEnactment(ctx, c)
}
func (l loggedDyn) AllowedAddresses(ctx sdk.Context, c govtypes.Content) []string {
	return l.d.AllowedAddresses(ctx, c)
}

// ---------------------------------------------------------------- model-side encodings

type content struct {
	Kind string   `json:"kind"` // setprop | registry | whitelist | unwhitelist | durations
	A    int64    `json:"a,omitempty"`
	B    string   `json:"b,omitempty"` // big value as decimal string
	L    [][2]int `json:"l,omitempty"`
	// poolupdate: A = pool name code, Owners, B = quorum (e18), Period, Enact
	Owners []int64 `json:"owners,omitempty"`
	Period int64   `json:"period,omitempty"`
	Enact  int64   `json:"enact,omitempty"`
}

func zlist(xs []int64) string {
	var ys []string
	for _, x := range xs {
		ys = append(ys, strconv.FormatInt(x, 10))
	}
	return hx.List(ys)
}

func (c content) coq() string {
	switch c.Kind {
	case "setprop":
		return fmt.Sprintf("(CSetProp %d %s)", c.A, zs(c.B))
	case "registry":
		return fmt.Sprintf("(CRegistry %d %s)", c.A, zs(c.B))
	case "whitelist":
		return fmt.Sprintf("(CWhitelist %d %s)", c.A, zs(c.B))
	case "unwhitelist":
		return fmt.Sprintf("(CUnwhitelist %d %s)", c.A, zs(c.B))
	case "poolupdate":
		return fmt.Sprintf("(CPoolUpdate %d %s %s %d %d)", c.A, zlist(c.Owners), zs(c.B), c.Period, c.Enact)
	default:
		var xs []string
		for _, e := range c.L {
			xs = append(xs, fmt.Sprintf("(%d, %d)", e[0], e[1]))
		}
		return "(CDurations " + hx.List(xs) + ")"
	}
}
func (c content) typeIx() int {
	switch c.Kind {
	case "setprop":
		return 0
	case "registry":
		return 1
	case "whitelist":
		return 2
	case "unwhitelist":
		return 3
	}
	return 4
}

func zs(s string) string {
	if strings.HasPrefix(s, "-") {
		return "(" + s + ")"
	}
	return s
}

func addr(i int64) sdk.AccAddress {
	return sdk.AccAddress(fmt.Sprintf("actor%02d_____________", i)[:20])
}

func npValue(pid int64, v string) govtypes.NetworkPropertyValue {
	if pid == 2 {
		bi, _ := new(big.Int).SetString(v, 10)
		return govtypes.NetworkPropertyValue{StrValue: sdk.NewDecFromBigIntWithPrec(bi, 18).String()}
	}
	u, _ := strconv.ParseUint(v, 10, 64)
	return govtypes.NetworkPropertyValue{Value: u}
}

func (c content) real() govtypes.Content {
	switch c.Kind {
	case "setprop":
		return govtypes.NewSetNetworkPropertyProposal(govtypes.NetworkProperty(c.A), npValue(c.A, c.B))
	case "registry":
		return govtypes.NewUpsertDataRegistryProposal(regKeys[c.A-1], "h"+c.B, "ref", "enc", 1)
	case "whitelist":
		p, _ := strconv.Atoi(c.B)
		return govtypes.NewWhitelistAccountPermissionProposal(addr(c.A), govtypes.PermValue(p))
	case "unwhitelist":
		p, _ := strconv.Atoi(c.B)
		return govtypes.NewRemoveWhitelistedAccountPermissionProposal(addr(c.A), govtypes.PermValue(p))
	case "poolupdate":
		bi, _ := new(big.Int).SetString(c.B, 10)
		var owners []string
		for _, o := range c.Owners {
			owners = append(owners, addr(o).String())
		}
		return spendingtypes.NewUpdateSpendingPoolProposal(poolNames[c.A-1], 0, 0, sdk.DecCoins{}, sdk.NewDecFromBigIntWithPrec(bi, 18),
			uint64(c.Period), uint64(c.Enact), spendingtypes.PermInfo{OwnerAccounts: owners}, spendingtypes.WeightedPermInfo{}, false, 0)
	default:
		var ts []string
		var ds []uint64
		for _, e := range c.L {
			ts = append(ts, typeNames[e[0]-1])
			ds = append(ds, uint64(e[1]))
		}
		return govtypes.NewSetProposalDurationsProposal(ts, ds)
	}
}

type op struct {
	Kind    string     `json:"op"` // submit | vote | end | ext
	T       int64      `json:"time"`
	H       int64      `json:"height"`
	Who     int64      `json:"who,omitempty"`
	Content *content   `json:"content,omitempty"`
	ID      int64      `json:"id,omitempty"`
	Opt     int64      `json:"option,omitempty"`
	Ext     string     `json:"ext,omitempty"` // whitelist | unwhitelist | active | veto | np | dur
	A       int64      `json:"a,omitempty"`
	B       string     `json:"b,omitempty"`
	Flag    bool       `json:"flag,omitempty"`
	Res     string     `json:"result"`
	Err     string     `json:"err,omitempty"`
	Applied []applyRec `json:"applied,omitempty"`
	Props   string     `json:"proposals,omitempty"`
}

func (o op) coqOp() string {
	switch o.Kind {
	case "submit":
		return fmt.Sprintf("HSubmit %d %s", o.Who, o.Content.coq())
	case "vote":
		return fmt.Sprintf("HVote %d %d %d", o.Who, o.ID, o.Opt)
	case "end":
		return "HEnd"
	case "rotate":
		return fmt.Sprintf("HRotate %d %d", o.Who, o.A)
	}
	switch o.Ext {
	case "whitelist":
		return fmt.Sprintf("HExt (XWhitelist %d %s)", o.Who, o.B)
	case "unwhitelist":
		return fmt.Sprintf("HExt (XUnwhitelist %d %s)", o.Who, o.B)
	case "active":
		return fmt.Sprintf("HExt (XSetActive %d %s)", o.Who, hx.B(o.Flag))
	case "veto":
		return fmt.Sprintf("HExt (XSetVeto %d %s)", o.Who, hx.B(o.Flag))
	case "np":
		return fmt.Sprintf("HExt (XSetNP %d %s)", o.A, zs(o.B))
	case "blacklist":
		return fmt.Sprintf("HExt (XBlacklist %d %s)", o.Who, o.B)
	case "unblacklist":
		return fmt.Sprintf("HExt (XUnblacklist %d %s)", o.Who, o.B)
	case "assignrole":
		return fmt.Sprintf("HExt (XAssignRole %d %d)", o.Who, o.A)
	case "unassignrole":
		return fmt.Sprintf("HExt (XUnassignRole %d %d)", o.Who, o.A)
	case "rolewl":
		return fmt.Sprintf("HExt (XRoleWl %d %s %s)", o.A, o.B, hx.B(o.Flag))
	case "rolebl":
		return fmt.Sprintf("HExt (XRoleBl %d %s %s)", o.A, o.B, hx.B(o.Flag))
	}
	return fmt.Sprintf("HExt (XSetDur %d %s)", o.A, o.B)
}

// ---------------------------------------------------------------- observers

const sec = int64(1000000000)
const nActors = 13 // observers look at actor00..actor12
const nRand = 7    // the random stream uses at most actor00..actor06

// the roles the harness uses: 1 = sudo (genesis; whitelists every proposal / vote permission), 3 = "probe" (created per run)
var roleIDs = []uint64{1, 3}
var harnessPerms = map[uint32]bool{4: true, 5: true, 10: true, 11: true, 12: true, 13: true, 31: true, 32: true, 35: true, 36: true}

// sorted permission list; role permission lists are restricted to the permissions the harness uses
func permList(ps []uint32, restrict bool) string {
	l := append([]uint32{}, ps...)
	sort.Slice(l, func(x, y int) bool { return l[x] < l[y] })
	var xs []string
	for _, p := range l {
		if !restrict || harnessPerms[p] {
			xs = append(xs, strconv.Itoa(int(p)))
		}
	}
	return hx.List(xs)
}
func roleList(rs []uint64) string {
	l := append([]uint64{}, rs...)
	sort.Slice(l, func(x, y int) bool { return l[x] < l[y] })
	var xs []string
	for _, r := range l {
		xs = append(xs, strconv.FormatUint(r, 10))
	}
	return hx.List(xs)
}

func worldCoq(ctx sdk.Context, k govkeeper.Keeper) string {
	p := k.GetNetworkProperties(ctx)
	np := fmt.Sprintf("(mkNP %d %d %s %d %d %d %d)", p.MinTxFee, p.MaxTxFee, hx.ZBig(p.VoteQuorum.BigInt()), p.MinimumProposalEndTime,
		p.ProposalEnactmentTime, p.MinProposalEndBlocks, p.MinProposalEnactmentBlocks)
	var as []string
	for i := int64(0); i < nActors; i++ {
		a, found := k.GetNetworkActorByAddress(ctx, addr(i))
		if !found {
			continue
		}
		wl := append([]uint32{}, a.Permissions.Whitelist...)
		sort.Slice(wl, func(x, y int) bool { return wl[x] < wl[y] })
		var ws []string
		for _, w := range wl {
			ws = append(ws, strconv.Itoa(int(w)))
		}
		as = append(as, fmt.Sprintf("(%d, mkA %s %s %s %s %s)", i, hx.B(a.IsActive()), hx.B(a.CanVote(govtypes.OptionNoWithVeto)), hx.List(ws),
			permList(a.Permissions.Blacklist, false), roleList(a.Roles)))
	}
	var ds, rs []string
	for _, t := range typeNames {
		ds = append(ds, hx.ZU(k.GetProposalDuration(ctx, t)))
	}
	for _, key := range regKeys {
		e, found := k.GetDataRegistryEntry(ctx, key)
		if !found {
			rs = append(rs, "0")
		} else {
			rs = append(rs, strings.TrimPrefix(e.Hash, "h"))
		}
	}
	pool := "None"
	if pl := spk.GetSpendingPool(ctx, poolNames[0]); pl != nil {
		var os []int64
		for _, o := range pl.Owners.OwnerAccounts {
			who := int64(-1)
			for i := int64(0); i < nActors; i++ {
				if addr(i).String() == o {
					who = i
				}
			}
			os = append(os, who)
		}
		pool = fmt.Sprintf("(Some (mkPool %s %s %d %d))", zlist(os), hx.ZBig(pl.VoteQuorum.BigInt()), pl.VotePeriod, pl.VoteEnactment)
	}
	var ros []string
	for _, rid := range roleIDs {
		if pm, found := k.GetPermissionsForRole(ctx, rid); found {
			ros = append(ros, fmt.Sprintf("(%d, mkRole %s %s)", rid, permList(pm.Whitelist, true), permList(pm.Blacklist, true)))
		}
	}
	return fmt.Sprintf("(mkW %s %s %s %s %s %s)", np, hx.List(as), hx.List(ds), hx.List(rs), pool, hx.List(ros))
}

var farFuture = time.Unix(1<<40, 0).UTC()

func queueIDs(it sdk.Iterator) map[uint64]bool {
	defer it.Close()
	m := map[uint64]bool{}
	for ; it.Valid(); it.Next() {
		m[govkeeper.BytesToProposalID(it.Value())] = true
	}
	return m
}

func execCode(s string) int {
	switch s {
	case "":
		return 0
	case "executed successfully":
		return 1
	case "execution failed":
		return 2
	}
	return 9
}

func propsCoq(ctx sdk.Context, k govkeeper.Keeper) string {
	ps, _ := k.GetProposals(ctx)
	act := queueIDs(k.GetActiveProposalsWithFinishedVotingEndTimeIterator(ctx, farFuture))
	ena := queueIDs(k.GetEnactmentProposalsWithFinishedEnactmentEndTimeIterator(ctx, farFuture))
	sort.Slice(ps, func(i, j int) bool { return ps[i].ProposalId < ps[j].ProposalId })
	var xs []string
	for _, p := range ps {
		xs = append(xs, fmt.Sprintf("(%d, (%d, %d), (%s, %s))", p.ProposalId, int(p.Result), execCode(p.ExecResult), hx.B(act[p.ProposalId]), hx.B(ena[p.ProposalId])))
	}
	return hx.List(xs)
}

func votesCoq(ctx sdk.Context, k govkeeper.Keeper, id uint64) string {
	vs := k.GetProposalVotes(ctx, id)
	type vv struct{ who, opt int64 }
	var l []vv
	for _, v := range vs {
		who := int64(-1)
		for i := int64(0); i < nActors; i++ {
			if addr(i).Equals(v.Voter) {
				who = i
			}
		}
		l = append(l, vv{who, int64(v.Option)})
	}
	sort.Slice(l, func(i, j int) bool { return l[i].who < l[j].who })
	var xs []string
	for _, v := range l {
		xs = append(xs, fmt.Sprintf("(%d, %d)", v.who, v.opt))
	}
	return hx.List(xs)
}

// ---------------------------------------------------------------- main

type jhist struct {
	Seed  uint64      `json:"seed"`
	Index int         `json:"index"`
	Kind  string      `json:"kind"`
	Spec  *bspec      `json:"boundary,omitempty"`
	Scen  *scenResult `json:"scenario,omitempty"`
	Dyn   *dynResult  `json:"dynamic_timing,omitempty"`
	World string      `json:"initial_world"`
	Ops   []op        `json:"ops"`
}

// ---------------------------------------------------------------- boundary stream
// One proposal, an electorate of N holders of the vote permission of which the first Capable ones may
// veto, Votes votes cast: the first Veto voters vote no-with-veto, the last Yes voters vote yes, the
// rest alternate no / abstain.  Enumerated at and around every comparison of the tally and quorum.
type bspec struct {
	N       int    `json:"electorate"`
	Capable int    `json:"veto_capable"`
	Quorum  string `json:"quorum_e18"`
	Votes   int    `json:"votes"`
	Yes     int    `json:"yes"`
	Veto    int    `json:"veto"`
	Dynamic bool   `json:"dynamic_voter_proposal,omitempty"` // the electorate are the owners of a spending pool
	ShiftNs int64  `json:"block_shift_ns"`                   // blocks at voting end / enactment end shifted by this many nanoseconds
	Rotate  int    `json:"rotate_last_voter,omitempty"`      // 1: the last voter rotates its address (x/recovery) between vote and tally; 2: and votes again afterwards
}

func around(x, lo, hi int, extra ...int) []int {
	seen := map[int]bool{}
	var out []int
	for _, v := range append([]int{x - 1, x, x + 1}, extra...) {
		if v >= lo && v <= hi && !seen[v] {
			seen[v] = true
			out = append(out, v)
		}
	}
	return out
}

func randPool(r *hx.Rng, na int, quorums []string, secs []int64) *content {
	m := 1 + r.Intn(4)
	if r.Chance(5) {
		m = 0
	}
	var owners []int64
	for i := 0; i < m; i++ {
		owners = append(owners, int64(r.Intn(na+1)))
	}
	name := int64(1)
	if r.Chance(5) {
		name = 2
	}
	q := quorums[r.Intn(len(quorums))]
	if r.Chance(6) { // outside [0,1]: rejected by ValidateBasic as a proposal; as a directly created pool it makes every tally inconsistent
		q = []string{"1500000000000000000", "-100000000000000000", "1000000000000000001"}[r.Intn(3)]
	}
	return &content{Kind: "poolupdate", A: name, Owners: owners, B: q, Period: secs[r.Intn(len(secs))], Enact: secs[r.Intn(len(secs))]}
}

func boundarySpecs() (core, all []bspec) {
	qs := []string{"0", "333333333333333333", "500000000000000000", "1000000000000000000"}
	e18 := new(big.Int).Exp(big.NewInt(10), big.NewInt(18), nil)
	for n := 1; n <= 12; n++ {
		for c := 0; c <= n; c++ {
			for _, v := range around(c/2, 0, n, (c+1)/2, 0) {
				for _, q := range qs {
					qi, _ := new(big.Int).SetString(q, 10)
					num := new(big.Int).Mul(qi, big.NewInt(int64(n)))
					need := new(big.Int).Div(new(big.Int).Add(num, new(big.Int).Sub(e18, big.NewInt(1))), e18) // ceil(q*n)
					for _, m := range around(int(need.Int64()), v, n, n) {
						if m == int(need.Int64())+1 && m != n {
							continue
						}
						for _, y := range around(m/2, 0, m-v, (m+1)/2, m-v) {
							sp := bspec{N: n, Capable: c, Quorum: q, Votes: m, Yes: y, Veto: v}
							all = append(all, sp)
							if n <= 11 && m >= 1 && (y == m/2 || y == (m+1)/2) {
								for rot := 1; rot <= 2; rot++ {
									rsp := sp
									rsp.Rotate = rot
									all = append(all, rsp)
								}
							}
							if n <= 6 {
								dsp := sp
								dsp.Dynamic = true
								all = append(all, dsp)
								if c >= 2 && c < n && c%2 == 0 && v == c/2 && m == n && y == m-v && q == qs[2] {
									core = append(core, dsp)
								}
							}
							// core: exactly half of an even veto-capable subset vetoes while yes has the majority,
							// and the two neighbours of that point
							if c >= 2 && c < n && c%2 == 0 && v == c/2 && m == n && y == m-v && q == qs[2] {
								core = append(core, sp)
							}
						}
					}
				}
			}
		}
	}
	// core: a tie that a duplicated yes vote would turn into a majority; the yes voter rotates its address
	for _, m := range []int{2, 4, 6} {
		for rot := 1; rot <= 2; rot++ {
			core = append(core, bspec{N: m + 1, Capable: m + 1, Quorum: qs[1], Votes: m, Yes: m / 2, Veto: 0, Rotate: rot})
		}
	}
	return core, all
}

func main() {
	outDir := flag.String("out", ".", "output directory")
	n := flag.Int("n", 300, "number of random histories")
	nb := flag.Int("nb", 200, "number of boundary histories (core set first, then a seeded sample; -1 = all)")
	flag.Parse()
	out := hx.Out{Dir: *outDir}
	seed := hx.Seed()
	rng := hx.NewRng(seed)
	dist := hx.Counter{}

	app := hx.NewApp()
	base := hx.Ctx(app, 1, 1000)
	k := app.CustomGovKeeper
	probeKeeper = k
	k.SetProposalRouter(govtypes.NewProposalRouter([]govtypes.ProposalHandler{
		logged{gov.NewApplySetNetworkPropertyProposalHandler(k)},
		logged{gov.NewApplyUpsertDataRegistryProposalHandler(k)},
		logged{gov.NewApplyWhitelistAccountPermissionProposalHandler(k)},
		logged{gov.NewApplyRemoveWhitelistedAccountPermissionProposalHandler(k)},
		logged{gov.NewApplySetProposalDurationsProposalHandler(k)},
		loggedDyn{logged{spending.NewApplyUpdateSpendingPoolProposalHandler(app.SpendingKeeper)}, spending.NewApplyUpdateSpendingPoolProposalHandler(app.SpendingKeeper)},
	}))
	spk = app.SpendingKeeper
	ms := govkeeper.NewMsgServerImpl(k)
	rms := recoverykeeper.NewMsgServerImpl(app.RecoveryKeeper)
	// the generated histories assume that nobody but the harness actors holds a vote permission
	for _, p := range votePerm {
		if l := k.GetNetworkActorsByAbsoluteWhitelistPermission(base, govtypes.PermValue(p)); len(l) != 0 {
			fmt.Fprintf(os.Stderr, "c08: genesis already has %d holders of permission %d\n", len(l), p)
			os.Exit(2)
		}
	}
	if ps, _ := k.GetProposals(base); len(ps) != 0 || k.GetNextProposalID(base) != 1 {
		fmt.Fprintln(os.Stderr, "c08: genesis already has proposals")
		os.Exit(2)
	}

	quorums := []string{"0", "10000000000000000", "250000000000000000", "330000000000000000", "333333333333333333", "333333333333333334",
		"340000000000000000", "500000000000000000", "510000000000000000", "666666666666666667", "750000000000000000", "1000000000000000000"}
	badQuorums := []string{"1500000000000000000", "-100000000000000000", "1000000000000000001"}
	secs := []int64{1, 3, 10, 10, 60, 300}
	blocks := []int64{1, 1, 2, 3, 5}
	durVals := []int{0, 1, 2, 5, 10, 60, 100, 300, 400, 1000}
	perms := []uint32{4, 5, 10, 11, 12, 13, 31, 32, 35, 36}

	var lines []string // one Coq case per entry, parallel to js
	var js []jhist

	core, all := boundarySpecs()
	specs := core
	if *nb < 0 {
		specs = append(specs, all...)
	} else {
		br := rng.Fork()
		for len(specs) < *nb {
			specs = append(specs, all[br.Intn(len(all))])
		}
		if *nb < len(specs) {
			specs = specs[:*nb]
		}
	}

	for hi := 0; hi < *n+len(specs); hi++ {
		r := rng.Fork()
		var spec *bspec
		if hi >= *n {
			spec = &specs[hi-*n]
		}
		hctx, _ := base.CacheContext()
		// ---- initial configuration
		p := k.GetNetworkProperties(hctx)
		q, _ := new(big.Int).SetString(quorums[r.Intn(len(quorums))], 10)
		p.VoteQuorum = sdk.NewDecFromBigIntWithPrec(q, 18)
		p.MinimumProposalEndTime = uint64(secs[r.Intn(len(secs))])
		p.ProposalEnactmentTime = uint64(secs[r.Intn(len(secs))])
		p.MinProposalEndBlocks = uint64(blocks[r.Intn(len(blocks))])
		p.MinProposalEnactmentBlocks = uint64(blocks[r.Intn(len(blocks))])
		if spec != nil {
			q, _ = new(big.Int).SetString(spec.Quorum, 10)
			p.VoteQuorum = sdk.NewDecFromBigIntWithPrec(q, 18)
			p.MinimumProposalEndTime, p.ProposalEnactmentTime, p.MinProposalEndBlocks, p.MinProposalEnactmentBlocks = 1, 1, 1, 1
		}
		if err := k.SetNetworkProperties(hctx, p); err != nil {
			panic(err)
		}
		na := 1 + r.Intn(nRand-1)
		small := r.Chance(35) // few voters: ties and exact thresholds are frequent
		if small {
			na = 1 + r.Intn(3)
		}
		if spec != nil {
			na = spec.N
		}
		// the electorate is NOT set up directly: it is built below by a prelude of real permission / role edits
		if rid := k.CreateRole(hctx, "probe", "probe role"); rid != 3 {
			panic(fmt.Sprintf("probe role id %d", rid))
		}
		if spec == nil && r.Chance(30) {
			_ = k.SetProposalDuration(hctx, typeNames[r.Intn(5)], uint64(durVals[5+r.Intn(5)]))
		}
		hasPool := spec == nil && r.Chance(55) || spec != nil && spec.Dynamic
		if hasPool {
			pc := randPool(r, na, quorums, secs)
			if spec != nil {
				pc = &content{Kind: "poolupdate", A: 1, B: spec.Quorum, Period: 1, Enact: 1}
				for i := 0; i < spec.N; i++ {
					pc.Owners = append(pc.Owners, int64(i))
				}
			}
			pr := pc.real().(*spendingtypes.UpdateSpendingPoolProposal)
			if err := spk.CreateSpendingPool(hctx, spendingtypes.SpendingPool{Name: poolNames[0], VoteQuorum: pr.VoteQuorum, VotePeriod: pr.VotePeriod,
				VoteEnactment: pr.VoteEnactment, Owners: &pr.Owners, Beneficiaries: &pr.Beneficiaries, Balances: sdk.Coins{}}); err != nil {
				panic(err)
			}
		}
		w0 := worldCoq(hctx, k)
		lastWorld := w0
		jh := jhist{Seed: seed, Index: hi, World: w0, Kind: "random", Spec: spec}
		if spec != nil {
			jh.Kind = "boundary"
		}

		// block times in NANOSECONDS
		t, h := int64(1000+r.Intn(50))*sec+[]int64{0, 0, 1, 500000000, 999999999}[r.Intn(5)], int64(2+r.Intn(5))
		nextID := int64(1)
		var steps []string
		voted := map[int64][]int64{}
		lastRes := map[uint64]govtypes.VoteResult{}
		var people []int64 // current address (actor index) of each person; a rotation renames a person
		for i := 0; i < na; i++ {
			people = append(people, int64(i))
		}
		nextFresh := int64(nRand)
		if spec != nil {
			nextFresh = 12
		}
		pick := func() int64 { return people[r.Intn(len(people))] }

		doOp := func(o op) {
			c, write := hctx.CacheContext()
			c = c.WithBlockTime(time.Unix(0, o.T).UTC()).WithBlockHeight(o.H).WithEventManager(sdk.NewEventManager())
			var err error
			newID := int64(0)
			applyLog = nil
			pan := hx.Try(func() {
				switch o.Kind {
				case "submit":
					var m *govtypes.MsgSubmitProposal
					m, err = govtypes.NewMsgSubmitProposal(addr(o.Who), "t", "d", o.Content.real())
					if err == nil {
						err = m.ValidateBasic()
					}
					if err == nil {
						var resp *govtypes.MsgSubmitProposalResponse
						resp, err = ms.SubmitProposal(sdk.WrapSDKContext(c), m)
						if err == nil {
							newID = int64(resp.ProposalID)
						}
					}
				case "vote":
					m := govtypes.NewMsgVoteProposal(uint64(o.ID), addr(o.Who), govtypes.VoteOption(o.Opt), sdk.ZeroDec())
					err = m.ValidateBasic()
					if err == nil {
						_, err = ms.VoteProposal(sdk.WrapSDKContext(c), m)
					}
				case "end":
					inEnd = true
					gov.EndBlocker(c, k)
				case "rotate":
					// the REAL x/recovery MsgRotateRecoveryAddress; prerequisites (auth account, recovery secret,
					// funded fee payer) are created here so that the rotation itself is admissible
					old, nw := addr(o.Who), addr(o.A)
					if app.AccountKeeper.GetAccount(c, old) == nil {
						app.AccountKeeper.SetAccount(c, app.AccountKeeper.NewAccountWithAddress(c, old))
					}
					h := sha256.Sum256([]byte{0xaa})
					app.RecoveryKeeper.SetRecoveryRecord(c, recoverytypes.RecoveryRecord{Address: old.String(), Challenge: hex.EncodeToString(h[:])})
					payer := sdk.AccAddress("feepayer____________")
					if err = app.BankKeeper.MintCoins(c, minttypes.ModuleName, recoverykeeper.RecoveryFee); err == nil {
						err = app.BankKeeper.SendCoinsFromModuleToAccount(c, minttypes.ModuleName, payer, recoverykeeper.RecoveryFee)
					}
					if err == nil {
						_, err = rms.RotateRecoveryAddress(sdk.WrapSDKContext(c), &recoverytypes.MsgRotateRecoveryAddress{
							FeePayer: payer.String(), Address: old.String(), Recovery: nw.String(), Proof: "aa"})
					}
				case "ext":
					switch o.Ext {
					case "whitelist", "unwhitelist":
						a, found := k.GetNetworkActorByAddress(c, addr(o.Who))
						if !found {
							a = govtypes.NewDefaultActor(addr(o.Who))
						}
						pm, _ := strconv.Atoi(o.B)
						if o.Ext == "whitelist" {
							_ = k.AddWhitelistPermission(c, a, govtypes.PermValue(pm))
						} else if found {
							_ = k.RemoveWhitelistedPermission(c, a, govtypes.PermValue(pm))
						}
					case "active":
						if a, found := k.GetNetworkActorByAddress(c, addr(o.Who)); found {
							a.Status = govtypes.Inactive
							if o.Flag {
								a.Status = govtypes.Active
							}
							k.SaveNetworkActor(c, a)
						}
					case "veto":
						if a, found := k.GetNetworkActorByAddress(c, addr(o.Who)); found {
							a.Votes = []govtypes.VoteOption{govtypes.OptionYes, govtypes.OptionNo, govtypes.OptionAbstain}
							if o.Flag {
								a.Votes = append(a.Votes, govtypes.OptionNoWithVeto)
							}
							k.SaveNetworkActor(c, a)
						}
					case "blacklist", "unblacklist":
						a, found := k.GetNetworkActorByAddress(c, addr(o.Who))
						if !found {
							a = govtypes.NewDefaultActor(addr(o.Who))
						}
						pm, _ := strconv.Atoi(o.B)
						if o.Ext == "blacklist" {
							_ = k.AddBlacklistPermission(c, a, govtypes.PermValue(pm))
						} else if found {
							_ = k.RemoveBlacklistedPermission(c, a, govtypes.PermValue(pm))
						}
					case "assignrole":
						_ = k.AssignRoleToAccount(c, addr(o.Who), uint64(o.A))
					case "unassignrole":
						_ = k.UnassignRoleFromAccount(c, addr(o.Who), uint64(o.A))
					case "rolewl", "rolebl":
						pm, _ := strconv.Atoi(o.B)
						switch {
						case o.Ext == "rolewl" && o.Flag:
							_ = k.WhitelistRolePermission(c, uint64(o.A), govtypes.PermValue(pm))
						case o.Ext == "rolewl":
							_ = k.RemoveWhitelistRolePermission(c, uint64(o.A), govtypes.PermValue(pm))
						case o.Flag:
							_ = k.BlacklistRolePermission(c, uint64(o.A), govtypes.PermValue(pm))
						default:
							_ = k.RemoveBlacklistRolePermission(c, uint64(o.A), govtypes.PermValue(pm))
						}
					case "np":
						_ = k.SetNetworkProperty(c, govtypes.NetworkProperty(o.A), npValue(o.A, o.B))
					case "dur":
						d, _ := strconv.ParseUint(o.B, 10, 64)
						_ = k.SetProposalDuration(c, typeNames[o.A-1], d)
					}
				}
			})
			inEnd = false
			res := 0
			var evs []string
			applied := applyLog
			switch {
			case pan != "":
				res, o.Res, o.Err = 2, "panic", pan
				applied = nil
			case err != nil:
				res, o.Res, o.Err = 1, "rejected", err.Error()
				applied = nil
			default:
				o.Res = "ok"
				for _, e := range c.EventManager().Events() {
					kind := 0
					if e.Type == govtypes.EventTypeAddToEnactment {
						kind = 1
					} else if e.Type == govtypes.EventTypeRemoveEnactment {
						kind = 2
					}
					if kind != 0 {
						for _, a := range e.Attributes {
							if a.Key == govtypes.AttributeKeyProposalId {
								evs = append(evs, fmt.Sprintf("(%d, %s)", kind, a.Value))
							}
						}
					}
				}
				write()
			}
			if newID != 0 {
				nextID = newID + 1
			}
			var aps []string
			for _, a := range applied {
				aps = append(aps, fmt.Sprintf("(%d, %s)", a.ID, hx.B(a.OK)))
			}
			w := worldCoq(hctx, k)
			wopt := "None"
			if w != lastWorld {
				wopt = "(Some " + w + ")"
				lastWorld = w
			}
			votes := "[]"
			if o.Kind == "vote" {
				votes = votesCoq(hctx, k, uint64(o.ID))
				if res == 0 {
					voted[o.ID] = append(voted[o.ID], o.Who)
				}
			}
			pc := propsCoq(hctx, k)
			// stored votes of the proposals finalised by this end block; after a rotation: of every proposal
			var fvs, els []string
			if ps, _ := k.GetProposals(hctx); res == 0 && (o.Kind == "end" || o.Kind == "rotate") {
				sort.Slice(ps, func(i, j int) bool { return ps[i].ProposalId < ps[j].ProposalId })
				for _, pr := range ps {
					was, seen := lastRes[pr.ProposalId]
					if o.Kind == "rotate" || (seen && was == govtypes.Pending || !seen) && pr.Result != govtypes.Pending {
						fvs = append(fvs, fmt.Sprintf("(%d, %s)", pr.ProposalId, votesCoq(hctx, k, pr.ProposalId)))
						if vp := pr.GetContent().VotePermission(); o.Kind == "end" && vp != govtypes.PermZero {
							// the voters the code enumerates for the tally of this proposal
							var ids []int
							for _, a := range k.GetNetworkActorsByAbsoluteWhitelistPermission(hctx, vp) {
								who := -1
								for i := int64(0); i < nActors; i++ {
									if addr(i).Equals(a.Address) {
										who = int(i)
									}
								}
								ids = append(ids, who)
							}
							sort.Ints(ids)
							var xs []string
							for _, x := range ids {
								xs = append(xs, strconv.Itoa(x))
							}
							els = append(els, fmt.Sprintf("(%d, %s)", pr.ProposalId, hx.List(xs)))
						}
					}
				}
			}
			if ps, _ := k.GetProposals(hctx); true {
				for _, pr := range ps {
					lastRes[pr.ProposalId] = pr.Result
				}
			}
			if o.Kind == "rotate" && res == 0 {
				for i := range people {
					if people[i] == o.Who {
						people[i] = o.A
					}
				}
				for id := range voted {
					for i := range voted[id] {
						if voted[id][i] == o.Who {
							voted[id][i] = o.A
						}
					}
				}
			}
			steps = append(steps, fmt.Sprintf("(%d, %d, %s, mkO %d %d %s %s %s %s %s %s %s)", o.T, o.H, o.coqOp(), res, newID, hx.List(aps), hx.List(evs), pc, votes, hx.List(fvs), hx.List(els), wopt))
			o.Applied, o.Props = applied, pc
			jh.Ops = append(jh.Ops, o)
			dist.Inc(o.Kind + ":" + o.Res)
			for _, a := range applied {
				dist.Inc("handler_call:" + map[bool]string{true: "ok", false: "failed"}[a.OK])
			}
		}

		randContent := func() *content {
			if hasPool && r.Chance(30) || r.Chance(2) {
				return randPool(r, na, quorums, secs)
			}
			switch r.Intn(10) {
			case 0, 1, 2:
				pid := int64(r.Intn(5))
				if r.Chance(6) {
					pid = 5 + int64(r.Intn(2)) // not proposable (ValidateBasic)
				}
				var v string
				switch pid {
				case 0:
					v = []string{"1", "100", "200", "5000", "2000000", "0"}[r.Intn(6)]
				case 1:
					v = []string{"1000000", "150", "1000", "50", "0", "3000000"}[r.Intn(6)]
				case 2:
					if r.Chance(15) {
						v = badQuorums[r.Intn(len(badQuorums))]
					} else {
						v = quorums[r.Intn(len(quorums))]
					}
				case 3, 4:
					v = []string{"1", "2", "10", "60", "300", "0", "500"}[r.Intn(7)]
				default:
					v = []string{"1", "2", "3"}[r.Intn(3)]
				}
				return &content{Kind: "setprop", A: pid, B: v}
			case 3, 4, 5:
				hash := 1 + r.Intn(9)
				if r.Chance(45) {
					hash = 9
				}
				key := 1 + r.Intn(4)
				if r.Chance(35) {
					key = 4
				}
				return &content{Kind: "registry", A: int64(key), B: strconv.Itoa(hash)}
			case 6:
				return &content{Kind: "whitelist", A: int64(r.Intn(nRand)), B: strconv.Itoa(int(perms[r.Intn(len(perms))]))}
			case 7:
				return &content{Kind: "unwhitelist", A: int64(r.Intn(nRand)), B: strconv.Itoa(int(perms[r.Intn(len(perms))]))}
			default:
				m := 1 + r.Intn(3)
				if r.Chance(5) {
					m = 0
				}
				var l [][2]int
				for i := 0; i < m; i++ {
					l = append(l, [2]int{1 + r.Intn(8), durVals[r.Intn(len(durVals))]})
				}
				return &content{Kind: "durations", L: l}
			}
		}

		// ---- prelude: the electorate is built through real edits (individual whitelist, role assignment,
		// overlap of both followed by removing one source, blacklists, status / vote-option changes)
		ext := func(name string, who, a int64, b string, flag bool) {
			doOp(op{Kind: "ext", Ext: name, T: t, H: h, Who: who, A: a, B: b, Flag: flag})
		}
		if spec != nil {
			for i := int64(0); i < int64(spec.N); i++ {
				switch (int(i) + hi) % 4 {
				case 0:
					ext("whitelist", i, 0, "11", false)
				case 1:
					ext("assignrole", i, 1, "", false)
				case 2: // holds the permission both ways, then loses the role: still a holder
					ext("whitelist", i, 0, "11", false)
					ext("assignrole", i, 1, "", false)
					ext("unassignrole", i, 1, "", false)
				default: // holds it both ways, then loses the individual entry: still a holder through the role
					ext("assignrole", i, 1, "", false)
					ext("whitelist", i, 0, "11", false)
					ext("unwhitelist", i, 0, "11", false)
				}
				if i == 0 && (hi%4 == 0 || hi%4 == 2) {
					ext("whitelist", 0, 0, "10", false)
				}
				if int(i) >= spec.Capable {
					ext("veto", i, 0, "", false)
				}
			}
		} else {
			for _, pm := range perms { // the probe role whitelists a random subset
				if r.Chance(45) {
					ext("rolewl", 0, 3, strconv.Itoa(int(pm)), true)
				} else if r.Chance(6) {
					ext("rolebl", 0, 3, strconv.Itoa(int(pm)), true)
				}
			}
			for i := int64(0); i < int64(na); i++ {
				mode := r.Intn(6)
				if mode != 1 {
					for _, pm := range perms {
						if r.Chance(85) {
							ext("whitelist", i, 0, strconv.Itoa(int(pm)), false)
						}
					}
				}
				switch mode {
				case 1:
					ext("assignrole", i, 1, "", false)
				case 2:
					ext("assignrole", i, 1, "", false)
					if r.Chance(60) {
						ext("unassignrole", i, 1, "", false)
					}
				case 3:
					ext("assignrole", i, 3, "", false)
					if r.Chance(50) {
						ext("unwhitelist", i, 0, strconv.Itoa(int(perms[r.Intn(len(perms))])), false)
					}
					if r.Chance(30) {
						ext("unassignrole", i, 3, "", false)
					}
				case 4:
					ext("blacklist", i, 0, strconv.Itoa(int(perms[r.Intn(len(perms))])), false)
				}
				if r.Chance(35) {
					ext("veto", i, 0, "", false)
				}
				if r.Chance(5) {
					ext("active", i, 0, "", false)
				}
			}
		}

		if spec != nil {
			bc := &content{Kind: "registry", A: 1, B: "5"}
			if spec.Dynamic {
				bc = &content{Kind: "poolupdate", A: 1, Owners: []int64{0, 1}, B: "510000000000000000", Period: 2, Enact: 3}
			}
			doOp(op{Kind: "submit", T: t, H: h, Who: 0, Content: bc})
			for i := 0; i < spec.Votes; i++ {
				opt := int64(3 - int64(i%2)) // no / abstain
				if i < spec.Veto {
					opt = 4
				} else if i >= spec.Votes-spec.Yes {
					opt = 1
				}
				doOp(op{Kind: "vote", T: t, H: h, Who: int64(i), ID: 1, Opt: opt})
			}
			if spec.Rotate > 0 {
				last := int64(spec.Votes - 1)
				opt := int64(3 - int64(last%2))
				if int(last) < spec.Veto {
					opt = 4
				} else if int(last) >= spec.Votes-spec.Yes {
					opt = 1
				}
				doOp(op{Kind: "rotate", T: t, H: h, Who: last, A: 12})
				if spec.Rotate == 2 {
					doOp(op{Kind: "vote", T: t, H: h, Who: 12, ID: 1, Opt: opt})
				}
			}
			// the blocks around the voting end and the enactment end are shifted by -1ns / 0 / +1ns
			shift := int64((spec.N+spec.Capable+spec.Veto+spec.Votes+spec.Yes+hi)%3) - 1
			spec.ShiftNs = shift
			doOp(op{Kind: "end", T: t, H: h})
			if spec.Votes > 0 { // voter 0 repeats its vote at the shifted end time: admissible iff not after the end
				opt0 := int64(3)
				if spec.Veto > 0 {
					opt0 = 4
				} else if spec.Votes-spec.Yes <= 0 {
					opt0 = 1
				}
				doOp(op{Kind: "vote", T: t + sec + shift, H: h + 1, Who: 0, ID: 1, Opt: opt0})
			}
			doOp(op{Kind: "end", T: t + sec + shift, H: h + 1})
			doOp(op{Kind: "end", T: t + 2*sec + shift, H: h + 2})
			doOp(op{Kind: "end", T: t + 3*sec, H: h + 3})
			doOp(op{Kind: "end", T: t + 4*sec, H: h + 4})
		} else {
			nblocks := 8 + r.Intn(14)
			for b := 0; b < nblocks; b++ {
				nmsg := r.Intn(8)
				if b < 2 {
					nmsg = 1 + r.Intn(3)
				}
				for m := 0; m < nmsg; m++ {
					x := r.Intn(100)
					switch {
					case x < 22 || (b == 0 && m == 0):
						who := pick()
						if r.Chance(8) {
							who = int64(na)
						}
						doOp(op{Kind: "submit", T: t, H: h, Who: who, Content: randContent()})
					case x < 80:
						id := int64(1)
						if nextID == 1 {
							doOp(op{Kind: "submit", T: t, H: h, Who: pick(), Content: randContent()})
							continue
						}
						id = 1 + int64(r.Intn(int(nextID-1)))
						if r.Chance(85) { // prefer proposals whose voting window is still open
							var open []int64
							for j := int64(1); j < nextID; j++ {
								if pr, ok := k.GetProposal(hctx, uint64(j)); ok && pr.VotingEndTime.UnixNano() >= t {
									open = append(open, j)
								}
							}
							if len(open) > 0 {
								id = open[r.Intn(len(open))]
							} else if r.Chance(75) {
								doOp(op{Kind: "submit", T: t, H: h, Who: pick(), Content: randContent()})
								continue
							}
						}
						if r.Chance(3) {
							id = nextID + int64(r.Intn(2))
						}
						opt := int64([]int{1, 1, 1, 1, 1, 1, 1, 1, 3, 3, 2, 4, 4, 0, 7}[r.Intn(15)])
						who := pick()
						if r.Chance(5) {
							who = int64(na)
						}
						if r.Chance(25) && len(voted[id]) > 0 { // re-vote
							who = voted[id][r.Intn(len(voted[id]))]
						}
						doOp(op{Kind: "vote", T: t, H: h, Who: who, ID: id, Opt: opt})
					case x < 82:
						doOp(op{Kind: "ext", Ext: "whitelist", T: t, H: h, Who: int64(r.Intn(nRand)), B: strconv.Itoa(int(perms[r.Intn(len(perms))]))})
					case x < 84:
						rid := int64([]int{1, 1, 3, 3, 2}[r.Intn(5)]) // role 2 is not one of the observed roles: assignment to it is rejected by the harness model? no: skipped below
						if rid == 2 {
							rid = 3
						}
						pmS := strconv.Itoa(int(perms[r.Intn(len(perms))]))
						switch r.Intn(6) {
						case 0, 1:
							doOp(op{Kind: "ext", Ext: "assignrole", T: t, H: h, Who: pick(), A: rid})
						case 2, 3:
							doOp(op{Kind: "ext", Ext: "unassignrole", T: t, H: h, Who: pick(), A: rid})
						case 4:
							doOp(op{Kind: "ext", Ext: []string{"blacklist", "unblacklist"}[r.Intn(2)], T: t, H: h, Who: pick(), B: pmS})
						default:
							doOp(op{Kind: "ext", Ext: []string{"rolewl", "rolebl"}[r.Intn(2)], T: t, H: h, A: 3, B: pmS, Flag: r.Bool()})
						}
					case x < 87:
						doOp(op{Kind: "ext", Ext: "unwhitelist", T: t, H: h, Who: pick(), B: strconv.Itoa(int(perms[r.Intn(len(perms))]))})
					case x < 90:
						doOp(op{Kind: "ext", Ext: "active", T: t, H: h, Who: pick(), Flag: r.Chance(75)})
					case x < 93:
						doOp(op{Kind: "ext", Ext: "veto", T: t, H: h, Who: pick(), Flag: r.Chance(50)})
					case x < 97:
						pid := int64([]int{2, 3, 4, 5, 6, 5, 6}[r.Intn(7)])
						v := ""
						switch pid {
						case 2:
							v = quorums[r.Intn(len(quorums))]
						case 3, 4:
							v = strconv.Itoa(int(secs[r.Intn(len(secs))]))
						default:
							v = strconv.Itoa(r.Intn(6))
						}
						doOp(op{Kind: "ext", Ext: "np", T: t, H: h, A: pid, B: v})
					case x < 98 || nextFresh > 12:
						doOp(op{Kind: "ext", Ext: "dur", T: t, H: h, A: int64(1 + r.Intn(5)), B: strconv.Itoa(durVals[r.Intn(len(durVals))])})
					default:
						// another module rewrites the vote store: address rotation of a person (often one that voted)
						who := pick()
						if nextID > 1 && r.Chance(70) {
							if vs := voted[1+int64(r.Intn(int(nextID-1)))]; len(vs) > 0 {
								who = vs[r.Intn(len(vs))]
							}
						}
						doOp(op{Kind: "rotate", T: t, H: h, Who: who, A: nextFresh})
						nextFresh++
					}
				}
				doOp(op{Kind: "end", T: t, H: h})
				// next block: equal times, one second, the configured periods, long gaps
				t0 := t
				switch x := r.Intn(100); {
				case x < 12:
				case x < 45:
					t += sec
				case x < 58:
					t += int64(1+r.Intn(12)) * sec
				case x < 66:
					t += int64(p.MinimumProposalEndTime) * sec
				case x < 72:
					t += int64(p.ProposalEnactmentTime) * sec
				case x < 80:
					t += int64(r.Intn(400)) * sec
				case x < 84:
					t += 100000 * sec
				default:
					// exactly at / one nanosecond around the voting end or enactment end of some proposal
					if nextID > 1 {
						if pr, ok := k.GetProposal(hctx, uint64(1+r.Intn(int(nextID-1)))); ok {
							target := pr.VotingEndTime.UnixNano()
							if r.Bool() {
								target = pr.EnactmentEndTime.UnixNano()
							}
							target += int64(r.Intn(3)) - 1
							if target > t {
								t = target
							}
						}
					}
				}
				if r.Chance(25) { // sub-second parts
					t += []int64{-1, 1, 500000000, -999999999, 999999999}[r.Intn(5)]
				}
				if t < t0 {
					t = t0
				}
				h++
				if r.Chance(7) {
					h += int64(r.Intn(4))
				}
			}
		}
		lines = append(lines, fmt.Sprintf("CHist %s %s", w0, hx.List(steps)))
		js = append(js, jh)
	}

	// ---- scripted atomicity scenarios on real multi-step handlers of other modules
	for _, sr := range runScenarios(app, base) {
		sr := sr
		lines = append(lines, sr.coq())
		js = append(js, jhist{Seed: seed, Index: len(js), Kind: "scenario", Scen: &sr})
		dist.Inc("scenario:" + map[bool]string{true: "handler_ok", false: "handler_failed"}[sr.OK])
	}

	var f strings.Builder
	f.WriteString("(* written by /verif/harness/cmd/c08 -- observations of the real code *)\n")
	f.WriteString("From Sekai Require Import Base.Prelude Base.Dec Model.Gov Model.GovWorld Model.C08Check.\n")
	out.WriteFile("pre.v", f.String())
	// ---- timing / quorum scenarios of every dynamic-voter proposal kind
	for _, dr := range runDynTiming(app, base) {
		dr := dr
		lines = append(lines, dr.coq())
		js = append(js, jhist{Seed: seed, Index: len(js), Kind: "dynamic_timing", Dyn: &dr})
		note := "ok"
		if dr.Note != "" {
			note = "setup_failed"
		}
		dist.Inc("dynamic_timing:" + note)
	}

	// interleave the (long) random histories with the (short) boundary histories so that the shards
	// evaluated in Coq are of similar size
	{
		nr, total := *n, len(lines)
		var ol []string
		var oj []jhist
		ri, bi := 0, nr
		for k := 0; k < total; k++ {
			takeRandom := ri < nr && (bi >= total || (k+1)*nr/total > k*nr/total)
			src := bi
			if takeRandom {
				src = ri
				ri++
			} else {
				bi++
			}
			j := js[src]
			j.Index = len(oj)
			ol = append(ol, lines[src])
			oj = append(oj, j)
		}
		lines, js = ol, oj
	}
	out.WriteFile("cases.txt", strings.Join(lines, "\n")+"\n")
	out.WriteJSON("meta.json", map[string]string{"case_type": "c08_case", "mismatch_fn": "c08_mismatches", "violation_fn": "c08_violations"})
	out.WriteJSON("cases.json", js)
	out.WriteJSON("dist.json", map[string]interface{}{"seed": seed, "histories": len(js), "boundary_histories": len(specs), "boundary_core": len(core), "boundary_enumeration_size": len(all), "by_kind": dist})
	fmt.Fprintf(os.Stderr, "c08: %d histories (%d boundary: %d core, enumeration has %d)\n", len(js), len(specs), len(core), len(all))
}
