// c18: runs the REAL spending / ubi / collectives msg servers, proposal handlers (Apply) and end
// blockers on generated operation histories and writes the observations for the Coq models and
// the Coq spec checker (pre.v, cases.txt, meta.json) plus cases.json / dist.json.
package main

import (
	"crypto/sha256"
	"encoding/hex"
	"flag"
	"fmt"
	"os"
	"sort"
	"strings"
	"time"

	"verif/harness/hx"

	simapp "github.com/KiraCore/sekai/app"
	sdk "github.com/cosmos/cosmos-sdk/types"
	authtypes "github.com/cosmos/cosmos-sdk/x/auth/types"
	minttypes "github.com/cosmos/cosmos-sdk/x/mint/types"

	"github.com/KiraCore/sekai/x/collectives"
	colkeeper "github.com/KiraCore/sekai/x/collectives/keeper"
	coltypes "github.com/KiraCore/sekai/x/collectives/types"
	govtypes "github.com/KiraCore/sekai/x/gov/types"
	reckeeper "github.com/KiraCore/sekai/x/recovery/keeper"
	rectypes "github.com/KiraCore/sekai/x/recovery/types"
	"github.com/KiraCore/sekai/x/spending"
	spkeeper "github.com/KiraCore/sekai/x/spending/keeper"
	sptypes "github.com/KiraCore/sekai/x/spending/types"
	"github.com/KiraCore/sekai/x/ubi"
	ubitypes "github.com/KiraCore/sekai/x/ubi/types"
)

const T0 = int64(1700000000)

var denoms = []string{"ubtc", "ukex", "xeth"} // sorted; denom id = index
var poolNames = []string{"pa", "pb", "pc"}
var collNames = []string{"ca", "cb"}

type env struct {
	app    *simapp.SekaiApp
	base   sdk.Context
	accts  []sdk.AccAddress // sorted by bech32 string; account id = index
	acctID map[string]int
	roles  map[int][]uint64
	r      *hx.Rng
	dist   hx.Counter
	funded []int // accounts that hold funds (and an auth account) at the start of a history
	spares []int // addresses without an account: targets of address rotations
	payer  sdk.AccAddress
}

// block times carry a nanosecond part (the code under test compares whole seconds)
var nanoParts = []int64{0, 0, 1, 999999999, 500000000}

func secretOf(i int) string { return hex.EncodeToString([]byte(fmt.Sprintf("c18 recovery secret %d", i))) }

// rotate: the real MsgRotateRecoveryAddress a -> a2; pre = the preconditions outside the C18 models
// (recovery secret and proof, rotation history, account existence) as read from the real state
func (e *env) rotate(h sdk.Context, a, a2 int, goodProof bool) (pre bool, f func(c sdk.Context) error) {
	rk := e.app.RecoveryKeeper
	_, rerr := rk.GetRecoveryRecord(h, e.accts[a].String())
	pre = rerr == nil && goodProof && rk.GetRotationHistory(h, e.accts[a2].String()).Rotated == "" &&
		e.app.AccountKeeper.GetAccount(h, e.accts[a]) != nil && e.app.AccountKeeper.GetAccount(h, e.accts[a2]) == nil && a != a2
	proof := secretOf(a)
	if !goodProof {
		proof = secretOf(a + 100)
	}
	f = func(c sdk.Context) error {
		msg := &rectypes.MsgRotateRecoveryAddress{FeePayer: e.payer.String(), Address: e.accts[a].String(), Recovery: e.accts[a2].String(), Proof: proof}
		if err := msg.ValidateBasic(); err != nil {
			return err
		}
		_, err := reckeeper.NewMsgServerImpl(rk).RotateRecoveryAddress(sdk.WrapSDKContext(c), msg)
		return err
	}
	return pre, f
}

// ---------------------------------------------------------------- emit helpers
func denomID(d string) int {
	for i, x := range denoms {
		if x == d {
			return i
		}
	}
	panic("unknown denom " + d)
}
func lcoins(c sdk.Coins) string {
	var xs []string
	for _, x := range c {
		xs = append(xs, hx.Pair(hx.Z(int64(denomID(x.Denom))), hx.ZInt(x.Amount)))
	}
	return hx.List(xs)
}

// signed difference b - a over the denom universe
func ldelta(a, b sdk.Coins) (string, bool) {
	var xs []string
	for i, d := range denoms {
		x := b.AmountOf(d).Sub(a.AmountOf(d))
		if !x.IsZero() {
			xs = append(xs, hx.Pair(hx.Z(int64(i)), hx.ZInt(x)))
		}
	}
	return hx.List(xs), len(xs) > 0
}
func zlist(xs []int) string {
	var s []string
	for _, x := range xs {
		s = append(s, hx.Z(int64(x)))
	}
	return hx.List(s)
}
func resCode(err error, pan string) int {
	if pan != "" {
		return 2
	}
	if err != nil {
		return 1
	}
	return 0
}
func errStr(err error, pan string) string {
	if pan != "" {
		return "panic: " + pan
	}
	if err != nil {
		return err.Error()
	}
	return ""
}

// run executes f in a cache context at block time `now`; state is written only on success
// (what baseapp does for a transaction and the gov router for Apply).
func (e *env) run(h sdk.Context, now int64, f func(c sdk.Context) error) (error, string) {
	c, write := h.WithBlockTime(time.Unix(now, nanoParts[e.r.Intn(len(nanoParts))]).UTC()).WithBlockHeight(h.BlockHeight() + 1).CacheContext()
	var err error
	pan := hx.Try(func() { err = f(c) })
	if pan == "" && err == nil {
		write()
	}
	return err, pan
}

func (e *env) fund(c sdk.Context, to sdk.AccAddress, coins sdk.Coins) {
	if err := e.app.BankKeeper.MintCoins(c, minttypes.ModuleName, coins); err != nil {
		panic(err)
	}
	if err := e.app.BankKeeper.SendCoinsFromModuleToAccount(c, minttypes.ModuleName, to, coins); err != nil {
		panic(err)
	}
}
func (e *env) balances(c sdk.Context, addr sdk.AccAddress) sdk.Coins {
	out := sdk.Coins{}
	for _, d := range denoms {
		b := e.app.BankKeeper.GetBalance(c, addr, d)
		if b.Amount.IsPositive() {
			out = out.Add(b)
		}
	}
	return out
}
func (e *env) randCoins(maxDenoms int, amounts []int64) sdk.Coins {
	n := 1 + e.r.Intn(maxDenoms)
	out := sdk.Coins{}
	perm := []int{0, 1, 2}
	for i := 0; i < n; i++ {
		j := i + e.r.Intn(3-i)
		perm[i], perm[j] = perm[j], perm[i]
		out = out.Add(sdk.NewInt64Coin(denoms[perm[i]], amounts[e.r.Intn(len(amounts))]))
	}
	return out
}
func (e *env) bank0(c sdk.Context) (string, []sdk.Coins) {
	var xs []string
	var bs []sdk.Coins
	for i, a := range e.accts {
		b := e.balances(c, a)
		bs = append(bs, b)
		xs = append(xs, hx.Pair(hx.Z(int64(i)), lcoins(b)))
	}
	return hx.List(xs), bs
}
func (e *env) deltas(c sdk.Context, before []sdk.Coins) (string, []sdk.Coins, map[string]string) {
	var xs []string
	after := make([]sdk.Coins, len(e.accts))
	js := map[string]string{}
	for i, a := range e.accts {
		after[i] = e.balances(c, a)
		if s, nz := ldelta(before[i], after[i]); nz {
			xs = append(xs, hx.Pair(hx.Z(int64(i)), s))
			js[fmt.Sprint(i)] = s
		}
	}
	return hx.List(xs), after, js
}

func perm3(r *hx.Rng) []int {
	p := []int{0, 1, 2}
	for i := 0; i < 2; i++ {
		j := i + r.Intn(3-i)
		p[i], p[j] = p[j], p[i]
	}
	return p
}

// ================================================================ spending
var rateStrs = []string{"1", "0.5", "385", "0.1", "0.000000000000000001", "2.5", "0.333333333333333333", "1.000000000000000001", "10", "0", "0.05"}
var weightStrs = []string{"1", "0.5", "2", "0.333333333333333333", "1.5", "0.000000000000000001", "3", "1"}
var roleIDs = []uint64{10, 11, 12, 13}

type termsT struct {
	Start, End, Expiry uint64
	Rates              sdk.DecCoins
	Ben                sptypes.WeightedPermInfo
	Dyn                bool
	DynP               uint64
}

func (e *env) termsCoq(t termsT) string {
	var rs, br, ba []string
	for _, x := range t.Rates {
		rs = append(rs, hx.Pair(hx.Z(int64(denomID(x.Denom))), hx.ZBig(x.Amount.BigInt())))
	}
	for _, x := range t.Ben.Roles {
		br = append(br, hx.Pair(hx.ZU(x.Role), hx.ZBig(x.Weight.BigInt())))
	}
	for _, x := range t.Ben.Accounts {
		ba = append(ba, hx.Pair(hx.Z(int64(e.acctID[x.Account])), hx.ZBig(x.Weight.BigInt())))
	}
	return fmt.Sprintf("(mkTerms %s %s %s %s %s %s %s %s)", hx.ZU(t.Start), hx.ZU(t.End), hx.ZU(t.Expiry), hx.List(rs), hx.List(br), hx.List(ba), hx.B(t.Dyn), hx.ZU(t.DynP))
}
func (e *env) poolCoq(p *sptypes.SpendingPool) string {
	t := termsT{p.ClaimStart, p.ClaimEnd, p.ClaimExpiry, p.Rates, *p.Beneficiaries, p.DynamicRate, p.DynamicRatePeriod}
	return fmt.Sprintf("(mkOP %s %s %s)", e.termsCoq(t), lcoins(p.Balances), hx.ZU(p.LastDynamicRateCalcTime))
}
func (e *env) genTerms(now int64, forUpdate bool) termsT {
	r := e.r
	var t termsT
	t.Start = uint64([]int64{0, T0 - 1000, now - 10, now, now + 20, now + 300, 0, now - 100}[r.Intn(8)])
	t.End = uint64([]int64{0, 0, 0, now + 50, now + 500, now + 5000, now - 5, 0, 0, now + 100, now + 1000, T0 - 500}[r.Intn(12)])
	t.Expiry = uint64([]int64{0, 1, 5, 60, 1000, 100000, 1000000000, 1000000000, 1000000000, 1000000000, 30, 1000000000}[r.Intn(12)])
	nr := 1 + r.Intn(2)
	ds := []int{0, 1, 2}
	for i := 0; i < nr; i++ {
		j := i + r.Intn(3-i)
		ds[i], ds[j] = ds[j], ds[i]
	}
	sel := append([]int{}, ds[:nr]...)
	sort.Ints(sel)
	for _, d := range sel {
		t.Rates = append(t.Rates, sdk.DecCoin{Denom: denoms[d], Amount: sdk.MustNewDecFromStr(rateStrs[r.Intn(len(rateStrs))])})
	}
	w := func() sdk.Dec {
		if forUpdate && r.Chance(4) {
			return sdk.ZeroDec()
		}
		return sdk.MustNewDecFromStr(weightStrs[r.Intn(len(weightStrs))])
	}
	na := r.Intn(4)
	for i := 0; i < na; i++ {
		t.Ben.Accounts = append(t.Ben.Accounts, sptypes.WeightedAccount{Account: e.accts[r.Intn(len(e.accts))].String(), Weight: w()})
	}
	nro := r.Intn(3)
	if na == 0 && nro == 0 {
		nro = 1
	}
	for i := 0; i < nro; i++ {
		t.Ben.Roles = append(t.Ben.Roles, sptypes.WeightedRole{Role: roleIDs[r.Intn(len(roleIDs))], Weight: w()})
	}
	t.Dyn = r.Chance(25)
	t.DynP = []uint64{1, 10, 100, 1000, 50, 5}[r.Intn(6)]
	if r.Chance(2) {
		t.DynP = 0
	}
	return t
}

type spSnap struct {
	pools  map[string]string // name -> marshalled record (as Coq text)
	claims map[[2]int]uint64
	bals   []sdk.Coins
}

func (e *env) spSnapshot(c sdk.Context) spSnap {
	s := spSnap{pools: map[string]string{}, claims: map[[2]int]uint64{}}
	k := e.app.SpendingKeeper
	for pi, n := range poolNames {
		if p := k.GetSpendingPool(c, n); p != nil {
			s.pools[n] = e.poolCoq(p)
		}
		for _, ci := range k.GetPoolClaimInfos(c, n) {
			s.claims[[2]int{pi, e.acctID[ci.Account]}] = ci.LastClaim
		}
	}
	return s
}

func (e *env) spendingHistory(id int) (string, interface{}) {
	r := e.r
	k := e.app.SpendingKeeper
	ms := spkeeper.NewMsgServerImpl(k, e.app.CustomGovKeeper, e.app.BankKeeper)
	h, _ := e.base.CacheContext()
	// guided histories start with: create a live pool, fund it, register beneficiaries
	guided := r.Chance(70)
	for _, ai := range e.funded {
		a := e.accts[ai]
		coins := sdk.Coins{}
		for _, d := range denoms {
			amt := []int64{10000000, 10000000, 500, 100000}[r.Intn(4)]
			if guided {
				amt = 10000000
			}
			coins = coins.Add(sdk.NewInt64Coin(d, amt))
		}
		e.fund(h, a, coins)
	}
	if r.Chance(30) { // the module account may hold funds that belong to no pool
		stray := sdk.NewCoins(sdk.NewInt64Coin("ukex", r.Range(1, 100000)))
		if err := e.app.BankKeeper.MintCoins(h, minttypes.ModuleName, stray); err != nil {
			panic(err)
		}
		if err := e.app.BankKeeper.SendCoinsFromModuleToModule(h, minttypes.ModuleName, sptypes.ModuleName, stray); err != nil {
			panic(err)
		}
	}
	modAddr := authtypes.NewModuleAddress(sptypes.ModuleName)
	bank0, bals := e.bank0(h)
	mod0 := lcoins(e.balances(h, modAddr))
	snap := e.spSnapshot(h)
	now := T0 + r.Range(0, 50)
	nops := 10 + r.Intn(22)
	var steps []string
	var js []map[string]interface{}
	existing := func() []int {
		var out []int
		for i, n := range poolNames {
			if _, ok := snap.pools[n]; ok {
				out = append(out, i)
			}
		}
		return out
	}
	pickPool := func() int {
		ex := existing()
		if len(ex) == 0 || r.Chance(4) {
			return r.Intn(len(poolNames))
		}
		return ex[r.Intn(len(ex))]
	}
	registered := func(p int) []int {
		var out []int
		for key := range snap.claims {
			if key[0] == p {
				out = append(out, key[1])
			}
		}
		sort.Ints(out)
		return out
	}
	allowed := func(p int) []int {
		var out []int
		pl := k.GetSpendingPool(h, poolNames[p])
		if pl == nil {
			return out
		}
		for i, a := range e.accts {
			if k.IsAllowedBeneficiary(h, a, *pl.Beneficiaries) {
				out = append(out, i)
			}
		}
		return out
	}
	pickFrom := func(pref []int, pct int) int {
		if len(pref) > 0 && r.Chance(pct) {
			return pref[r.Intn(len(pref))]
		}
		return r.Intn(len(e.accts))
	}
	for step := 0; step < nops; step++ {
		prevNow := now
		switch r.Intn(7) {
		case 0:
		case 1:
			now++
		case 2:
			now += r.Range(1, 10)
		case 3:
			now += r.Range(10, 200)
		case 4:
			now += r.Range(200, 3000)
		default:
			now += r.Range(1, 60)
		}
		// boundary times of the guided pool: just before / at / after ClaimStart, ClaimEnd, a
		// beneficiary's last claim (+ expiry), the last rate recalculation (+ period)
		if guided && step >= 2 && r.Chance(50) {
			if cur := k.GetSpendingPool(h, poolNames[0]); cur != nil {
				var base []int64
				base = append(base, int64(cur.ClaimStart), int64(cur.ClaimEnd), int64(cur.LastDynamicRateCalcTime), int64(cur.LastDynamicRateCalcTime+cur.DynamicRatePeriod))
				for _, ci := range k.GetPoolClaimInfos(h, poolNames[0]) {
					base = append(base, int64(ci.LastClaim), int64(ci.LastClaim+cur.ClaimExpiry))
				}
				var cands []int64
				for _, b := range base {
					for _, dlt := range []int64{-1, 0, 1, 30} {
						if t := b + dlt; t > prevNow && t <= prevNow+7000 {
							cands = append(cands, t)
						}
					}
				}
				if len(cands) > 0 {
					sort.Slice(cands, func(i, j int) bool { return cands[i] < cands[j] })
					if r.Chance(50) {
						now = cands[0]
					} else {
						now = cands[r.Intn(len(cands))]
					}
				}
			}
		}
		var opCoq string
		j := map[string]interface{}{"t": now}
		var f func(c sdk.Context) error
		ex := existing()
		choice := r.Intn(100)
		if len(ex) == 0 || (len(ex) < 2 && step < 4 && r.Chance(40)) {
			choice = 0
		}
		gstep := -1
		if guided && step < 5 {
			gstep = step
			choice = []int{0, 10, 30, 30, 30}[step]
		} else if guided && r.Chance(35) {
			choice = []int{50, 50, 50, 90, 30, 93, 50}[r.Intn(7)] // claim x3, end block, register, rotate, claim
		}
		switch {
		case choice < 6: // create
			p := r.Intn(len(poolNames))
			if len(ex) < len(poolNames) && r.Chance(85) {
				for _, q := range perm3(r) {
					if _, ok := snap.pools[poolNames[q]]; !ok {
						p = q
						break
					}
				}
			}
			t := e.genTerms(now, false)
			if gstep == 0 {
				p = 0
				// both pool kinds; the window opens in the past or in the future (so that beneficiaries
				// register before it opens), closes never / soon / late; short and long expiry
				t.Dyn = r.Chance(50)
				t.DynP = []uint64{50, 100, 400, 1000}[r.Intn(4)]
				t.Start = uint64([]int64{0, now - 10, now - 100, now + 60, now + 400, now + 1000}[r.Intn(6)])
				t.End = uint64([]int64{0, 0, now + 5000, now + 800, int64(t.Start) + 300, int64(t.Start) + 30}[r.Intn(6)])
				t.Expiry = []uint64{1000000000, 1000000000, 1000, 60, 30}[r.Intn(5)]
				for i := range t.Rates {
					t.Rates[i].Amount = sdk.MustNewDecFromStr([]string{"1", "0.5", "2.5", "10", "0.1", "385", "0.333333333333333333"}[r.Intn(7)])
				}
				if len(t.Ben.Roles) == 0 || r.Chance(50) { // beneficiaries entitled through a role
					t.Ben.Roles = append(t.Ben.Roles, sptypes.WeightedRole{Role: roleIDs[r.Intn(3)], Weight: sdk.MustNewDecFromStr(weightStrs[r.Intn(len(weightStrs))])})
				}
				for len(t.Ben.Accounts) < 1 {
					t.Ben.Accounts = append(t.Ben.Accounts, sptypes.WeightedAccount{Account: e.accts[r.Intn(len(e.accts))].String(), Weight: sdk.MustNewDecFromStr(weightStrs[r.Intn(len(weightStrs))])})
				}
			}
			quorum := sdk.NewDecWithPrec(51, 2)
			opCoq = fmt.Sprintf("OCreate %d %s", p, e.termsCoq(t))
			j["op"], j["p"], j["terms"] = "create", p, e.termsCoq(t)
			if gstep < 0 && r.Chance(4) { // a vote quorum outside [0,1]
				quorum = sdk.MustNewDecFromStr([]string{"1.5", "-0.1", "1.000000000000000001"}[r.Intn(3)])
				opCoq = fmt.Sprintf("OBadQuorum false %d %s", p, e.termsCoq(t))
				j["op"], j["quorum"] = "create_bad_quorum", quorum.String()
			}
			f = func(c sdk.Context) error {
				msg := &sptypes.MsgCreateSpendingPool{Name: poolNames[p], ClaimStart: t.Start, ClaimEnd: t.End, ClaimExpiry: t.Expiry, Rates: t.Rates,
					VoteQuorum: quorum, VotePeriod: 600, VoteEnactment: 300,
					Owners:        sptypes.PermInfo{OwnerAccounts: []string{e.accts[0].String()}},
					Beneficiaries: t.Ben, Sender: e.accts[0].String(), DynamicRate: t.Dyn, DynamicRatePeriod: t.DynP}
				if err := msg.ValidateBasic(); err != nil {
					return err
				}
				_, err := ms.CreateSpendingPool(sdk.WrapSDKContext(c), msg)
				return err
			}
		case choice < 24: // deposit
			a, p := r.Intn(len(e.accts)), pickPool()
			amt := e.randCoins(2, []int64{1, 10, 100, 1000, 50000, 1000000, 3000000, 700})
			if gstep == 1 {
				a, p = 0, 0
				big := []int64{3000000, 3000000, 20000, 500}[r.Intn(4)]
				amt = sdk.NewCoins(sdk.NewInt64Coin("ubtc", big), sdk.NewInt64Coin("ukex", big), sdk.NewInt64Coin("xeth", big))
			}
			opCoq = fmt.Sprintf("ODeposit %d %d %s", a, p, lcoins(amt))
			j["op"], j["a"], j["p"], j["amt"] = "deposit", a, p, amt.String()
			f = func(c sdk.Context) error {
				msg := &sptypes.MsgDepositSpendingPool{Sender: e.accts[a].String(), PoolName: poolNames[p], Amount: amt}
				if err := msg.ValidateBasic(); err != nil {
					return err
				}
				_, err := ms.DepositSpendingPool(sdk.WrapSDKContext(c), msg)
				return err
			}
		case choice < 40: // register
			p := pickPool()
			a := pickFrom(allowed(p), 80)
			if gstep >= 2 {
				p = 0
				if al := allowed(0); len(al) > 0 {
					a = al[(gstep-2)%len(al)]
				}
			}
			opCoq = fmt.Sprintf("ORegister %d %d", a, p)
			j["op"], j["a"], j["p"] = "register", a, p
			f = func(c sdk.Context) error {
				_, err := ms.RegisterSpendingPoolBeneficiary(sdk.WrapSDKContext(c), &sptypes.MsgRegisterSpendingPoolBeneficiary{Sender: e.accts[a].String(), PoolName: poolNames[p]})
				return err
			}
		case choice < 70: // claim
			p := pickPool()
			a := pickFrom(registered(p), 85)
			if len(registered(p)) == 0 {
				a = pickFrom(allowed(p), 70)
			}
			opCoq = fmt.Sprintf("OClaim %d %d", a, p)
			j["op"], j["a"], j["p"] = "claim", a, p
			f = func(c sdk.Context) error {
				_, err := ms.ClaimSpendingPool(sdk.WrapSDKContext(c), &sptypes.MsgClaimSpendingPool{Sender: e.accts[a].String(), PoolName: poolNames[p]})
				return err
			}
		case choice < 76: // update proposal
			p := pickPool()
			t := e.genTerms(now, true)
			if cur := k.GetSpendingPool(h, poolNames[p]); cur != nil && r.Chance(30) {
				// the settings re-sent unchanged (or with only the window moved)
				t = termsT{cur.ClaimStart, cur.ClaimEnd, 0, cur.Rates, *cur.Beneficiaries, cur.DynamicRate, cur.DynamicRatePeriod}
				if r.Chance(40) {
					t.Start = uint64([]int64{0, now - 1000, int64(cur.ClaimStart)}[r.Intn(3)])
				}
			}
			t.Expiry = 0 // the proposal has no such field
			quorum := sdk.NewDecWithPrec(51, 2)
			opCoq = fmt.Sprintf("OUpdate %d %s", p, e.termsCoq(t))
			j["op"], j["p"], j["terms"] = "update_proposal", p, e.termsCoq(t)
			if r.Chance(4) { // a vote quorum outside [0,1]
				quorum = sdk.MustNewDecFromStr([]string{"1.5", "-0.1", "1.000000000000000001"}[r.Intn(3)])
				opCoq = fmt.Sprintf("OBadQuorum true %d %s", p, e.termsCoq(t))
				j["op"], j["quorum"] = "update_proposal_bad_quorum", quorum.String()
			}
			f = func(c sdk.Context) error {
				prop := &sptypes.UpdateSpendingPoolProposal{Name: poolNames[p], ClaimStart: t.Start, ClaimEnd: t.End,
					Rates: t.Rates, VoteQuorum: quorum, VotePeriod: 600, VoteEnactment: 300,
					Owners: sptypes.PermInfo{OwnerAccounts: []string{e.accts[0].String()}}, Beneficiaries: t.Ben, DynamicRate: t.Dyn, DynamicRatePeriod: t.DynP}
				if err := prop.ValidateBasic(); err != nil { // checked when the proposal is submitted
					return err
				}
				return spending.NewApplyUpdateSpendingPoolProposalHandler(k).Apply(c, 1, prop, sdk.ZeroDec())
			}
		case choice < 82: // distribution proposal
			p := pickPool()
			opCoq = fmt.Sprintf("ODistribute %d", p)
			j["op"], j["p"] = "distribution_proposal", p
			f = func(c sdk.Context) error {
				return spending.NewApplySpendingPoolDistributionProposalHandler(k, e.app.CustomGovKeeper).Apply(c, 1, &sptypes.SpendingPoolDistributionProposal{PoolName: poolNames[p]}, sdk.ZeroDec())
			}
		case choice < 88: // withdraw proposal
			p := pickPool()
			al := allowed(p)
			nb := 1 + r.Intn(2)
			var bens []int
			var bs []string
			for i := 0; i < nb; i++ {
				a := pickFrom(al, 80)
				bens = append(bens, a)
				bs = append(bs, e.accts[a].String())
			}
			amt := e.randCoins(2, []int64{1, 10, 100, 1000, 5000, 77})
			opCoq = fmt.Sprintf("OWithdraw %d %s %s", p, zlist(bens), lcoins(amt))
			j["op"], j["p"], j["bens"], j["amt"] = "withdraw_proposal", p, bens, amt.String()
			f = func(c sdk.Context) error {
				return spending.NewApplySpendingPoolWithdrawProposalHandler(k, e.app.BankKeeper).Apply(c, 1, &sptypes.SpendingPoolWithdrawProposal{PoolName: poolNames[p], Beneficiaries: bs, Amounts: amt}, sdk.ZeroDec())
			}
		case choice < 92: // end block
			opCoq = "OEndBlock"
			j["op"] = "end_block"
			f = func(c sdk.Context) error { k.EndBlocker(c); return nil }
		case choice < 95: // address rotation of a beneficiary (x/recovery): roles, funds and claim records move
			p := pickPool()
			a := pickFrom(registered(p), 85)
			a2 := e.spares[r.Intn(len(e.spares))]
			if r.Chance(5) {
				a2 = r.Intn(len(e.accts))
			}
			pre, ff := e.rotate(h, a, a2, !r.Chance(10))
			opCoq = fmt.Sprintf("ORotate %d %d %s", a, a2, hx.B(pre))
			j["op"], j["a"], j["to"], j["pre_ok"] = "rotate_address", a, a2, pre
			f = ff
		case choice < 97: // the pool is funded from a module account (what x/ubi does after minting)
			p := pickPool()
			amt := sdk.NewCoins(sdk.NewInt64Coin("ukex", []int64{1, 1000, 2000000, 500000}[r.Intn(4)]))
			opCoq = fmt.Sprintf("OModuleDeposit %d %s", p, lcoins(amt))
			j["op"], j["p"], j["amt"] = "module_deposit", p, amt.String()
			f = func(c sdk.Context) error {
				if err := e.app.TokensKeeper.MintCoins(c, minttypes.ModuleName, amt); err != nil {
					return err
				}
				return k.DepositSpendingPoolFromModule(c, minttypes.ModuleName, poolNames[p], amt)
			}
		default: // plain transfer to the module account
			a := r.Intn(len(e.accts))
			amt := e.randCoins(1, []int64{1, 50, 1000})
			opCoq = fmt.Sprintf("OBankSend %d %s", a, lcoins(amt))
			j["op"], j["a"], j["amt"] = "bank_send_to_module", a, amt.String()
			f = func(c sdk.Context) error { return e.app.BankKeeper.SendCoins(c, e.accts[a], modAddr, amt) }
		}
		err, pan := e.run(h, now, f)
		rc := resCode(err, pan)
		after := e.spSnapshot(h)
		var pc, cc []string
		for pi, n := range poolNames {
			if after.pools[n] != snap.pools[n] {
				pc = append(pc, hx.Pair(hx.Z(int64(pi)), after.pools[n]))
			}
		}
		var keys [][2]int
		for key, v := range after.claims {
			if old, ok := snap.claims[key]; !ok || old != v {
				keys = append(keys, key)
			}
		}
		sort.Slice(keys, func(i, j int) bool { return keys[i][0] < keys[j][0] || (keys[i][0] == keys[j][0] && keys[i][1] < keys[j][1]) })
		for key := range snap.claims { // deleted records are reported with LastClaim -1
			if _, ok := after.claims[key]; !ok {
				keys = append(keys, key)
			}
		}
		sort.Slice(keys, func(i, j int) bool { return keys[i][0] < keys[j][0] || (keys[i][0] == keys[j][0] && keys[i][1] < keys[j][1]) })
		for _, key := range keys {
			if v, ok := after.claims[key]; ok {
				cc = append(cc, hx.Pair(hx.Pair(hx.Z(int64(key[0])), hx.Z(int64(key[1]))), hx.ZU(v)))
			} else {
				cc = append(cc, hx.Pair(hx.Pair(hx.Z(int64(key[0])), hx.Z(int64(key[1]))), "(-1)"))
			}
		}
		dl, nb, dj := e.deltas(h, bals)
		bals = nb
		snap = after
		steps = append(steps, fmt.Sprintf("(%d, %s, mkSO %d %s %s %s %s)", now, opCoq, rc, hx.List(pc), lcoins(e.balances(h, modAddr)), dl, hx.List(cc)))
		j["res"], j["err"], j["deltas"], j["pools_changed"] = rc, errStr(err, pan), dj, pc
		js = append(js, j)
		e.dist.Inc(fmt.Sprintf("spend:%s:%s", j["op"], []string{"ok", "rejected", "panic"}[rc]))
	}
	return fmt.Sprintf("CSpend %s %s %s", bank0, mod0, hx.List(steps)), map[string]interface{}{"kind": "spend", "id": id, "bank0": bank0, "mod0": mod0, "ops": js}
}

// ================================================================ ubi
var ubiNames = []string{"ValidatorBasicRewardsPoolUBI", "ua", "ub", "uc"}
var ubiPools = []string{"ValidatorBasicRewardsPool", "pa", "pb"}

func ubiPoolID(n string) int {
	for i, x := range ubiPools {
		if x == n {
			return i
		}
	}
	return 9
}
func ubiPoolName(i int) string {
	if i < len(ubiPools) {
		return ubiPools[i]
	}
	return "nopool"
}
func urecCoq(r ubitypes.UBIRecord) string {
	return fmt.Sprintf("(mkU %s %s %s %s %s %d %s)", hx.ZU(r.DistributionStart), hx.ZU(r.DistributionEnd), hx.ZU(r.DistributionLast), hx.ZU(r.Amount), hx.ZU(r.Period), ubiPoolID(r.Pool), hx.B(r.Dynamic))
}
func (e *env) ubiObs(c sdk.Context, supply0 sdk.Int) (string, string, string) {
	var rs, bs []string
	for _, rec := range e.app.UbiKeeper.GetUBIRecords(c) {
		id := -1
		for i, n := range ubiNames {
			if n == rec.Name {
				id = i
			}
		}
		rs = append(rs, hx.Pair(hx.Z(int64(id)), urecCoq(rec)))
	}
	for i, n := range ubiPools {
		if p := e.app.SpendingKeeper.GetSpendingPool(c, n); p != nil {
			bs = append(bs, hx.Pair(hx.Z(int64(i)), hx.ZInt(sdk.Coins(p.Balances).AmountOf("ukex"))))
		}
	}
	minted := e.app.BankKeeper.GetSupply(c, "ukex").Amount.Sub(supply0)
	return hx.List(rs), hx.List(bs), hx.ZInt(minted)
}

func (e *env) ubiHistory(id int, witness bool) (string, interface{}) {
	r := e.r
	h, _ := e.base.CacheContext()
	sk := e.app.SpendingKeeper
	uk := e.app.UbiKeeper
	now := T0 + r.Range(0, 50)
	for _, n := range []string{"pa", "pb"} {
		if r.Chance(85) || witness {
			bal := sdk.Coins{}
			if r.Chance(50) {
				bal = sdk.NewCoins(sdk.NewInt64Coin("ukex", []int64{1, 1000000, 3000000, 5000000, 20000000}[r.Intn(5)]))
			}
			sk.SetSpendingPool(h, sptypes.SpendingPool{Name: n, Rates: sdk.DecCoins{}, VoteQuorum: sdk.NewDecWithPrec(51, 2),
				Owners: &sptypes.PermInfo{}, Beneficiaries: &sptypes.WeightedPermInfo{}, Balances: bal})
		}
	}
	periods := []uint64{1, 10, 60, 100, 7}
	amounts := []uint64{0, 1, 2, 5, 10, 3}
	genRec := func(name string) ubitypes.UBIRecord {
		rec := ubitypes.UBIRecord{Name: name, Amount: amounts[r.Intn(len(amounts))], Period: periods[r.Intn(len(periods))], Pool: ubiPoolName([]int{0, 1, 1, 2, 2, 9}[r.Intn(6)])}
		rec.DistributionStart = uint64([]int64{0, now - 50, now, now + 30, now - 5}[r.Intn(5)])
		rec.DistributionEnd = uint64([]int64{0, 0, now + 100, now + 300, now - 10, now + 20}[r.Intn(6)])
		rec.DistributionLast = rec.DistributionStart
		if r.Chance(3) {
			rec.Amount = []uint64{1 << 63, 1<<64 - 1, 1 << 62}[r.Intn(3)]
		}
		return rec
	}
	if !witness {
		if r.Chance(30) {
			uk.DeleteUBIRecord(h, ubiNames[0])
		}
		for _, n := range ubiNames[1:] {
			if r.Chance(35) {
				rec := genRec(n)
				rec.Dynamic = r.Chance(40)
				if rec.Amount >= 1<<62 {
					rec.Amount = 4
				}
				uk.SetUBIRecord(h, rec)
			}
		}
	}
	hardcap := e.app.CustomGovKeeper.GetNetworkProperties(h).UbiHardcap
	supply0 := e.app.BankKeeper.GetSupply(h, "ukex").Amount
	recs0, books0, _ := e.ubiObs(h, supply0)
	var steps []string
	var js []map[string]interface{}
	nops := 10 + r.Intn(20)
	var script []int // witness script
	if witness {
		nops = 6
		script = []int{1, 0, 0, 0, 0, 0}
	}
	lastPeriod := uint64(10)
	for step := 0; step < nops; step++ {
		switch r.Intn(7) {
		case 0:
		case 1:
			now++
		case 2:
			now += int64(lastPeriod)
		case 3:
			now += int64(lastPeriod) + 1
		case 4:
			now += r.Range(1, 200)
		case 5:
			now += int64(lastPeriod) - 1
		default:
			now += r.Range(1, 15)
		}
		choice := r.Intn(100)
		if witness {
			choice = []int{0, 90}[script[step]]
			now += 1
		}
		var opCoq string
		j := map[string]interface{}{"t": now}
		var f func(c sdk.Context) error
		switch {
		case choice < 70:
			opCoq = "UEndBlock"
			j["op"] = "end_block"
			f = func(c sdk.Context) error { ubi.EndBlocker(c, uk); return nil }
		case choice < 93:
			rec := genRec(ubiNames[1+r.Intn(3)])
			if r.Chance(3) {
				rec.Period = 0
			}
			if witness {
				// a period so large that DistributionLast+Period wraps around in uint64
				rec.Period = []uint64{1<<64 - 1, ^uint64(0) - uint64(T0) + 1, 1<<64 - 1}[r.Intn(3)]
				rec.DistributionStart, rec.DistributionEnd, rec.Amount = uint64(now-5), 0, 2
				rec.Pool = "pa"
			}
			if cur := uk.GetUBIRecordByName(h, rec.Name); cur != nil && !witness && r.Chance(35) {
				// the same record upserted again: same / earlier / zero start
				rec = *cur
				rec.DistributionStart = []uint64{cur.DistributionStart, 0, uint64(now - 1), cur.DistributionLast}[r.Intn(4)]
			}
			lastPeriod = rec.Period
			if lastPeriod == 0 || lastPeriod > 1000 {
				lastPeriod = 3
			}
			nid := 0
			for i, n := range ubiNames {
				if n == rec.Name {
					nid = i
				}
			}
			rec.DistributionLast = 0
			opCoq = fmt.Sprintf("UUpsert %d %s", nid, urecCoq(rec))
			j["op"], j["rec"] = "upsert_proposal", fmt.Sprintf("%+v", rec)
			f = func(c sdk.Context) error {
				return ubi.NewApplyUpsertUBIProposalHandler(uk, e.app.CustomGovKeeper, sk).Apply(c, 1, &ubitypes.UpsertUBIProposal{Name: rec.Name, DistributionStart: rec.DistributionStart,
					DistributionEnd: rec.DistributionEnd, Amount: rec.Amount, Period: rec.Period, Pool: rec.Pool}, sdk.ZeroDec())
			}
		default:
			nid := r.Intn(len(ubiNames))
			opCoq = fmt.Sprintf("URemove %d", nid)
			j["op"], j["name"] = "remove_proposal", ubiNames[nid]
			f = func(c sdk.Context) error {
				return ubi.NewApplyRemoveUBIProposalHandler(uk).Apply(c, 1, &ubitypes.RemoveUBIProposal{UbiName: ubiNames[nid]}, sdk.ZeroDec())
			}
		}
		err, pan := e.run(h, now, f)
		rc := resCode(err, pan)
		rs, bs, minted := e.ubiObs(h, supply0)
		steps = append(steps, fmt.Sprintf("(%d, %s, mkUO %d %s %s %s)", now, opCoq, rc, rs, bs, minted))
		j["res"], j["err"], j["records"], j["books"], j["minted"] = rc, errStr(err, pan), rs, bs, minted
		js = append(js, j)
		e.dist.Inc(fmt.Sprintf("ubi:%s:%s", j["op"], []string{"ok", "rejected", "panic"}[rc]))
	}
	kind := "ubi"
	if witness {
		kind = "ubi_wrap_witness"
	}
	return fmt.Sprintf("CUbi %s %s %s %s", hx.ZU(hardcap), recs0, books0, hx.List(steps)), map[string]interface{}{"kind": kind, "id": id, "hardcap": hardcap, "recs0": recs0, "books0": books0, "ops": js}
}

// ================================================================ collectives
var donationStrs = []string{"0", "0.5", "0.1", "0.333333333333333333", "1", "0.25", "0.5", "0.75"}

func (e *env) collObs(c sdk.Context) string {
	k := e.app.CollectivesKeeper
	var xs []string
	for ci, n := range collNames {
		col := k.GetCollective(c, n)
		if col.Name == "" {
			continue
		}
		var ccs []string
		type ent struct {
			id int
			s  string
		}
		var es []ent
		for _, cc := range k.GetCollectiveContributers(c, n) {
			aid := e.acctID[cc.Address]
			es = append(es, ent{aid, hx.Pair(hx.Z(int64(aid)), fmt.Sprintf("mkOCC %s %s %s %s", lcoins(cc.Bonds), hx.ZU(cc.Locking), hx.ZBig(cc.Donation.BigInt()), hx.B(cc.DonationLock)))})
		}
		for _, x := range es {
			ccs = append(ccs, x.s)
		}
		xs = append(xs, hx.Pair(hx.Z(int64(ci)), fmt.Sprintf("mkOC %s %s %s %s %s", lcoins(col.Bonds), lcoins(col.Donations),
			lcoins(e.balances(c, col.GetCollectiveAddress())), lcoins(e.balances(c, col.GetCollectiveDonationAddress())), hx.List(ccs))))
	}
	return hx.List(xs)
}

func (e *env) collHistory(id int, witness bool) (string, interface{}) {
	r := e.r
	k := e.app.CollectivesKeeper
	ms := colkeeper.NewMsgServerImpl(k)
	h, _ := e.base.CacheContext()
	for _, ai := range e.funded {
		a := e.accts[ai]
		coins := sdk.Coins{}
		for _, d := range denoms {
			coins = coins.Add(sdk.NewInt64Coin(d, []int64{1000000, 1000000, 20, 5000}[r.Intn(4)]))
		}
		e.fund(h, a, coins)
	}
	modAddr := authtypes.NewModuleAddress(coltypes.ModuleName)
	bank0, bals := e.bank0(h)
	mod0 := lcoins(e.balances(h, modAddr))
	now := T0 + r.Range(0, 50)
	nops := 10 + r.Intn(20)
	// the witness of Proofs/Payouts.v (h_drift), replayed on the real code: create with 10 units,
	// donation 0.5 -> 1 -> 0.5 -> 0.75, withdraw (refused), remove proposal (partial payout)
	wChoice := []int{0, 40, 40, 40, 40, 60, 99}
	wDon := []string{"", "0.5", "1", "0.5", "0.75", "", ""}
	if witness {
		nops = len(wChoice)
	}
	var steps []string
	var js []map[string]interface{}
	bondAmts := []int64{1, 3, 5, 7, 10, 99, 101, 1000, 12345, 2, 15}
	exists := func(ci int) bool { return k.GetCollective(h, collNames[ci]).Name != "" }
	contributors := func(ci int) []int {
		var out []int
		for _, cc := range k.GetCollectiveContributers(h, collNames[ci]) {
			out = append(out, e.acctID[cc.Address])
		}
		return out
	}
	// "settings re-sent" scripts: after an accepted lock, the same contributor sends the settings message
	// again with a zero / lower / equal / expired unlock time and then tries to withdraw at once
	type forcedOp struct {
		choice, a, ci int
		lock       uint64
		don        sdk.Dec
		at         int64 // not before this block time
	}
	var forced []forcedOp
	finale := false
	for step := 0; step < nops; step++ {
		prevNow := now
		switch r.Intn(5) {
		case 0:
		case 1:
			now++
		case 2:
			now += r.Range(1, 20)
		case 3:
			now += r.Range(20, 300)
		default:
			now += r.Range(1, 5)
		}
		ci := r.Intn(len(collNames))
		if r.Chance(70) {
			ci = 0
		}
		choice := r.Intn(100)
		if !exists(0) && !exists(1) && r.Chance(90) {
			choice = 0
		}
		if witness {
			choice, ci = wChoice[step], 0
			now++
		}
		var fo *forcedOp
		if !witness && len(forced) > 0 {
			fo = &forced[0]
			forced = forced[1:]
			choice, ci = fo.choice, fo.ci
			now = prevNow + r.Range(0, 2)
			if fo.at > now {
				now = fo.at
			}
		}
		var opCoq string
		j := map[string]interface{}{"t": now, "c": ci}
		var f func(c sdk.Context) error
		lastDonate := forcedOp{a: -1}
		lastDlock := false
		switch {
		case choice < 8: // create
			a := r.Intn(len(e.accts))
			bonds := e.randCoins(2, bondAmts)
			any := r.Chance(50)
			var wr []uint64
			var wa []string
			var wai []int
			if r.Chance(50) {
				wr = append(wr, roleIDs[r.Intn(3)])
			}
			for i := 0; i < r.Intn(3); i++ {
				x := r.Intn(len(e.accts))
				wa = append(wa, e.accts[x].String())
				wai = append(wai, x)
			}
			if witness {
				a, bonds, any, wr, wa, wai = 1, sdk.NewCoins(sdk.NewInt64Coin("xeth", 10)), true, nil, nil, nil
			}
			var wrs []string
			for _, x := range wr {
				wrs = append(wrs, hx.ZU(x))
			}
			opCoq = fmt.Sprintf("CCreate %d %d %s %s %s %s", a, ci, lcoins(bonds), hx.B(any), hx.List(wrs), zlist(wai))
			j["op"], j["a"], j["bonds"], j["any"], j["wroles"], j["waccts"] = "create", a, bonds.String(), any, wr, wai
			f = func(c sdk.Context) error {
				msg := &coltypes.MsgCreateCollective{Sender: e.accts[a].String(), Name: collNames[ci], Description: "d", Bonds: bonds,
					DepositWhitelist: coltypes.DepositWhitelist{Any: any, Roles: wr, Accounts: wa},
					OwnersWhitelist:  coltypes.OwnersWhitelist{Accounts: []string{e.accts[0].String()}},
					SpendingPools:    []coltypes.WeightedSpendingPool{{Name: "nopool", Weight: sdk.OneDec()}},
					ClaimStart:       0, ClaimPeriod: 20000, ClaimEnd: 0, VoteQuorum: sdk.NewDecWithPrec(51, 2), VotePeriod: 600, VoteEnactment: 300}
				if err := msg.ValidateBasic(); err != nil {
					return err
				}
				_, err := ms.CreateCollective(sdk.WrapSDKContext(c), msg)
				return err
			}
		case choice < 30: // contribute
			a := r.Intn(len(e.accts))
			if cs := contributors(ci); len(cs) > 0 && r.Chance(50) {
				a = cs[r.Intn(len(cs))]
			}
			bonds := e.randCoins(2, bondAmts)
			opCoq = fmt.Sprintf("CContribute %d %d %s", a, ci, lcoins(bonds))
			j["op"], j["a"], j["bonds"] = "contribute", a, bonds.String()
			f = func(c sdk.Context) error {
				msg := &coltypes.MsgBondCollective{Sender: e.accts[a].String(), Name: collNames[ci], Bonds: bonds}
				if err := msg.ValidateBasic(); err != nil {
					return err
				}
				_, err := ms.ContributeCollective(sdk.WrapSDKContext(c), msg)
				return err
			}
		case choice < 52: // donate / lock
			a := r.Intn(len(e.accts))
			if cs := contributors(ci); len(cs) > 0 && r.Chance(85) {
				a = cs[r.Intn(len(cs))]
			}
			lock := uint64([]int64{0, now - 10, now + 5, now + 100, now + 1000, now + 86400*365 + 1, now + 2, now}[r.Intn(8)])
			don := sdk.MustNewDecFromStr(donationStrs[r.Intn(len(donationStrs))])
			if r.Chance(3) {
				don = sdk.MustNewDecFromStr([]string{"1.000000000000000001", "-0.1"}[r.Intn(2)])
			}
			dlock := r.Chance(12)
			if witness {
				a, lock, don, dlock = 1, 0, sdk.MustNewDecFromStr(wDon[step]), false
			}
			if fo != nil {
				a, lock, don, dlock = fo.a, fo.lock, fo.don, false
			}
			lastDonate, lastDlock = forcedOp{choice: 40, a: a, ci: ci, lock: lock, don: don}, dlock
			opCoq = fmt.Sprintf("CDonate %d %d %s %s %s", a, ci, hx.ZU(lock), hx.ZBig(don.BigInt()), hx.B(dlock))
			j["op"], j["a"], j["lock"], j["donation"], j["dlock"] = "donate", a, lock, don.String(), dlock
			f = func(c sdk.Context) error {
				msg := &coltypes.MsgDonateCollective{Sender: e.accts[a].String(), Name: collNames[ci], Locking: lock, Donation: don, DonationLock: dlock}
				if err := msg.ValidateBasic(); err != nil {
					return err
				}
				_, err := ms.DonateCollective(sdk.WrapSDKContext(c), msg)
				return err
			}
		case choice < 78: // withdraw
			a := r.Intn(len(e.accts))
			if cs := contributors(ci); len(cs) > 0 && r.Chance(85) {
				a = cs[r.Intn(len(cs))]
			}
			if witness {
				a = 1
			}
			if fo != nil {
				a = fo.a
			}
			opCoq = fmt.Sprintf("CWithdraw %d %d", a, ci)
			j["op"], j["a"] = "withdraw", a
			f = func(c sdk.Context) error {
				msg := &coltypes.MsgWithdrawCollective{Sender: e.accts[a].String(), Name: collNames[ci]}
				if err := msg.ValidateBasic(); err != nil {
					return err
				}
				_, err := ms.WithdrawCollective(sdk.WrapSDKContext(c), msg)
				return err
			}
		case choice < 86: // environment: donated staking rewards arrive (booked and held by the module)
			amt := e.randCoins(2, []int64{5, 100, 1000, 40})
			opCoq = fmt.Sprintf("CSeed %d %s", ci, lcoins(amt))
			j["op"], j["amt"] = "seed_donations", amt.String()
			f = func(c sdk.Context) error {
				col := k.GetCollective(c, collNames[ci])
				if col.Name == "" {
					return coltypes.ErrCollectiveDoesNotExist
				}
				if err := e.app.BankKeeper.MintCoins(c, minttypes.ModuleName, amt); err != nil {
					return err
				}
				if err := e.app.BankKeeper.SendCoinsFromModuleToModule(c, minttypes.ModuleName, coltypes.ModuleName, amt); err != nil {
					return err
				}
				col.Donations = sdk.Coins(col.Donations).Add(amt...)
				k.SetCollective(c, col)
				return nil
			}
		case choice < 95: // send-donation proposal
			to := r.Intn(len(e.accts))
			amt := e.randCoins(2, []int64{1, 5, 50, 100, 2000})
			opCoq = fmt.Sprintf("CSendDonation %d %d %s", ci, to, lcoins(amt))
			j["op"], j["to"], j["amt"] = "send_donation_proposal", to, amt.String()
			f = func(c sdk.Context) error {
				return collectives.NewApplyCollectiveSendDonationProposalHandler(k).Apply(c, 1, &coltypes.ProposalCollectiveSendDonation{Name: collNames[ci], Address: e.accts[to].String(), Amounts: amt}, sdk.ZeroDec())
			}
		case choice < 98: // address rotation of a contributor (x/recovery): funds, roles and bond records move
			a := r.Intn(len(e.accts))
			if cs := contributors(ci); len(cs) > 0 && r.Chance(85) {
				a = cs[r.Intn(len(cs))]
			}
			a2 := e.spares[r.Intn(len(e.spares))]
			if r.Chance(5) {
				a2 = r.Intn(len(e.accts))
			}
			pre, ff := e.rotate(h, a, a2, !r.Chance(10))
			opCoq = fmt.Sprintf("CRotate %d %d %s", a, a2, hx.B(pre))
			j["op"], j["a"], j["to"], j["pre_ok"] = "rotate_address", a, a2, pre
			f = ff
		default: // remove proposal
			opCoq = fmt.Sprintf("CRemove %d", ci)
			j["op"] = "remove_proposal"
			f = func(c sdk.Context) error {
				return collectives.NewApplyCollectiveRemoveProposalHandler(k).Apply(c, 1, &coltypes.ProposalCollectiveRemove{Name: collNames[ci]}, sdk.ZeroDec())
			}
		}
		err, pan := e.run(h, now, f)
		rc := resCode(err, pan)
		if rc == 0 && fo == nil && !witness && lastDonate.a >= 0 && !lastDlock && int64(lastDonate.lock) > now && r.Chance(60) {
			again := lastDonate
			again.lock = []uint64{0, lastDonate.lock - 1, lastDonate.lock, uint64(now), 0, 1}[r.Intn(6)]
			if r.Chance(30) {
				again.don = sdk.MustNewDecFromStr(donationStrs[r.Intn(len(donationStrs))])
			}
			forced = append(forced, again, forcedOp{choice: 60, a: lastDonate.a, ci: ci})
		}
		// every history ends with all contributors withdrawing after their lock has expired
		if step == nops-1 && !finale && !witness {
			finale = true
			for cj, n := range collNames {
				for _, cc := range k.GetCollectiveContributers(h, n) {
					forced = append(forced, forcedOp{choice: 60, a: e.acctID[cc.Address], ci: cj, at: int64(cc.Locking) + r.Range(0, 1)})
				}
			}
			nops += len(forced)
		}
		dl, nb, dj := e.deltas(h, bals)
		bals = nb
		obs := e.collObs(h)
		steps = append(steps, fmt.Sprintf("(%d, %s, mkCO %d %s %s %s)", now, opCoq, rc, obs, lcoins(e.balances(h, modAddr)), dl))
		j["res"], j["err"], j["deltas"], j["collectives"] = rc, errStr(err, pan), dj, obs
		js = append(js, j)
		e.dist.Inc(fmt.Sprintf("coll:%s:%s", j["op"], []string{"ok", "rejected", "panic"}[rc]))
	}
	kind := "coll"
	if witness {
		kind = "coll_drift_witness"
	}
	return fmt.Sprintf("CColl %s %s %s", bank0, mod0, hx.List(steps)), map[string]interface{}{"kind": kind, "id": id, "bank0": bank0, "mod0": mod0, "ops": js}
}

// ================================================================ probes
// Three small fixed runs decide which variant of the model the tree is compared with (each variant
// is a parameter of the Coq model; the theorems are stated for both values).
func (e *env) probes() map[string]bool {
	out := map[string]bool{}
	// 1. spending EndBlocker with DynamicRatePeriod = 0 and a registered beneficiary: panic or skip
	{
		c, _ := e.base.CacheContext()
		k := e.app.SpendingKeeper
		k.SetSpendingPool(c, sptypes.SpendingPool{Name: "probe", Rates: sdk.DecCoins{}, VoteQuorum: sdk.NewDecWithPrec(51, 2), Owners: &sptypes.PermInfo{},
			Beneficiaries: &sptypes.WeightedPermInfo{Accounts: []sptypes.WeightedAccount{{Account: e.accts[0].String(), Weight: sdk.OneDec()}}},
			Balances: sdk.NewCoins(sdk.NewInt64Coin("ukex", 100)), DynamicRate: true, DynamicRatePeriod: 0})
		k.SetClaimInfo(c, sptypes.ClaimInfo{PoolName: "probe", Account: e.accts[0].String(), LastClaim: uint64(T0)})
		out["spending_endblock_guards_denominator"] = hx.Try(func() { k.EndBlocker(c) }) == ""
	}
	// 1b. a claim the pool's recorded balance does not cover: panic (Coins.Sub) or error
	{
		c, _ := e.base.CacheContext()
		k := e.app.SpendingKeeper
		k.SetSpendingPool(c, sptypes.SpendingPool{Name: "probe", ClaimExpiry: 1000000, Rates: sdk.DecCoins{sdk.NewDecCoin("ukex", sdk.NewInt(10))}, VoteQuorum: sdk.NewDecWithPrec(51, 2), Owners: &sptypes.PermInfo{},
			Beneficiaries: &sptypes.WeightedPermInfo{Accounts: []sptypes.WeightedAccount{{Account: e.accts[0].String(), Weight: sdk.OneDec()}}},
			Balances: sdk.NewCoins(sdk.NewInt64Coin("ukex", 1))})
		k.SetClaimInfo(c, sptypes.ClaimInfo{PoolName: "probe", Account: e.accts[0].String(), LastClaim: uint64(T0 - 100)})
		var err error
		pan := hx.Try(func() { err = k.ClaimSpendingPool(c, "probe", e.accts[0]) })
		out["spending_payout_returns_error"] = pan == "" && err != nil
	}
	// 1c. vote quorum outside [0,1] refused by ValidateBasic of the create message and the update proposal
	{
		m := &sptypes.MsgCreateSpendingPool{Name: "probe", VoteQuorum: sdk.MustNewDecFromStr("1.5"), Sender: e.accts[0].String()}
		u := &sptypes.UpdateSpendingPoolProposal{Name: "probe", VoteQuorum: sdk.MustNewDecFromStr("1.5")}
		out["spending_quorum_range_checked"] = m.ValidateBasic() != nil && u.ValidateBasic() != nil
	}
	// 2b. ubi upsert with a zero period: integer division panic or refused (sdk.Int arithmetic shape)
	{
		c, _ := e.base.CacheContext()
		var err error
		pan := hx.Try(func() {
			err = ubi.NewApplyUpsertUBIProposalHandler(e.app.UbiKeeper, e.app.CustomGovKeeper, e.app.SpendingKeeper).Apply(c, 1,
				&ubitypes.UpsertUBIProposal{Name: "probe", Amount: 1, Period: 0, Pool: "ValidatorBasicRewardsPool"}, sdk.ZeroDec())
		})
		out["ubi_sums_in_big_integers"] = pan == "" && err != nil
	}
	// 2. ubi EndBlocker on a record whose last+period exceeds 2^64: distributed (wrap-around) or not
	{
		c, _ := e.base.CacheContext()
		uk := e.app.UbiKeeper
		for _, rec := range uk.GetUBIRecords(c) {
			uk.DeleteUBIRecord(c, rec.Name)
		}
		uk.SetUBIRecord(c, ubitypes.UBIRecord{Name: "probe", DistributionStart: uint64(T0 - 5), DistributionLast: uint64(T0 - 5), Amount: 1, Period: 1<<64 - 1, Pool: "ValidatorBasicRewardsPool"})
		ubi.EndBlocker(c, uk)
		out["ubi_gate_without_wraparound"] = uk.GetUBIRecordByName(c, "probe").DistributionLast == uint64(T0-5)
	}
	// 3. remove proposal on a collective whose donation address is one unit short: error returned or swallowed
	{
		c, _ := e.base.CacheContext()
		k := e.app.CollectivesKeeper
		ms := colkeeper.NewMsgServerImpl(k)
		e.fund(c, e.accts[0], sdk.NewCoins(sdk.NewInt64Coin("xeth", 10)))
		must := func(err error) {
			if err != nil {
				panic(err)
			}
		}
		_, err := ms.CreateCollective(sdk.WrapSDKContext(c), &coltypes.MsgCreateCollective{Sender: e.accts[0].String(), Name: "probe", Description: "d", Bonds: sdk.NewCoins(sdk.NewInt64Coin("xeth", 10)),
			DepositWhitelist: coltypes.DepositWhitelist{Any: true}, OwnersWhitelist: coltypes.OwnersWhitelist{Accounts: []string{e.accts[0].String()}},
			SpendingPools: []coltypes.WeightedSpendingPool{{Name: "nopool", Weight: sdk.OneDec()}}, ClaimPeriod: 20000, VoteQuorum: sdk.NewDecWithPrec(51, 2), VotePeriod: 600, VoteEnactment: 300})
		must(err)
		for _, d := range []string{"0.5", "1", "0.5", "0.75"} {
			_, err := ms.DonateCollective(sdk.WrapSDKContext(c), &coltypes.MsgDonateCollective{Sender: e.accts[0].String(), Name: "probe", Locking: 0, Donation: sdk.MustNewDecFromStr(d)})
			must(err)
		}
		out["collective_remove_returns_error"] = collectives.NewApplyCollectiveRemoveProposalHandler(k).Apply(c, 1, &coltypes.ProposalCollectiveRemove{Name: "probe"}, sdk.ZeroDec()) != nil
	}
	return out
}

// ================================================================ main
func main() {
	outDir := flag.String("out", ".", "output directory")
	n := flag.Int("n", 300, "number of histories")
	flag.Parse()
	out := hx.Out{Dir: *outDir}
	seed := hx.Seed()
	app := hx.NewApp()
	base := hx.Ctx(app, 10, T0)
	e := &env{app: app, base: base, r: hx.NewRng(seed), dist: hx.Counter{}, acctID: map[string]int{}, roles: map[int][]uint64{}}

	// accounts, sorted by bech32 string (the order of the collectives' contributor index)
	for i := 0; i < 9; i++ {
		e.accts = append(e.accts, sdk.AccAddress(fmt.Sprintf("c18_account_%d_______", i)))
	}
	e.funded, e.spares = []int{0, 1, 3, 4, 6, 7}, []int{2, 5, 8}
	e.payer = sdk.AccAddress("c18_fee_payer_______")
	sort.Slice(e.accts, func(i, j int) bool { return e.accts[i].String() < e.accts[j].String() })
	for i, a := range e.accts {
		e.acctID[a.String()] = i
	}
	e.roles = map[int][]uint64{1: {10}, 3: {11, 10}, 4: {10, 11}, 6: {12}}
	for i := 0; i < 9; i++ {
		if rs, ok := e.roles[i]; ok {
			actor := govtypes.NewDefaultActor(e.accts[i])
			app.CustomGovKeeper.SaveNetworkActor(base, actor)
			for _, ro := range rs {
				actor, _ = app.CustomGovKeeper.GetNetworkActorByAddress(base, e.accts[i])
				app.CustomGovKeeper.AssignRoleToActor(base, actor, ro)
			}
		}
	}
	// every funded account has registered a recovery secret; rotations are paid by a separate account
	e.fund(base, e.payer, sdk.NewCoins(sdk.NewInt64Coin("ukex", 1000000000000000)))
	for _, i := range e.funded {
		sum := sha256.Sum256([]byte(fmt.Sprintf("c18 recovery secret %d", i)))
		if _, err := reckeeper.NewMsgServerImpl(app.RecoveryKeeper).RegisterRecoverySecret(sdk.WrapSDKContext(base),
			&rectypes.MsgRegisterRecoverySecret{Address: e.accts[i].String(), Challenge: hex.EncodeToString(sum[:]), Nonce: "00"}); err != nil {
			panic(err)
		}
	}
	// the module accounts exist (as after genesis), so a plain transfer cannot create a base account there
	app.AccountKeeper.GetModuleAccount(base, sptypes.ModuleName)
	app.AccountKeeper.GetModuleAccount(base, coltypes.ModuleName)
	// configuration: no bond-value threshold for collectives, a roomy UBI hard cap
	props := app.CustomGovKeeper.GetNetworkProperties(base)
	props.MinCollectiveBond = 0
	props.UbiHardcap = 1000000000000
	if err := app.CustomGovKeeper.SetNetworkProperties(base, props); err != nil {
		panic(err)
	}

	probes := e.probes()
	var cases []string
	var js []interface{}
	add := func(c string, j interface{}) { cases = append(cases, c); js = append(js, j) }
	add(e.ubiHistory(0, true)) // the uint64 wrap-around witness of Properties/C18.v, replayed on the real code
	add(e.collHistory(0, true)) // the rounding-drift witness (refused withdrawal, partial removal payout)
	for i := 1; i <= *n; i++ {
		switch i % 5 {
		case 0, 1, 2:
			add(e.spendingHistory(i))
		case 3:
			add(e.ubiHistory(i, false))
		default:
			add(e.collHistory(i, false))
		}
	}

	var pre strings.Builder
	pre.WriteString("(* written by /verif/harness/cmd/c18 -- observations of the real code *)\n")
	pre.WriteString("From Sekai Require Import Base.Prelude Base.Dec Model.Spending Model.Ubi Model.Collectives Model.C18Check.\n")
	var as []string
	// actors in raw address byte order: the order of the role -> actor index (GetNetworkActorsByRole)
	byBytes := []int{0, 1, 2, 3, 4, 5, 6, 7, 8}
	sort.Slice(byBytes, func(i, j int) bool { return string(e.accts[byBytes[i]]) < string(e.accts[byBytes[j]]) })
	for _, i := range byBytes {
		if rs, ok := e.roles[i]; ok {
			var xs []string
			for _, x := range rs {
				xs = append(xs, hx.ZU(x))
			}
			as = append(as, hx.Pair(hx.Z(int64(i)), hx.List(xs)))
		}
	}
	pre.WriteString("Definition c18_actors : list (Z * list Z) := " + hx.List(as) + ".\n")
	pre.WriteString("Definition c18_order : list Z := " + zlist(byBytes) + ".\n")
	pre.WriteString("Definition c18_denoms : list Z := [0; 1; 2].\n")
	pre.WriteString("(* model variants, decided by probing the tree *)\n")
	pre.WriteString("Definition c18_dynguard : bool := " + hx.B(probes["spending_endblock_guards_denominator"]) + ".\n")
	pre.WriteString("Definition c18_payout_safe : bool := " + hx.B(probes["spending_payout_returns_error"]) + ".\n")
	pre.WriteString("Definition c18_quorum_checked : bool := " + hx.B(probes["spending_quorum_range_checked"]) + ".\n")
	pre.WriteString("Definition c18_ubi_bigint : bool := " + hx.B(probes["ubi_sums_in_big_integers"]) + ".\n")
	pre.WriteString("Definition c18_gate_exact : bool := " + hx.B(probes["ubi_gate_without_wraparound"]) + ".\n")
	pre.WriteString("Definition c18_remove_atomic : bool := " + hx.B(probes["collective_remove_returns_error"]) + ".\n")
	out.WriteFile("pre.v", pre.String())
	out.WriteFile("cases.txt", strings.Join(cases, "\n")+"\n")
	out.WriteJSON("meta.json", map[string]string{"case_type": "c18_case", "mismatch_fn": "c18_mismatches c18_dynguard c18_payout_safe c18_quorum_checked c18_gate_exact c18_ubi_bigint c18_remove_atomic c18_actors c18_order c18_denoms", "violation_fn": "c18_violations c18_actors c18_order c18_denoms"})
	out.WriteJSON("cases.json", js)
	out.WriteJSON("dist.json", map[string]interface{}{"seed": seed, "histories": len(js), "ops_by_kind_and_result": e.dist, "probes": probes, "accounts": len(e.accts), "denoms": denoms})
	fmt.Fprintf(os.Stderr, "c18: %d histories\n", len(js))
}
