// c14: runs the REAL ante handler (customante.NewAnteHandler, full chain) and, for admitted
// transactions, the real message handlers, over message type x position x freeze settings x
// validator counts around the minimum; writes the observations for the Coq model and checker.
package main

import (
	"crypto/sha256"
	"encoding/hex"
	"flag"
	"fmt"
	"os"
	"strings"

	"verif/harness/c09lib"
	"verif/harness/hx"

	recoverytypes "github.com/KiraCore/sekai/x/recovery/types"
	tokens "github.com/KiraCore/sekai/x/tokens"
	tokenstypes "github.com/KiraCore/sekai/x/tokens/types"
	sdk "github.com/cosmos/cosmos-sdk/types"
)

// a passed TokensWhiteBlackChange proposal, applied through the real proposal handler
type wbProp struct {
	Black  bool     `json:"is_blacklist"`
	Add    bool     `json:"is_add"`
	Tokens []string `json:"tokens"`
}

var defaultPoor = []string{"submit_proposal", "set_network_properties", "vote_proposal", "claim_councilor", "whitelist_permissions",
	"blacklist_permissions", "create_role", "assign_role", "unassign_role", "whitelist_role_permission", "blacklist_role_permission",
	"remove_whitelist_role_permission", "remove_blacklist_role_permission", "claim_validator", "activate", "pause", "unpause"}

func defaultTokens() []c09lib.Tok {
	return []c09lib.Tok{{"ukex", sdk.NewDec(1), true}, {"ubtc", sdk.NewDec(10), true}, {"xeth", sdk.NewDecWithPrec(1, 1), true}, {"frozen", sdk.NewDecWithPrec(1, 1), true},
		{c09lib.IbcDenom, sdk.NewDec(2), true}, {c09lib.MixDenom, sdk.NewDecWithPrec(5, 1), false}}
}

func baseCfg() *c09lib.Cfg {
	return &c09lib.Cfg{Tokens: defaultTokens(), Black: []string{"frozen"}, White: []string{"ukex"}, EnBlack: true, EnWhite: false, Foreign: true,
		MinFee: 100, MaxFee: 1000000, NVals: 1, MinVals: 1, PoorMsgs: defaultPoor, MaxSend: 1000}
}

func subset(r *hx.Rng, xs []string, pct int) []string {
	var out []string
	for _, x := range xs {
		if r.Chance(pct) {
			out = append(out, x)
		}
	}
	return out
}

func randCfg(r *hx.Rng) *c09lib.Cfg {
	c := baseCfg()
	for i := range c.Tokens {
		if r.Chance(10) {
			c.Tokens[i].FeeEnabled = false
		}
	}
	c.Black = subset(r, []string{"frozen", "ubtc", "ukex", "xeth", "ufoo", c09lib.IbcDenom, c09lib.MixDenom}, 35)
	c.White = subset(r, []string{"ukex", "ubtc", "xeth", "frozen", c09lib.IbcDenom, c09lib.MixDenom}, 50)
	c.EnBlack, c.EnWhite = r.Chance(70), r.Chance(35)
	c.Foreign = r.Chance(70)
	c.ViaGov = r.Chance(30)
	c.NVals = 1 + r.Intn(4)
	c.MinVals = uint64(1 + r.Intn(5))
	if r.Chance(3) {
		c.MinVals = 1 << 63
	}
	switch r.Intn(4) {
	case 0:
		c.PoorMsgs = defaultPoor
	case 1:
		c.PoorMsgs = subset(r, []string{"set_network_properties", "register_identity_records", "upsert_token_info", "multisend", "custody_send", "send", "set_execution_fee"}, 40)
	case 2:
		c.PoorMsgs = []string{"set_network_properties", "register_identity_records"}
	default:
		c.PoorMsgs = nil
	}
	c.MaxSend = []uint64{1000, 1, 500000, 999}[r.Intn(4)]
	if r.Chance(15) {
		c.Exec = []c09lib.ExecFee{{"send", 150, 50}, {"set_network_properties", 300, 400}}
	}
	return c
}

type gen struct {
	r      *hx.Rng
	e      *c09lib.Env
	nmark  int
	people []string
}

func (g *gen) coins(c *c09lib.Cfg, wantDenom string) sdk.Coins {
	return c09lib.CoinSet(g.r, c.MaxSend, wantDenom)
}

func (g *gen) msg(c *c09lib.Cfg, kind, from, denom string) c09lib.M {
	r := g.r
	to := g.people[r.Intn(len(g.people))]
	if r.Chance(3) {
		to = c09lib.Collector
	}
	switch kind {
	case "send":
		return c09lib.M{Kind: "send", From: from, To: to, Amt: g.coins(c, denom)}
	case "custody_send":
		return c09lib.M{Kind: "custody_send", From: from, To: to, Amt: g.coins(c, denom)}
	case "multisend":
		a := g.coins(c, denom)
		return c09lib.M{Kind: "multisend", From: from, Amt: a, Outs: c09lib.SplitOutputs(r, a, g.people)}
	case "eth":
		amt := int64(r.Intn(2000))
		if r.Chance(50) {
			amt = int64(c.MaxSend) + int64(r.Intn(3)) - 1
		}
		rem := int64(0)
		if r.Chance(30) {
			rem = int64(r.Intn(1000000))
		}
		return c09lib.M{Kind: "eth", From: from, To: to, EthAmt: amt, EthRem: rem}
	case "register_identity_records":
		g.nmark++
		return c09lib.M{Kind: "other", From: from, Ty: kind, Fails: false, Mark: fmt.Sprintf("k%d", g.nmark)}
	default:
		return c09lib.M{Kind: "other", From: from, Ty: kind, Fails: true}
	}
}

var kinds = []string{"send", "multisend", "custody_send", "register_identity_records", "set_network_properties", "upsert_token_info", "set_execution_fee"}

func main() {
	outDir := flag.String("out", ".", "output directory")
	n := flag.Int("n", 300, "number of random cases (on top of the systematic sweep)")
	flag.Parse()
	out := hx.Out{Dir: *outDir}
	seed := hx.Seed()
	r := hx.NewRng(seed)
	e, base := c09lib.NewEnv(4)
	rich := sdk.Coins{}
	for _, d := range c09lib.Denoms {
		rich = rich.Add(sdk.NewInt64Coin(d, 1000000000000))
	}
	for _, a := range e.Accs {
		e.Fund(base, a.Addr, rich)
	}
	s0, _ := e.Stranger(0)
	g := &gen{r: r, e: e, people: []string{"a0", "a1", "a2", "a3", s0}}
	watch := []string{"a0", "a1", "a2", "a3", "e0", "e1", s0, c09lib.Collector}
	dist := hx.Counter{}
	var lines []string
	var js []interface{}

	var props []wbProp // proposals applied after the configuration, for the next run only
	var streamCtx *sdk.Context      // when set, run() continues in this context (the configuration is already applied)
	var preOps []interface{}        // operations executed in the stream before the next transaction (for the replay file)
	run := func(c *c09lib.Cfg, t c09lib.TxSpec, tag string) {
		ctx, _ := base.CacheContext()
		if streamCtx != nil {
			ctx = *streamCtx
		} else if err := e.Apply(ctx, c); err != nil {
			dist.Inc("config-refused")
			return
		}
		myProps := props
		props = nil
		var propCoq []string
		var propJS []interface{}
		for i, p := range myProps {
			h := tokens.NewApplyWhiteBlackChangeProposalHandler(e.App.TokensKeeper)
			var perr error
			pp := hx.Try(func() {
				perr = h.Apply(ctx, uint64(i+1), &tokenstypes.ProposalTokensWhiteBlackChange{IsBlacklist: p.Black, IsAdd: p.Add, Tokens: append([]string{}, p.Tokens...)}, sdk.ZeroDec())
			})
			if pp != "" || perr != nil {
				panic(fmt.Sprintf("proposal handler: %v %v", pp, perr))
			}
			bw := e.App.TokensKeeper.GetTokenBlackWhites(ctx)
			propCoq = append(propCoq, hx.Pair(fmt.Sprintf("mkProp %s %s %s", hx.B(p.Black), hx.B(p.Add), c09lib.StrListCoq(p.Tokens)),
				hx.Pair(c09lib.StrListCoq(bw.Blacklisted), c09lib.StrListCoq(bw.Whitelisted))))
			propJS = append(propJS, map[string]interface{}{"proposal": p, "blacklist_after": bw.Blacklisted, "whitelist_after": bw.Whitelisted})
			dist.Inc(fmt.Sprintf("proposal:black=%v:add=%v", p.Black, p.Add))
		}
		accts := e.AcctsCoq(ctx, watch)
		before := e.Balances(ctx, watch)
		tx, _, err := e.BuildTx(t, ctx.ChainID())
		if err != nil {
			panic(err)
		}
		class := 0
		errText := ""
		anteCtx, write := ctx.CacheContext()
		p := hx.Try(func() {
			// baseapp runTx: validateBasicTxMsgs before the ante handler
			for _, m := range tx.GetMsgs() {
				if err = m.ValidateBasic(); err != nil {
					return
				}
			}
			_, err = e.Ante(anteCtx, tx, false)
		})
		switch {
		case p != "":
			class, errText = 3, "panic: "+p
		case err != nil:
			class, errText = 1, err.Error()
		default:
			write()
			msgCtx, mwrite := ctx.CacheContext()
			for i, m := range tx.GetMsgs() {
				h := e.App.MsgServiceRouter().Handler(m)
				if h == nil {
					class, errText = 2, "no handler"
					break
				}
				var herr error
				pp := hx.Try(func() { _, herr = h(msgCtx, m) })
				if pp != "" {
					class, errText = 4, "panic in message: "+pp
					break
				}
				if herr != nil {
					class, errText = 2, fmt.Sprintf("message %d: %s", i, herr.Error())
					break
				}
			}
			if class == 0 {
				mwrite()
			}
		}
		after := e.Balances(ctx, watch)
		deltas := c09lib.Deltas(before, after)
		signers := c09lib.SignersOf(t)
		obs := fmt.Sprintf("(mkObs %d %s %s %s %s [])", class, c09lib.DeltasCoq(deltas), e.AcctsCoq(ctx, signers), e.ExecsCoq(ctx),
			c09lib.StrListCoq(e.MarksPresent(ctx, t.Msgs)))
		rel := c09lib.NewRel()
		rel.AddTx(t)
		rel.AddDeltas(deltas)
		if len(myProps) > 0 {
			lines = append(lines, fmt.Sprintf("C14Gov %s %s %s %s %s %s %s %s", e.CfgCoq(c), hx.List(propCoq), accts, c09lib.BalsCoqFor(before, rel), c09lib.StrListCoq(watch),
				c09lib.StrListCoq(rel.List()), t.Coq(), obs))
		} else {
			lines = append(lines, fmt.Sprintf("C14Tx %s %s %s %s %s %s %s", e.CfgCoq(c), accts, c09lib.BalsCoqFor(before, rel), c09lib.StrListCoq(watch),
				c09lib.StrListCoq(rel.List()), t.Coq(), obs))
		}
		var types []string
		for _, m := range t.Msgs {
			types = append(types, m.Type())
		}
		js = append(js, map[string]interface{}{"level": "ante handler + message handlers", "tag": tag, "config": c.JSON(), "tx": t.JSON(), "class": class,
			"class_meaning": "0 delivered | 1 rejected by ante | 2 message failed | 3 panic in ante | 4 panic in a message after admission", "error": errText, "balance_deltas": deltas, "msg_types": types, "governance_proposals_applied_first": propJS, "operations_executed_before_in_the_same_state": preOps})
		weak := uint64(c.NVals) < c.MinVals
		dist.Inc(fmt.Sprintf("class%d", class))
		dist.Inc(fmt.Sprintf("weak=%v:class%d", weak, class))
		dist.Inc(fmt.Sprintf("msgs=%d", len(t.Msgs)))
		for i, ty := range types {
			dist.Inc(fmt.Sprintf("type:%s@%d", ty, i))
		}
	}
	fee := func(amt int64) []sdk.Coin { return []sdk.Coin{sdk.NewInt64Coin("ukex", amt)} }

	// ---- systematic sweep: message kind x position x (frozen denom | native) x (healthy | weak network)
	for _, weak := range []bool{false, true} {
		for _, k := range append(append([]string{}, kinds...), "eth") {
			for pos := 0; pos < 3; pos++ {
				for _, denom := range []string{"frozen", "ukex", "ubtc"} {
					if pos > 0 && denom == "ubtc" {
						continue
					}
					c := baseCfg()
					if weak {
						c.MinVals = 2
					}
					if denom == "ubtc" {
						c.EnWhite = true // ubtc is frozen by absence from the whitelist
					}
					var ms []c09lib.M
					c.PoorMsgs = append(append([]string{}, defaultPoor...), "register_identity_records")
					for i := 0; i < pos; i++ {
						ms = append(ms, g.msg(c, "register_identity_records", "a0", ""))
					}
					if k == "eth" {
						// Ethereum native send: one message per transaction, signed by the raw transaction itself
						if pos > 0 || denom != "ukex" {
							continue
						}
						for _, listed := range []bool{false, true} {
							c2 := *c
							if listed {
								c2.PoorMsgs = append(append([]string{}, c.PoorMsgs...), "ethereum_tx")
							}
							c2.Black = []string{"frozen", "ukex"} // the native token on the blacklist is still not frozen
							run(&c2, c09lib.TxSpec{Fee: fee(200), Msgs: []c09lib.M{g.msg(&c2, "eth", "e0", "")}, Seqs: []uint64{0}, SigOK: true}, "sweep-eth")
						}
						continue
					}
					ms = append(ms, g.msg(c, k, "a0", denom))
					if pos == 1 {
						ms = append(ms, c09lib.M{Kind: "send", From: "a0", To: "a1", Amt: sdk.NewCoins(sdk.NewInt64Coin("ukex", 5))})
					}
					run(c, c09lib.TxSpec{Fee: fee(200), Msgs: ms, Seqs: []uint64{0}, SigOK: true}, "sweep")
				}
			}
		}
	}
	// GOVERNANCE of the freeze lists through the real proposal handler: add / remove x blacklist / whitelist x token
	// lists with already-listed + new tokens in every order, duplicates, the native token, the empty list;
	// then a send of / a fee in a token the proposal names, and a two-coin send
	{
		K := func(d string, v int64) sdk.Coin { return sdk.NewInt64Coin(d, v) }
		lists := [][]string{{"frozen", c09lib.IbcDenom, "ubtc"}, {c09lib.MixDenom, "ubtc"}, {"frozen", "ubtc"}, {"ubtc", "frozen"}, {"ubtc", "ubtc", "xeth"}, {}, {"ukex", "ubtc"}, {"xeth", "frozen", "ubtc"}, {"ubtc"}, {"frozen", "frozen"}, {"ufoo", "frozen", "xeth", "ubtc"}}
		for _, black := range []bool{true, false} {
			for _, add := range []bool{true, false} {
				for _, l := range lists {
					for v := 0; v < 3; v++ {
						c := baseCfg()
						c.Black, c.White = []string{"frozen"}, []string{"ukex", "frozen"}
						if !add { // something to remove
							c.Black, c.White = []string{"frozen", "xeth", "ubtc", c09lib.IbcDenom}, []string{"ukex", "frozen", c09lib.MixDenom, "ubtc", "xeth", c09lib.IbcDenom}
						}
						c.EnBlack, c.EnWhite = black, !black
						props = []wbProp{{Black: black, Add: add, Tokens: l}}
						if v == 2 { // a second proposal on top of the first
							props = append(props, wbProp{Black: black, Add: !add, Tokens: []string{"xeth"}})
						}
						switch v {
						case 0:
							run(c, c09lib.TxSpec{Fee: fee(150), Msgs: []c09lib.M{{Kind: "send", From: "a2", To: "a3", Amt: sdk.Coins{K("ubtc", 5)}}}, Seqs: []uint64{0}, SigOK: true}, "governance")
						case 1:
							run(c, c09lib.TxSpec{Fee: []sdk.Coin{K("ubtc", 50)}, Msgs: []c09lib.M{{Kind: "send", From: "a2", To: "a3", Amt: sdk.Coins{K("ukex", 5)}}}, Seqs: []uint64{0}, SigOK: true}, "governance")
						default:
							run(c, c09lib.TxSpec{Fee: fee(150), Msgs: []c09lib.M{g.msg(c, "register_identity_records", "a2", ""), {Kind: "send", From: "a2", To: "a3", Amt: sdk.Coins{K(c09lib.IbcDenom, 2), K("ubtc", 5), K("xeth", 4)}}}, Seqs: []uint64{0}, SigOK: true}, "governance")
						}
					}
				}
			}
		}
	}
	// coin SETS: every transfer message kind x position x healthy/weak network x a fixed list of sets
	// (native within / above the limit plus foreign coins, frozen coin first / second / third, foreign only,
	// reversed and duplicated sets), judged per coin by the checker
	{
		K := func(d string, v int64) sdk.Coin { return sdk.NewInt64Coin(d, v) }
		sets := []sdk.Coins{
			{K("ubtc", 7), K("ukex", 1000)},               // native at the limit + foreign
			{K("ubtc", 7), K("ukex", 1001)},               // native above the limit + foreign
			{K("ukex", 999), K("xeth", 3)},                // native within the limit first, foreign second
			{K("frozen", 5), K("ukex", 10)},               // frozen first
			{K("ubtc", 5), K("xeth", 4)},                  // (whitelist mode) frozen second
			{K("ubtc", 5), K("ukex", 10), K("xeth", 4)},   // (whitelist mode) frozen third, native in the middle
			{K("frozen", 5), K("ubtc", 6), K("ukex", 1000)},
			{K("ubtc", 9)},                                // foreign only
			{K("ukex", 10), K("ubtc", 7)},                 // reversed: not canonical
			{K("ukex", 10), K("ukex", 10)},                // duplicated denomination
		}
		for _, weak := range []bool{false, true} {
			for _, wl := range []bool{false, true} {
				for _, k := range []string{"send", "multisend", "custody_send"} {
					for pos := 0; pos < 2; pos++ {
						for _, set := range sets {
							c := baseCfg()
							if weak {
								c.MinVals = 2
							}
							if wl {
								c.EnWhite, c.White = true, []string{"ukex", "ubtc"}
							}
							c.PoorMsgs = []string{"register_identity_records"}
							if k != "send" && pos == 1 {
								c.PoorMsgs = append(c.PoorMsgs, k) // the message type itself is on the allowed list
							}
							var ms []c09lib.M
							for i := 0; i < pos; i++ {
								ms = append(ms, g.msg(c, "register_identity_records", "a3", ""))
							}
							m := c09lib.M{Kind: k, From: "a3", To: "a1", Amt: set}
							if k == "multisend" {
								m.Outs = c09lib.SplitOutputs(r, set, g.people)
							}
							ms = append(ms, m)
							run(c, c09lib.TxSpec{Fee: fee(180), Msgs: ms, Seqs: []uint64{0}, SigOK: true}, "coin-sets")
						}
					}
				}
			}
		}
	}
	// the shared freeze-configuration sweep (c09lib.FreezeSweep): every corner x every path
	quick := os.Getenv("VERIF_TIER") != "thorough"
	for fi, fc := range c09lib.FreezeSweep(baseCfg) {
		tok := sdk.NewCoins(sdk.NewInt64Coin(fc.Token, 5))
		nat := sdk.NewCoins(sdk.NewInt64Coin("ukex", 3))
		run(fc.Cfg, c09lib.TxSpec{Fee: fee(170), Msgs: []c09lib.M{{Kind: "send", From: "a2", To: "a3", Amt: tok}}, Seqs: []uint64{0}, SigOK: true}, fc.Tag+":send")
		if fc.Token == "UBTC" || fc.Token == "UKEX" || fc.Token == "FROZEN" {
			// unregistered case look-alikes: the send and fee paths above are enough
		} else if fc.Token == c09lib.IbcDenom || fc.Token == c09lib.MixDenom {
			// case-sensitive denominations: also as the second message of a transaction
			run(fc.Cfg, c09lib.TxSpec{Fee: fee(170), Msgs: []c09lib.M{g.msg(fc.Cfg, "register_identity_records", "a2", ""), {Kind: "send", From: "a2", To: "a3", Amt: tok}}, Seqs: []uint64{0}, SigOK: true}, fc.Tag+":send-second")
		} else if !quick || fi%3 == 0 { // the two unfiltered paths: every third corner in the quick tier, all in the thorough tier
			run(fc.Cfg, c09lib.TxSpec{Fee: fee(170), Msgs: []c09lib.M{{Kind: "multisend", From: "a2", Amt: tok, Outs: []c09lib.Out{{To: "a3", Amt: tok}}}}, Seqs: []uint64{0}, SigOK: true}, fc.Tag+":multisend")
			run(fc.Cfg, c09lib.TxSpec{Fee: fee(170), Msgs: []c09lib.M{{Kind: "custody_send", From: "a2", To: "a3", Amt: tok}}, Seqs: []uint64{0}, SigOK: true}, fc.Tag+":custody_send")
		}
		run(fc.Cfg, c09lib.TxSpec{Fee: []sdk.Coin{fc.Fee}, Msgs: []c09lib.M{{Kind: "send", From: "a2", To: "a3", Amt: nat}}, Seqs: []uint64{0}, SigOK: true}, fc.Tag+":fee")
		if fc.Token == "ukex" {
			run(fc.Cfg, c09lib.TxSpec{Fee: fee(170), Msgs: []c09lib.M{{Kind: "eth", From: "e0", To: "a3", EthAmt: 5}}, Seqs: []uint64{0}, SigOK: true}, fc.Tag+":eth")
		}
	}
	// ROTATION STREAM (LESSONS item 2): validator count at minimum-1 / minimum / minimum+1; the weak-network filter is probed
	// before and after each address rotation of a validator (x/recovery MsgRotateValidatorByHalfRRTokenHolder and
	// MsgRotateRecoveryAddress, executed through the real message handlers).  The count the checker judges by is the ghost
	// count: rotations replace a validator, they never add one.
	for _, kind := range []string{"rr-holder", "secret"} {
		for minv := 2; minv <= 3; minv++ {
			for d := -1; d <= 1; d++ {
				c := baseCfg()
				c.MinVals, c.NVals = uint64(minv), minv+d
				c.PoorMsgs = []string{"register_identity_records"}
				sctx, _ := base.CacheContext()
				if err := e.Apply(sctx, c); err != nil {
					panic(err)
				}
				streamCtx, preOps = &sctx, nil
				seq := func(n string) uint64 { return e.App.AccountKeeper.GetAccount(sctx, e.AddrOf(n)).GetSequence() }
				probe := func(tag string) {
					run(c, c09lib.TxSpec{Fee: fee(150), Msgs: []c09lib.M{g.msg(c, "upsert_token_info", "a1", "")}, Seqs: []uint64{seq("a1")}, SigOK: true}, tag)
					run(c, c09lib.TxSpec{Fee: fee(150), Msgs: []c09lib.M{{Kind: "send", From: "a2", To: "a0", Amt: sdk.NewCoins(sdk.NewInt64Coin("ubtc", 3), sdk.NewInt64Coin("ukex", 5000))}}, Seqs: []uint64{seq("a2")}, SigOK: true}, tag)
				}
				probe("rotation-stream:before")
				vals := e.App.CustomStakingKeeper.GetValidatorSet(sctx)
				for ri := 0; ri < 2 && ri < len(vals); ri++ {
					vaddr := sdk.AccAddress(vals[ri].ValKey)
					_, target := e.Stranger(500000 + len(lines))
					if e.App.AccountKeeper.GetAccount(sctx, vaddr) == nil {
						e.App.AccountKeeper.SetAccount(sctx, e.App.AccountKeeper.NewAccountWithAddress(sctx, vaddr))
					}
					var msg sdk.Msg
					if kind == "rr-holder" {
						denom := fmt.Sprintf("rr/val%d", ri)
						e.App.RecoveryKeeper.SetRecoveryToken(sctx, recoverytypes.RecoveryToken{Address: vaddr.String(), Token: denom, RrSupply: sdk.NewInt(100)})
						e.Fund(sctx, e.AddrOf("a3"), sdk.NewCoins(sdk.NewInt64Coin(denom, 100)))
						msg = recoverytypes.NewMsgRotateValidatorByHalfRRTokenHolder(e.AddrOf("a3").String(), vaddr.String(), target.String())
					} else {
						proof := []byte(fmt.Sprintf("proof-%d-%d", minv, ri))
						ch := sha256.Sum256(proof)
						e.App.RecoveryKeeper.SetRecoveryRecord(sctx, recoverytypes.RecoveryRecord{Address: vaddr.String(), Challenge: hex.EncodeToString(ch[:]), Nonce: "n"})
						e.Fund(sctx, e.AddrOf("a3"), sdk.NewCoins(sdk.NewInt64Coin("ukex", 2000000000)))
						msg = &recoverytypes.MsgRotateRecoveryAddress{FeePayer: e.AddrOf("a3").String(), Address: vaddr.String(), Recovery: target.String(), Proof: hex.EncodeToString(proof)}
					}
					var herr error
					pp := hx.Try(func() { _, herr = e.App.MsgServiceRouter().Handler(msg)(sctx, msg) })
					es := pp
					if herr != nil {
						es = herr.Error()
					}
					preOps = append(preOps, map[string]interface{}{"op": "rotate validator address (" + kind + ")", "validator_account": vaddr.String(), "new_account": target.String(), "error": es,
						"validator_records_in_store_afterwards": len(e.App.CustomStakingKeeper.GetValidatorSet(sctx))})
					dist.Inc("rotation:" + kind + ":ok=" + fmt.Sprint(es == ""))
					probe("rotation-stream:after")
				}
				streamCtx, preOps = nil, nil
			}
		}
	}
	// validator count at minimum-1 / minimum / minimum+1, for minimum 1..4: a disallowed message must pass exactly when count >= minimum
	for minv := 1; minv <= 4; minv++ {
		for d := -1; d <= 1; d++ {
			if minv+d < 1 {
				continue
			}
			c := baseCfg()
			c.MinVals, c.NVals = uint64(minv), minv+d
			c.PoorMsgs = []string{"register_identity_records"}
			run(c, c09lib.TxSpec{Fee: fee(150), Msgs: []c09lib.M{g.msg(c, "upsert_token_info", "a1", "")}, Seqs: []uint64{0}, SigOK: true}, "validator-count")
			run(c, c09lib.TxSpec{Fee: fee(150), Msgs: []c09lib.M{g.msg(c, "register_identity_records", "a1", ""), {Kind: "multisend", From: "a1", Amt: sdk.NewCoins(sdk.NewInt64Coin("ukex", 4)), Outs: []c09lib.Out{{To: "a2", Amt: sdk.NewCoins(sdk.NewInt64Coin("ukex", 4))}}}}, Seqs: []uint64{0}, SigOK: true}, "validator-count")
		}
	}
	// weak network: native sends exactly at / around the limit, at each position
	for pos := 0; pos < 3; pos++ {
		for _, d := range []int64{-1, 0, 1} {
			c := baseCfg()
			c.MinVals = 3
			c.PoorMsgs = []string{"register_identity_records"}
			var ms []c09lib.M
			for i := 0; i < pos; i++ {
				ms = append(ms, g.msg(c, "register_identity_records", "a1", ""))
			}
			ms = append(ms, c09lib.M{Kind: "send", From: "a1", To: "a3", Amt: sdk.NewCoins(sdk.NewInt64Coin("ukex", int64(c.MaxSend)+d))})
			run(c, c09lib.TxSpec{Fee: fee(120), Msgs: ms, Seqs: []uint64{0}, SigOK: true}, "weak-limit")
		}
	}
	// a two-coin bank send whose second coin is frozen by absence from the whitelist
	{
		c := baseCfg()
		c.EnWhite, c.White = true, []string{"ukex", "ubtc"}
		run(c, c09lib.TxSpec{Fee: fee(150), Msgs: []c09lib.M{{Kind: "send", From: "a2", To: "a0", Amt: sdk.NewCoins(sdk.NewInt64Coin("ubtc", 3), sdk.NewInt64Coin("xeth", 4))}}, Seqs: []uint64{0}, SigOK: true}, "second-coin-frozen")
		run(c, c09lib.TxSpec{Fee: fee(150), Msgs: []c09lib.M{g.msg(c, "register_identity_records", "a2", ""), {Kind: "send", From: "a2", To: "a0", Amt: sdk.NewCoins(sdk.NewInt64Coin("ubtc", 3), sdk.NewInt64Coin("xeth", 4))}}, Seqs: []uint64{0}, SigOK: true}, "second-coin-frozen")
	}
	// native token on the blacklist / off the whitelist: never frozen
	{
		c := baseCfg()
		c.Black, c.White, c.EnWhite = []string{"ukex", "frozen"}, []string{"ubtc"}, true
		run(c, c09lib.TxSpec{Fee: fee(150), Msgs: []c09lib.M{{Kind: "send", From: "a1", To: "a2", Amt: sdk.NewCoins(sdk.NewInt64Coin("ukex", 77))}}, Seqs: []uint64{0}, SigOK: true}, "native-listed")
		run(c, c09lib.TxSpec{Fee: []sdk.Coin{sdk.NewInt64Coin("frozen", 5000)}, Msgs: []c09lib.M{{Kind: "send", From: "a1", To: "a2", Amt: sdk.NewCoins(sdk.NewInt64Coin("ukex", 77))}}, Seqs: []uint64{0}, SigOK: true}, "frozen-fee")
		run(c, c09lib.TxSpec{Fee: []sdk.Coin{sdk.NewInt64Coin("xeth", 5000)}, Msgs: []c09lib.M{{Kind: "send", From: "a1", To: "a2", Amt: sdk.NewCoins(sdk.NewInt64Coin("ukex", 77))}}, Seqs: []uint64{0}, SigOK: true}, "unlisted-fee")
	}
	// MinValidators >= 2^63: the int() cast makes the weak network look healthy
	{
		c := baseCfg()
		c.MinVals = 1 << 63
		run(c, c09lib.TxSpec{Fee: fee(150), Msgs: []c09lib.M{g.msg(c, "upsert_token_info", "a2", "")}, Seqs: []uint64{0}, SigOK: true}, "minvalidators-cast")
	}

	// custody settings on the signer: bank send refused when custodians exist, custody send needs the reward and is parked
	for _, cu := range []c09lib.Cust{{"a1", true, 2}, {"a1", true, 0}, {"a1", true, -1}, {"a1", false, 2}} {
		for _, k := range []string{"send", "custody_send"} {
			for _, rew := range []int64{-1, 19, 20, 21} {
				if k == "send" && rew != -1 {
					continue
				}
				c := baseCfg()
				c.Custody, c.MinRew = []c09lib.Cust{cu}, 10
				m := c09lib.M{Kind: k, From: "a1", To: "a2", Amt: sdk.NewCoins(sdk.NewInt64Coin("frozen", 9))}
				if rew >= 0 {
					m.Reward = sdk.NewCoins(sdk.NewInt64Coin("ukex", rew))
				}
				run(c, c09lib.TxSpec{Fee: fee(150), Msgs: []c09lib.M{m}, Seqs: []uint64{0}, SigOK: true}, "custody")
			}
		}
	}
	// zero gas meets the custody decorator's first store read before its nil dereference
	{
		c := baseCfg()
		c.Custody = []c09lib.Cust{{"a1", true, -1}}
		m := c09lib.M{Kind: "send", From: "a1", To: "a2", Amt: sdk.NewCoins(sdk.NewInt64Coin("ukex", 9))}
		run(c, c09lib.TxSpec{Fee: fee(150), Msgs: []c09lib.M{m}, Seqs: []uint64{0}, SigOK: true, NoGas: true}, "zero-gas-custody")
	}
	// explicit fee payer, zero gas, fee granter
	{
		c := baseCfg()
		send := c09lib.M{Kind: "send", From: "a0", To: "a2", Amt: sdk.NewCoins(sdk.NewInt64Coin("ukex", 5))}
		run(c, c09lib.TxSpec{Fee: fee(150), Msgs: []c09lib.M{send}, Seqs: []uint64{0, 0}, SigOK: true, Payer: "a3"}, "fee-payer")
		run(c, c09lib.TxSpec{Fee: fee(150), Msgs: []c09lib.M{send}, Seqs: []uint64{0}, SigOK: true, Payer: "a0"}, "fee-payer-self")
		run(c, c09lib.TxSpec{Fee: fee(150), Msgs: []c09lib.M{send}, Seqs: []uint64{0}, SigOK: true, NoGas: true}, "zero-gas")
		run(c, c09lib.TxSpec{Fee: fee(150), Msgs: []c09lib.M{send}, Seqs: []uint64{0}, SigOK: true, Grant: true}, "fee-granter")
	}

	// ---- random cases
	for i := 0; i < *n; i++ {
		c := randCfg(r)
		nm := 1 + r.Intn(3)
		from := g.people[r.Intn(4)]
		var ms []c09lib.M
		for j := 0; j < nm; j++ {
			f := from
			if r.Chance(10) {
				f = g.people[r.Intn(4)]
			}
			k := kinds[r.Intn(len(kinds))]
			d := ""
			if r.Chance(50) {
				d = []string{"ukex", "frozen", "ubtc"}[r.Intn(3)]
			}
			ms = append(ms, g.msg(c, k, f, d))
		}
		t := c09lib.TxSpec{Msgs: ms, SigOK: !r.Chance(3)}
		if r.Chance(12) { // an Ethereum native send from an Ethereum-style account
			t.Msgs = []c09lib.M{g.msg(c, "eth", []string{"e0", "e1"}[r.Intn(2)], "")}
			if r.Chance(15) {
				t.Msgs = append(t.Msgs, g.msg(c, "send", "a0", "")) // more than one message: the Ethereum branch refuses
				t.SigOK = false
			}
		}
		if r.Chance(10) {
			t.Payer = g.people[r.Intn(4)]
		}
		t.NoGas, t.Grant = r.Chance(2), r.Chance(2)
		if r.Chance(15) {
			c.MinRew = uint64(r.Intn(30))
			for _, n := range []string{"a0", "a1", "a2"} {
				if r.Chance(40) {
					c.Custody = append(c.Custody, c09lib.Cust{Name: n, Enabled: r.Chance(80), Custodians: r.Intn(4) - 1})
				}
			}
			for j := range t.Msgs {
				if t.Msgs[j].Kind == "custody_send" && r.Chance(70) {
					t.Msgs[j].Reward = sdk.NewCoins(sdk.NewInt64Coin([]string{"ukex", "ukex", "ubtc"}[r.Intn(3)], int64(r.Intn(100))))
				}
			}
		}
		signers := c09lib.SignersOf(t)
		seqs := make([]uint64, len(signers))
		if r.Chance(4) {
			seqs[r.Intn(len(seqs))] = 1
		}
		var f []sdk.Coin
		switch x := r.Intn(20); {
		case x < 14:
			f = fee(int64(100 + r.Intn(900)))
		case x < 17:
			d := []string{"ubtc", "xeth", "frozen", "ufoo"}[r.Intn(4)]
			f = []sdk.Coin{sdk.NewInt64Coin(d, int64(1000+r.Intn(9000)))}
		case x < 19:
			f = []sdk.Coin{sdk.NewInt64Coin("frozen", int64(1000+r.Intn(9000))), sdk.NewInt64Coin("ukex", int64(100+r.Intn(900)))}
		default:
			f = fee(int64(r.Intn(200)))
		}
		t.Fee, t.Seqs = f, seqs
		if r.Chance(25) { // 1-3 random proposals on top of the random lists
			for k := 0; k < 1+r.Intn(3); k++ {
				var l []string
				for j := 0; j < r.Intn(4); j++ {
					l = append(l, c09lib.Denoms[r.Intn(len(c09lib.Denoms))])
				}
				props = append(props, wbProp{Black: r.Bool(), Add: r.Chance(60), Tokens: l})
			}
		}
		run(c, t, "random")
	}

	pre := "(* written by /verif/harness/cmd/c14 -- observations of the real ante handler and message handlers *)\n" +
		"From Sekai Require Import Base.Prelude Base.Dec Model.Filters Model.Fees Gen.AnteChain Model.C09Check Model.C14Check.\n"
	out.WriteFile("pre.v", pre)
	out.WriteFile("cases.txt", strings.Join(lines, "\n")+"\n")
	out.WriteJSON("meta.json", map[string]string{"case_type": "c14_case", "mismatch_fn": "c14_mismatches gen_shape (mkWiring gen_wired gen_post_handler_installed)", "violation_fn": "c14_violations"})
	out.WriteJSON("cases.json", js)
	out.WriteJSON("dist.json", map[string]interface{}{"seed": seed, "cases": len(js), "by_kind": dist})
	fmt.Fprintf(os.Stderr, "c14: %d cases\n", len(js))
}
