// c09: drives the REAL application at ABCI level (BeginBlock / DeliverTx of real signed
// transactions / EndBlock / Commit) over random token registries, fee properties, execution-fee
// tables, fee coin multisets and message lists with a failing message at each position, and the
// real feeprocessing keeper's pay-back call over random payment histories.  Observes DeliverTx
// code class, balance deltas, signer accounts, execution-status list, and the full store diff
// classified by key prefix; writes them for the Coq model and spec checker.
package main

import (
	"flag"
	"fmt"
	"os"
	"strings"
	"time"

	"verif/harness/c09lib"
	"verif/harness/hx"

	abci "github.com/cometbft/cometbft/abci/types"
	tmproto "github.com/cometbft/cometbft/proto/tendermint/types"
	sdk "github.com/cosmos/cosmos-sdk/types"
	authtypes "github.com/cosmos/cosmos-sdk/x/auth/types"
	banktypes "github.com/cosmos/cosmos-sdk/x/bank/types"
)

var msgTypes = []string{"send", "multisend", "custody_send", "register_identity_records", "set_network_properties", "upsert_token_info", "set_execution_fee", "ethereum_tx"}

func subset(r *hx.Rng, xs []string, pct int) []string {
	var out []string
	for _, x := range xs {
		if r.Chance(pct) {
			out = append(out, x)
		}
	}
	return out
}

var rates = []sdk.Dec{sdk.NewDec(1), sdk.NewDec(10), sdk.NewDecWithPrec(1, 1), sdk.NewDecWithPrec(25, 2), sdk.NewDecWithPrec(333333333333333333, 18), sdk.NewDec(3), sdk.NewDecWithPrec(1, 18), sdk.ZeroDec()}

func randCfg(r *hx.Rng, adversarial bool) *c09lib.Cfg {
	c := &c09lib.Cfg{NVals: 1, MinVals: 1, MaxSend: 1000, PoorMsgs: nil}
	c.Tokens = append(c.Tokens, c09lib.Tok{Denom: "ukex", Rate: sdk.NewDec(1), FeeEnabled: !r.Chance(4)})
	if r.Chance(10) {
		c.Tokens[0].Rate = rates[r.Intn(4)]
	}
	for _, d := range []string{"ubtc", "xeth", "frozen", "ufoo", c09lib.IbcDenom, c09lib.MixDenom} {
		if r.Chance(70) {
			c.Tokens = append(c.Tokens, c09lib.Tok{Denom: d, Rate: rates[r.Intn(len(rates))], FeeEnabled: r.Chance(80)})
		}
	}
	c.Black = subset(r, []string{"frozen", "ubtc", "ukex", "xeth", "ufoo", c09lib.IbcDenom, c09lib.MixDenom}, 25)
	c.White = subset(r, []string{"ukex", "ubtc", "xeth", "frozen", "ufoo", c09lib.IbcDenom, c09lib.MixDenom}, 60)
	c.EnBlack, c.EnWhite = r.Chance(60), r.Chance(25)
	c.Foreign = r.Chance(75)
	c.ViaGov = !adversarial && r.Chance(30)
	c.MinFee = uint64(1 + r.Intn(300))
	c.MaxFee = c.MinFee + uint64(r.Intn(5000))
	if r.Chance(15) {
		c.MaxFee = c.MinFee
	}
	for _, t := range msgTypes {
		if r.Chance(35) {
			ex, fl := uint64(r.Intn(400)), uint64(r.Intn(400))
			if r.Chance(15) {
				fl = ex
			}
			c.Exec = append(c.Exec, c09lib.ExecFee{Type: t, Execution: ex, Failure: fl})
		}
	}
	if adversarial {
		switch r.Intn(4) {
		case 0: // a single execution fee of 2^63 (+ small): int64 cast turns it negative
			c.Exec = []c09lib.ExecFee{{Type: msgTypes[r.Intn(len(msgTypes))], Execution: 1<<63 + uint64(r.Intn(100)), Failure: uint64(r.Intn(100))}}
		case 1: // two entries that sum to 2^64 + small: uint64 wrap
			c.Exec = []c09lib.ExecFee{{Type: "send", Execution: 1 << 63, Failure: 5}, {Type: "register_identity_records", Execution: 7, Failure: 1<<63 + uint64(r.Intn(50))}}
		case 2: // MaxTxFee / MinTxFee at the int64 boundary
			c.MaxFee = 1 << 63
			if r.Bool() {
				c.MinFee = 1 << 63
			}
		default:
			c.MaxFee = 1<<63 - 1
		}
	}
	return c
}

type gen struct {
	r      *hx.Rng
	nmark  int
	people []string
}

func (g *gen) amount(denom string) sdk.Coins {
	return c09lib.CoinSet(g.r, uint64(1+g.r.Intn(500)), denom)
}

// a message; fail=true asks for one whose handler fails
func (g *gen) msg(from string, fail bool) c09lib.M {
	r := g.r
	to := g.people[r.Intn(len(g.people))]
	huge := sdk.NewCoins(sdk.NewInt64Coin(c09lib.Denoms[r.Intn(len(c09lib.Denoms))], 4000000000000000000))
	if fail {
		switch r.Intn(7) {
		case 0:
			return c09lib.M{Kind: "send", From: from, To: to, Amt: huge}
		case 1:
			return c09lib.M{Kind: "send", From: from, To: c09lib.Collector, Amt: g.amount("")}
		case 2:
			return c09lib.M{Kind: "custody_send", From: from, To: to, Amt: huge}
		case 3:
			return c09lib.M{Kind: "multisend", From: from, Amt: huge, Outs: []c09lib.Out{{To: to, Amt: huge}}}
		case 4:
			return c09lib.M{Kind: "other", From: from, Ty: "set_network_properties", Fails: true}
		case 5:
			return c09lib.M{Kind: "other", From: from, Ty: "upsert_token_info", Fails: true}
		default:
			return c09lib.M{Kind: "other", From: from, Ty: "set_execution_fee", Fails: true}
		}
	}
	switch r.Intn(5) {
	case 0, 1:
		return c09lib.M{Kind: "send", From: from, To: to, Amt: g.amount("")}
	case 2:
		m := c09lib.M{Kind: "custody_send", From: from, To: to, Amt: g.amount("")}
		if r.Chance(60) {
			m.Reward = sdk.NewCoins(sdk.NewInt64Coin([]string{"ukex", "ukex", "ukex", "ubtc"}[r.Intn(4)], int64(r.Intn(120))))
		}
		return m
	case 3:
		a := g.amount("")
		return c09lib.M{Kind: "multisend", From: from, Amt: a, Outs: c09lib.SplitOutputs(r, a, g.people)}
	default:
		g.nmark++
		return c09lib.M{Kind: "other", From: from, Ty: "register_identity_records", Fails: false, Mark: fmt.Sprintf("k%d", g.nmark)}
	}
}

// repeatTx: k = 2..4 copies of one fee-bearing message type mixed with 0..2 messages of other types,
// in random order, and a native fee at one of: each prefix sum of the per-message requirements
// max(execution, failure), the sum with every type counted once, the largest single requirement,
// the total -- each exact, -1 and +1.
func (g *gen) repeatTx(c *c09lib.Cfg, from string) ([]c09lib.M, []sdk.Coin) {
	r := g.r
	one := func(ty string) c09lib.M {
		to := g.people[r.Intn(4)]
		small := sdk.NewCoins(sdk.NewInt64Coin("ukex", int64(1+r.Intn(9))))
		switch ty {
		case "send", "custody_send":
			return c09lib.M{Kind: ty, From: from, To: to, Amt: small}
		case "multisend":
			return c09lib.M{Kind: "multisend", From: from, Amt: small, Outs: []c09lib.Out{{To: to, Amt: small}}}
		case "register_identity_records":
			g.nmark++
			return c09lib.M{Kind: "other", From: from, Ty: ty, Mark: fmt.Sprintf("k%d", g.nmark)}
		default:
			return c09lib.M{Kind: "other", From: from, Ty: ty, Fails: true}
		}
	}
	types := []string{"send", "custody_send", "multisend", "register_identity_records", "set_network_properties", "upsert_token_info"}
	main := types[r.Intn(len(types))]
	if len(c.Exec) > 0 && r.Chance(85) {
		main = c.Exec[r.Intn(len(c.Exec))].Type
	}
	var ms []c09lib.M
	for k := 0; k < 2+r.Intn(3); k++ {
		ms = append(ms, one(main))
	}
	for k := 0; k < r.Intn(3); k++ {
		ms = append(ms, one(types[r.Intn(len(types))]))
	}
	for i := len(ms) - 1; i > 0; i-- { // shuffle
		j := r.Intn(i + 1)
		ms[i], ms[j] = ms[j], ms[i]
	}
	req := func(ty string) uint64 {
		for _, f := range c.Exec {
			if f.Type == ty {
				if f.Execution > f.Failure {
					return f.Execution
				}
				return f.Failure
			}
		}
		return 0
	}
	var cands []uint64
	sum, dedup, mx := uint64(0), uint64(0), uint64(0)
	seen := map[string]bool{}
	for _, m := range ms {
		q := req(m.Type())
		sum += q
		cands = append(cands, sum)
		if !seen[m.Type()] {
			seen[m.Type()] = true
			dedup += q
		}
		if q > mx {
			mx = q
		}
	}
	cands = append(cands, dedup, dedup, dedup, mx, sum, sum)
	v := cands[r.Intn(len(cands))] + uint64(r.Intn(3)) - 1
	if v < c.MinFee || v > 1<<62 {
		v = c.MinFee
	}
	return ms, []sdk.Coin{sdk.NewInt64Coin("ukex", int64(v))}
}

// fee coins aimed at the boundaries of [min, max] and of the execution-fee cover
func (g *gen) fee(c *c09lib.Cfg, ms []c09lib.M) []sdk.Coin {
	r := g.r
	cover := uint64(0)
	for _, m := range ms {
		for _, f := range c.Exec {
			if f.Type == m.Type() {
				x := f.Execution
				if f.Failure > x {
					x = f.Failure
				}
				cover += x
			}
		}
	}
	targets := []uint64{c.MinFee, c.MinFee - 1, c.MaxFee, c.MaxFee + 1, cover, cover - 1, cover + 1, (c.MinFee + c.MaxFee) / 2}
	target := targets[r.Intn(len(targets))]
	good := r.Chance(60)
	if good { // a value that satisfies everything, when one exists
		target = c.MinFee
		if cover > target {
			target = cover
		}
		if r.Bool() && c.MaxFee > target {
			target += uint64(r.Intn(int(minU(c.MaxFee-target, 1000)) + 1))
		}
	}
	if target > 1<<62 {
		target = uint64(100 + r.Intn(1000))
	}
	// acceptable tokens: fee enabled, not frozen, native or foreign payments enabled, positive rate
	var okToks []c09lib.Tok
	for _, t := range c.Tokens {
		frozen := false
		if t.Denom != "ukex" {
			if c.EnBlack && has(c.Black, t.Denom) {
				frozen = true
			}
			if c.EnWhite && !has(c.White, t.Denom) {
				frozen = true
			}
		}
		if t.FeeEnabled && !frozen && (t.Denom == "ukex" || c.Foreign) && t.Rate.IsPositive() {
			okToks = append(okToks, t)
		}
	}
	// express target in one or two denominations
	pick := func() c09lib.Tok {
		if good && len(okToks) > 0 {
			return okToks[r.Intn(len(okToks))]
		}
		if len(c.Tokens) == 0 || r.Chance(55) {
			return c09lib.Tok{Denom: "ukex", Rate: sdk.NewDec(1)}
		}
		return c.Tokens[r.Intn(len(c.Tokens))]
	}
	t1 := pick()
	conv := func(t c09lib.Tok, v uint64) sdk.Int {
		if t.Rate.IsNil() || !t.Rate.IsPositive() {
			return sdk.NewIntFromUint64(v)
		}
		q := sdk.NewDecFromInt(sdk.NewIntFromUint64(v)).Quo(t.Rate)
		switch r.Intn(3) {
		case 0:
			return q.TruncateInt()
		case 1:
			return q.Ceil().TruncateInt()
		default:
			return q.RoundInt()
		}
	}
	var out []sdk.Coin
	if r.Chance(25) {
		t2 := pick()
		if t2.Denom != t1.Denom {
			part := target / 3
			out = []sdk.Coin{sdk.NewCoin(t1.Denom, conv(t1, target-part)), sdk.NewCoin(t2.Denom, conv(t2, part))}
			if r.Chance(85) { // canonical order; otherwise left unsorted (DeductFees must refuse it)
				if out[0].Denom > out[1].Denom {
					out[0], out[1] = out[1], out[0]
				}
			}
			return out
		}
	}
	if r.Chance(3) {
		return nil // no fee at all
	}
	if r.Chance(3) { // unregistered denomination
		return []sdk.Coin{sdk.NewCoin("ufoo", sdk.NewIntFromUint64(target))}
	}
	if r.Chance(8) { // an unregistered case look-alike of a registered token, valued as if it were that token
		la := c09lib.LookAlikes[r.Intn(len(c09lib.LookAlikes))]
		for _, t := range c.Tokens {
			if strings.ToLower(t.Denom) == strings.ToLower(la) {
				return []sdk.Coin{sdk.NewCoin(la, conv(t, target))}
			}
		}
		return []sdk.Coin{sdk.NewCoin(la, sdk.NewIntFromUint64(target))}
	}
	out = []sdk.Coin{sdk.NewCoin(t1.Denom, conv(t1, target))}
	if r.Chance(3) {
		out = append(out, out[0]) // duplicate denomination
	}
	return out
}

func sweepTag(fc *c09lib.FreezeCase) string {
	if fc == nil {
		return ""
	}
	return fc.Tag
}

func has(xs []string, x string) bool {
	for _, y := range xs {
		if y == x {
			return true
		}
	}
	return false
}

func minU(a, b uint64) uint64 {
	if a < b {
		return a
	}
	return b
}

// admitted: the first signer's sequence went up (evidence that the ante handler's branch was written)
func classOf(resp abci.ResponseDeliverTx, admitted bool) int {
	switch {
	case resp.Code == 0:
		return 0
	case resp.Code == 111222 && admitted:
		return 4
	case resp.Code == 111222:
		return 3
	case strings.Contains(resp.Log, "failed to execute message"):
		return 2
	default:
		return 1
	}
}

func main() {
	outDir := flag.String("out", ".", "output directory")
	n := flag.Int("n", 150, "number of blocks")
	flag.Parse()
	out := hx.Out{Dir: *outDir}
	seed := hx.Seed()
	r := hx.NewRng(seed)
	e, ctx0 := c09lib.NewEnv(5)
	app := e.App
	rich := sdk.Coins{}
	for _, d := range c09lib.Denoms {
		rich = rich.Add(sdk.NewInt64Coin(d, 1000000000000))
	}
	for _, a := range e.Accs[:4] {
		e.Fund(ctx0, a.Addr, rich)
	}
	e.Fund(ctx0, e.Accs[4].Addr, sdk.NewCoins(sdk.NewInt64Coin("ukex", 150))) // a poor account
	s0, _ := e.Stranger(0)
	s1, _ := e.Stranger(1)
	g := &gen{r: r, people: []string{"a0", "a1", "a2", "a3", "a4", s0, s1}}
	watch := []string{"a0", "a1", "a2", "a3", "a4", "e0", "e1", s0, s1, c09lib.Collector}
	for _, n := range []string{"e0", "e1"} {
		e.Fund(ctx0, e.AddrOf(n), sdk.NewCoins(sdk.NewInt64Coin("ukex", 1000000000000), sdk.NewInt64Coin("ubtc", 1000000000)))
	}
	signers := []string{"a0", "a1", "a2", "a3", "a4"}
	dist := hx.Counter{}
	var lines []string
	var js []interface{}
	seqOf := func(ctx sdk.Context, name string) uint64 {
		a := app.AccountKeeper.GetAccount(ctx, e.AddrOf(name))
		if a == nil {
			return 0
		}
		return a.GetSequence()
	}

	proposer := app.CustomStakingKeeper.GetValidatorSet(ctx0)[0].GetConsAddr()
	height := int64(1)
	sweep := c09lib.FreezeSweep(func() *c09lib.Cfg {
		return &c09lib.Cfg{NVals: 1, MinVals: 1, MaxSend: 1000, MinFee: 100, MaxFee: 1000000}
	})
	for b := 0; b < *n+len(sweep); b++ {
		hdr := tmproto.Header{Height: height, Time: time.Unix(1700000000+height*6, 0).UTC(), ProposerAddress: proposer}
		app.BeginBlock(abci.RequestBeginBlock{Header: hdr})
		ctx := app.BaseApp.NewContext(false, hdr)
		adversarial := r.Chance(8) || b < 2
		c := randCfg(r, adversarial)
		if b >= 2 && r.Chance(12) { // custody settings on some signers
			c.MinRew = uint64(r.Intn(30))
			for _, n := range []string{"a0", "a1", "a2"} {
				if r.Chance(45) {
					c.Custody = append(c.Custody, c09lib.Cust{Name: n, Enabled: r.Chance(80), Custodians: r.Intn(4) - 1})
				}
			}
		}
		// every fourth block: repeated message types and fees swept around every partial sum of the
		// per-message execution-fee requirements
		// the shared freeze-configuration sweep: one block per corner, a fee paid in the token and a send of the token
		var fc *c09lib.FreezeCase
		if b >= 2 && b-2 < len(sweep) {
			fc = &sweep[b-2]
			c = fc.Cfg
			adversarial = false
		}
		repeatBlock := fc == nil && b >= 2 && b%4 == 2
		if repeatBlock {
			c.Tokens[0] = c09lib.Tok{Denom: "ukex", Rate: sdk.NewDec(1), FeeEnabled: true}
			c.Black, c.EnBlack, c.EnWhite, c.Foreign, c.Custody = nil, false, false, true, nil
			c.MinFee, c.MaxFee = uint64(1+r.Intn(20)), 1000000
			c.Exec = nil
			for k, t := range []string{"send", "custody_send", "multisend", "register_identity_records", "set_network_properties", "upsert_token_info"} {
				if r.Chance(80) {
					lo, hi := uint64(10+r.Intn(150)), uint64(160+r.Intn(250))
					switch (k + b/4) % 3 {
					case 0:
						c.Exec = append(c.Exec, c09lib.ExecFee{Type: t, Execution: hi, Failure: lo}) // execution > failure
					case 1:
						c.Exec = append(c.Exec, c09lib.ExecFee{Type: t, Execution: lo, Failure: hi}) // failure > execution
					default:
						c.Exec = append(c.Exec, c09lib.ExecFee{Type: t, Execution: hi, Failure: hi})
					}
				}
			}
		}
		if b < 2 {
			c.Tokens[0] = c09lib.Tok{Denom: "ukex", Rate: sdk.NewDec(1), FeeEnabled: true}
		}
		if b == 0 { // witness of C09_fee_overflow_refuted
			c.Exec = []c09lib.ExecFee{{Type: "send", Execution: 1 << 63, Failure: 0}}
			c.MinFee, c.MaxFee = 100, 1000000
		}
		if b == 1 { // witness of C09_fee_wrap_refuted
			c.Exec = []c09lib.ExecFee{{Type: "send", Execution: 1 << 63, Failure: 0}, {Type: "multisend", Execution: 5, Failure: 1 << 63}}
			c.MinFee, c.MaxFee = 100, 1000000
		}
		if err := e.Apply(ctx, c); err != nil {
			panic(fmt.Sprintf("config refused: %v %+v", err, c))
		}
		// keep the rich accounts rich
		for _, a := range e.Accs[:4] {
			if app.BankKeeper.GetBalance(ctx, a.Addr, "ukex").Amount.LT(sdk.NewInt(1000000000)) {
				e.Fund(ctx, a.Addr, rich)
			}
		}
		acctsCoq := e.AcctsCoq(ctx, watch)
		balsStart := e.Balances(ctx, watch)
		rel := c09lib.NewRel()
		histsCoq := e.HistsCoq(ctx, watch)
		ntx := 1 + r.Intn(3)
		if fc != nil {
			ntx = 2
		}
		var txCoq []string
		var txJS []interface{}
		for i := 0; i < ntx; i++ {
			from := signers[r.Intn(len(signers))]
			if r.Chance(70) {
				from = signers[r.Intn(4)]
			}
			nm := 1 + r.Intn(3)
			failAt := -1
			if r.Chance(35) {
				failAt = r.Intn(nm)
			}
			var ms []c09lib.M
			for j := 0; j < nm; j++ {
				f := from
				if r.Chance(8) {
					f = signers[r.Intn(4)]
				}
				ms = append(ms, g.msg(f, j == failAt))
			}
			if b == 0 && i == 0 {
				ms = []c09lib.M{{Kind: "send", From: from, To: "a1", Amt: sdk.NewCoins(sdk.NewInt64Coin("ukex", 1))}}
			}
			if b == 1 && i == 0 {
				one := sdk.NewCoins(sdk.NewInt64Coin("ukex", 1))
				ms = []c09lib.M{{Kind: "send", From: from, To: "a1", Amt: one}, {Kind: "multisend", From: from, Amt: one, Outs: []c09lib.Out{{To: "a2", Amt: one}}}}
			}
			var feeOverride []sdk.Coin
			if repeatBlock {
				ms, feeOverride = g.repeatTx(c, from)
				failAt = -1
			}
			if fc != nil {
				from, failAt = signers[i], -1
				if i == 0 { // the fee is paid in the token
					ms = []c09lib.M{{Kind: "send", From: from, To: "a3", Amt: sdk.NewCoins(sdk.NewInt64Coin("ukex", 3))}}
					feeOverride = []sdk.Coin{fc.Fee}
				} else { // the token is sent
					ms = []c09lib.M{{Kind: "send", From: from, To: "a3", Amt: sdk.NewCoins(sdk.NewInt64Coin(fc.Token, 5))}}
					feeOverride = []sdk.Coin{sdk.NewInt64Coin("ukex", 170)}
				}
			}
			special := repeatBlock || fc != nil
			t := c09lib.TxSpec{Msgs: ms, SigOK: !r.Chance(3)}
			if special {
				t.SigOK = true
			}
			if b >= 2 && !special && r.Chance(10) { // an Ethereum native send from an Ethereum-style account
				em := c09lib.M{Kind: "eth", From: []string{"e0", "e1"}[r.Intn(2)], To: g.people[r.Intn(len(g.people))], EthAmt: int64(r.Intn(600))}
				if r.Chance(30) {
					em.EthRem = int64(r.Intn(1000000))
				}
				if r.Chance(5) {
					em.To = c09lib.Collector
				}
				ms = []c09lib.M{em}
				if r.Chance(10) {
					ms = append(ms, g.msg("a0", false))
					t.SigOK = false
				}
				t.Msgs = ms
			}
			if b >= 2 && !special && r.Chance(8) {
				t.Payer = signers[r.Intn(4)]
			}
			if b >= 2 && !special {
				t.NoGas, t.Grant = r.Chance(2), r.Chance(2)
			}
			sg := c09lib.SignersOf(t)
			seqs := make([]uint64, len(sg))
			for k, s := range sg {
				seqs[k] = seqOf(ctx, s)
			}
			if r.Chance(4) && !special {
				seqs[r.Intn(len(seqs))] += uint64(1 + r.Intn(2))
			}
			t.Fee, t.Seqs = g.fee(c, ms), seqs
			if special {
				t.Fee = feeOverride
			}
			if repeatBlock {
				dist.Inc("tx:repeated-types")
			}
			if fc != nil {
				dist.Inc("tx:freeze-sweep")
			}
			if b < 2 && i == 0 {
				t.Fee, t.SigOK = []sdk.Coin{sdk.NewInt64Coin("ukex", 100)}, true
				for k, s := range sg {
					t.Seqs[k] = seqOf(ctx, s)
				}
			}
			_, bz, err := e.BuildTx(t, "")
			if err != nil {
				panic(err)
			}
			dumpB := e.Dump(ctx)
			balB := e.Balances(ctx, watch)
			seq0 := seqOf(ctx, sg[0])
			resp := app.DeliverTx(abci.RequestDeliverTx{Tx: bz})
			class := classOf(resp, seqOf(ctx, sg[0]) != seq0)
			dumpA := e.Dump(ctx)
			balA := e.Balances(ctx, watch)
			deltas := c09lib.Deltas(balB, balA)
			rel.AddTx(t)
			rel.AddDeltas(deltas)
			diff := e.DiffClasses(dumpB, dumpA)
			obs := fmt.Sprintf("(mkObs %d %s %s %s %s %s)", class, c09lib.DeltasCoq(deltas), e.AcctsCoq(ctx, sg), e.ExecsCoq(ctx),
				c09lib.StrListCoq(e.MarksPresent(ctx, ms)), c09lib.DiffCoq(diff))
			txCoq = append(txCoq, hx.Pair(t.Coq(), obs))
			log := resp.Log
			if len(log) > 200 {
				log = log[:200]
			}
			txJS = append(txJS, map[string]interface{}{"tx": t.JSON(), "class": class, "code": resp.Code, "log": log, "balance_deltas": deltas, "store_diff": diff, "fail_at": failAt})
			dist.Inc(fmt.Sprintf("tx:class%d", class))
			dist.Inc(fmt.Sprintf("tx:msgs=%d", nm))
			if failAt >= 0 {
				dist.Inc(fmt.Sprintf("tx:fail_at=%d:class%d", failAt, class))
			}
			for _, m := range ms {
				dist.Inc("msg:" + m.Type())
			}
		}
		balB := e.Balances(ctx, watch)
		eclass := 0
		p := hx.Try(func() { app.EndBlock(abci.RequestEndBlock{Height: height}) })
		if p != "" {
			eclass = 3
		}
		balA := e.Balances(ctx, watch)
		ed := c09lib.Deltas(balB, balA)
		rel.AddDeltas(ed)
		balsCoq := c09lib.BalsCoqFor(balsStart, rel)
		eo := fmt.Sprintf("(mkEnd %d %s %s %s)", eclass, c09lib.DeltasCoq(ed), e.ExecsCoq(ctx), e.HistsCoq(ctx, watch))
		lines = append(lines, fmt.Sprintf("CBlock %s %s %s %s %s %s %s %s", e.CfgCoq(c), acctsCoq, balsCoq, histsCoq, c09lib.StrListCoq(watch),
			c09lib.StrListCoq(rel.List()), hx.List(txCoq), eo))
		js = append(js, map[string]interface{}{"kind": "block", "level": "ABCI BeginBlock/DeliverTx/EndBlock/Commit", "height": height, "config": c.JSON(), "adversarial_config": adversarial, "sweep": sweepTag(fc),
			"txs": txJS, "end_block_class": eclass, "end_block_panic": p, "end_block_deltas": ed})
		dist.Inc(fmt.Sprintf("block:txs=%d", ntx))
		dist.Inc(fmt.Sprintf("block:end_class%d", eclass))
		if eclass == 0 {
			app.Commit()
		} else {
			// the application is in the middle of a block; finish it anyway
			hx.Try(func() { app.Commit() })
		}
		height++
	}

	// ---- FAILED-TRANSACTION TRACE family: configuration the ante chain reads (execution fees, MinTxFee / MaxTxFee /
	// EnableForeignFeePayments, token registry) is written by the FIRST messages of a transaction whose LAST message
	// fails, and by transactions that are only simulated / only checked; probes priced at the old and the attempted new
	// configuration follow; then the write is delivered for real and the probes are repeated
	{
		ntrace := *n / 6
		if ntrace < 12 {
			ntrace = 12
		}
		tw := append(append([]string{}, watch...), "g0")
		for i := 0; i < ntrace; i++ {
			hdr := tmproto.Header{Height: height, Time: time.Unix(1700000000+height*6, 0).UTC(), ProposerAddress: proposer}
			app.BeginBlock(abci.RequestBeginBlock{Header: hdr})
			ctx := app.BaseApp.NewContext(false, hdr)
			c := &c09lib.Cfg{NVals: 1, MinVals: 1, MaxSend: 1000, MinFee: 100, MaxFee: 1000000, Foreign: true,
				Tokens: []c09lib.Tok{{Denom: "ukex", Rate: sdk.NewDec(1), FeeEnabled: true}, {Denom: "ubtc", Rate: sdk.NewDec(10), FeeEnabled: true}},
				Exec:   []c09lib.ExecFee{{Type: "send", Execution: 5000, Failure: uint64(300 + r.Intn(4000))}}}
			if err := e.Apply(ctx, c); err != nil {
				panic(err)
			}
			if app.BankKeeper.GetBalance(ctx, e.AddrOf("g0"), "ukex").Amount.LT(sdk.NewInt(1000000000)) {
				e.Fund(ctx, e.AddrOf("g0"), rich)
			}
			// commit the base configuration in a block of its own, so that CheckTx / Simulate (which run on the
			// committed state) price the writing transaction against it
			hx.Try(func() { app.EndBlock(abci.RequestEndBlock{Height: height}) })
			app.Commit()
			height++
			hdr = tmproto.Header{Height: height, Time: time.Unix(1700000000+height*6, 0).UTC(), ProposerAddress: proposer}
			app.BeginBlock(abci.RequestBeginBlock{Header: hdr})
			ctx = app.BaseApp.NewContext(false, hdr)
			for _, a := range append(append([]*c09lib.Acc{}, e.Accs[:4]...), e.AccOf("g0")) {
				if app.BankKeeper.GetBalance(ctx, a.Addr, "ukex").Amount.LT(sdk.NewInt(1000000000)) {
					e.Fund(ctx, a.Addr, rich)
				}
			}
			K := func(d string, v int64) []sdk.Coin { return []sdk.Coin{sdk.NewInt64Coin(d, v)} }
			var w c09lib.Write
			var wty string
			var probes [][]sdk.Coin
			switch i % 6 {
			case 0: // execution fee lowered
				w, wty = c09lib.Write{Kind: "exec", Ty: "send", E: 1, F: 1}, "set_execution_fee"
				probes = [][]sdk.Coin{K("ukex", 100), K("ukex", 4999), K("ukex", 5000)}
			case 1: // execution fee raised
				w, wty = c09lib.Write{Kind: "exec", Ty: "send", E: 9000, F: 9000}, "set_execution_fee"
				probes = [][]sdk.Coin{K("ukex", 5000), K("ukex", 8999), K("ukex", 9000)}
			case 2: // minimum fee raised above the execution fee
				w, wty = c09lib.Write{Kind: "fees", Min: 7000, Max: 1000000, Foreign: true}, "set_network_properties"
				probes = [][]sdk.Coin{K("ukex", 5000), K("ukex", 6999), K("ukex", 7000)}
			case 3: // maximum fee lowered
				w, wty = c09lib.Write{Kind: "fees", Min: 100, Max: 6000, Foreign: true}, "set_network_properties"
				probes = [][]sdk.Coin{K("ukex", 6001), K("ukex", 6000), K("ukex", 50000)}
			case 4: // foreign fee payments switched off
				w, wty = c09lib.Write{Kind: "fees", Min: 100, Max: 1000000, Foreign: false}, "set_network_properties"
				probes = [][]sdk.Coin{K("ubtc", 500), K("ukex", 5000)}
			default: // a token registered as fee token
				w, wty = c09lib.Write{Kind: "token", Denom: "ufoo", Rate: sdk.NewDec(2), Enabled: true}, "upsert_token_info"
				probes = [][]sdk.Coin{K("ufoo", 2500), K("ukex", 5000)}
			}
			wmsg := c09lib.M{Kind: "other", From: "g0", Ty: wty, Fails: false, W: &w}
			failing := c09lib.M{Kind: "send", From: "g0", To: "a1", Amt: sdk.NewCoins(sdk.NewInt64Coin("ukex", 4000000000000000000))}
			balsStart := e.Balances(ctx, tw)
			acctsCoq := e.AcctsCoq(ctx, tw)
			rel := c09lib.NewRel()
			var stepCoq []string
			var stepJS []interface{}
			deliver := func(t c09lib.TxSpec, writes []c09lib.Write, what string) {
				sg := c09lib.SignersOf(t)
				t.Seqs = make([]uint64, len(sg))
				for k, sn := range sg {
					t.Seqs[k] = seqOf(ctx, sn)
				}
				_, bz, err := e.BuildTx(t, "")
				if err != nil {
					panic(err)
				}
				dumpB := e.Dump(ctx)
				balB := e.Balances(ctx, tw)
				seq0 := seqOf(ctx, sg[0])
				resp := app.DeliverTx(abci.RequestDeliverTx{Tx: bz})
				class := classOf(resp, seqOf(ctx, sg[0]) != seq0)
				balA := e.Balances(ctx, tw)
				deltas := c09lib.Deltas(balB, balA)
				rel.AddTx(t)
				rel.AddDeltas(deltas)
				diff := e.DiffClasses(dumpB, e.Dump(ctx))
				obs := fmt.Sprintf("(mkObs %d %s %s %s %s %s)", class, c09lib.DeltasCoq(deltas), e.AcctsCoq(ctx, sg), e.ExecsCoq(ctx),
					c09lib.StrListCoq(e.MarksPresent(ctx, t.Msgs)), c09lib.DiffCoq(diff))
				var ws []string
				for _, x := range writes {
					ws = append(ws, x.Coq())
				}
				stepCoq = append(stepCoq, hx.Tuple("0", hx.List(ws), t.Coq(), obs))
				log := resp.Log
				if len(log) > 160 {
					log = log[:160]
				}
				stepJS = append(stepJS, map[string]interface{}{"step": what, "mode": "DeliverTx", "tx": t.JSON(), "class": class, "log": log, "balance_deltas": deltas})
				dist.Inc(fmt.Sprintf("trace:%s:class%d", what, class))
			}
			offchain := func(mode int, what string) {
				t := c09lib.TxSpec{Fee: K("ukex", 9500), Msgs: []c09lib.M{wmsg}, Seqs: []uint64{seqOf(ctx, "g0")}, SigOK: true}
				_, bz, err := e.BuildTx(t, "")
				if err != nil {
					panic(err)
				}
				res := ""
				if mode == 2 {
					_, _, serr := app.Simulate(bz)
					if serr != nil {
						res = serr.Error()
					}
				} else {
					rc := app.CheckTx(abci.RequestCheckTx{Tx: bz, Type: abci.CheckTxType_New})
					res = fmt.Sprintf("code %d", rc.Code)
				}
				if len(res) > 120 {
					res = res[:120]
				}
				stepCoq = append(stepCoq, hx.Tuple(fmt.Sprint(mode), hx.List([]string{w.Coq()}), t.Coq(), "(mkObs 0 [] [] [] [] [])"))
				stepJS = append(stepJS, map[string]interface{}{"step": what, "mode": map[int]string{1: "CheckTx only", 2: "Simulate only"}[mode], "tx": t.JSON(), "result": res})
				dist.Inc("trace:" + what)
			}
			runProbes := func(what string) {
				for pi, f := range probes {
					from := []string{"a0", "a1", "a2"}[(pi+i)%3]
					deliver(c09lib.TxSpec{Fee: f, Msgs: []c09lib.M{{Kind: "send", From: from, To: "a3", Amt: sdk.NewCoins(sdk.NewInt64Coin("ukex", 3))}}, SigOK: true}, nil, what)
				}
			}
			if i%2 == 0 {
				offchain(2, "simulate-write")
			} else {
				offchain(1, "check-write")
			}
			runProbes("probe-after-unexecuted-write")
			deliver(c09lib.TxSpec{Fee: K("ukex", 9500), Msgs: []c09lib.M{wmsg, failing}, SigOK: true}, []c09lib.Write{w}, "write-then-failing-message")
			runProbes("probe-after-failed-write")
			deliver(c09lib.TxSpec{Fee: K("ukex", 9500), Msgs: []c09lib.M{wmsg}, SigOK: true}, []c09lib.Write{w}, "write-delivered")
			runProbes("probe-after-delivered-write")
			hx.Try(func() { app.EndBlock(abci.RequestEndBlock{Height: height}) })
			lines = append(lines, fmt.Sprintf("CTrace %s %s %s %s %s %s", e.CfgCoq(c), acctsCoq, c09lib.BalsCoqFor(balsStart, rel), c09lib.StrListCoq(tw), c09lib.StrListCoq(rel.List()), hx.List(stepCoq)))
			js = append(js, map[string]interface{}{"kind": "trace", "level": "ABCI DeliverTx / CheckTx / Simulate", "height": height, "config": c.JSON(), "attempted_write": w.Coq(), "steps": stepJS})
			app.Commit()
			height++
		}
	}

	// ---- keeper level: the pay-back loop of the feeprocessing keeper over random histories
	{
		hdr := tmproto.Header{Height: height, Time: time.Unix(1700000000+height*6, 0).UTC(), ProposerAddress: proposer}
		app.BeginBlock(abci.RequestBeginBlock{Header: hdr})
		base := app.BaseApp.NewContext(false, hdr)
		fk := app.FeeProcessingKeeper
		nref := *n
		for i := 0; i < nref; i++ {
			ctx, _ := base.CacheContext()
			c := randCfg(r, false)
			if r.Chance(50) { // positive rates only
				for j := range c.Tokens {
					if !c.Tokens[j].Rate.IsPositive() {
						c.Tokens[j].Rate = sdk.NewDec(2)
					}
				}
			}
			if err := e.Apply(ctx, c); err != nil {
				panic(err)
			}
			name, addr := e.Stranger(100 + i)
			_ = name
			hist := sdk.Coins{}
			for _, d := range c09lib.Denoms {
				if r.Chance(55) {
					hist = hist.Add(sdk.NewInt64Coin(d, int64(1+r.Intn(3000))))
				}
			}
			fk.SetSenderCoinsHistory(ctx, addr, hist)
			amt := sdk.NewCoins(sdk.NewInt64Coin("ukex", int64(1+r.Intn(4000))))
			if r.Chance(25) {
				amt = amt.Add(sdk.NewInt64Coin(c09lib.Denoms[r.Intn(len(c09lib.Denoms))], int64(1+r.Intn(500))))
			}
			// collector funds: usually enough
			coll := app.BankKeeper.GetAllBalances(ctx, e.CollAdr)
			if r.Chance(85) {
				e.FundCollector(ctx, hist)
			}
			coll = app.BankKeeper.GetAllBalances(ctx, e.CollAdr)
			before := app.BankKeeper.GetAllBalances(ctx, addr)
			var err error
			p := hx.Try(func() { err = fk.SendCoinsFromModuleToAccount(ctx, authtypes.FeeCollectorName, addr, amt) })
			class := 0
			if p != "" {
				class = 3
			} else if err != nil {
				class = 1
			}
			after := app.BankKeeper.GetAllBalances(ctx, addr)
			paid, _ := after.SafeSub(before...)
			if class != 0 {
				paid = sdk.Coins{}
			}
			histAfter := fk.GetSenderCoinsHistory(ctx, addr)
			var ts []string
			for _, t := range c.Tokens {
				ts = append(ts, fmt.Sprintf("mkToken %s %s %s", hx.Str(t.Denom), hx.ZBig(t.Rate.BigInt()), hx.B(t.FeeEnabled)))
			}
			lines = append(lines, fmt.Sprintf("CRefund %s %s %s %s %d %s %s", hx.List(ts), c09lib.CoinsCoq(hist), c09lib.CoinsCoq(amt), c09lib.CoinsCoq(coll), class,
				c09lib.CoinsCoq(paid), c09lib.CoinsCoq(histAfter)))
			es := ""
			if err != nil {
				es = err.Error()
			}
			js = append(js, map[string]interface{}{"kind": "payback", "level": "feeprocessing keeper SendCoinsFromModuleToAccount", "tokens": c.JSON()["tokens"], "history": hist.String(), "amount": amt.String(),
				"collector": coll.String(), "class": class, "error": es + p, "paid_back": paid.String(), "history_after": sdk.Coins(histAfter).String()})
			dist.Inc(fmt.Sprintf("payback:class%d", class))
			if !paid.IsZero() {
				dist.Inc("payback:nonzero")
			}
		}
	}

	// ---- keeper level: whole payment / refund histories of several payers (ghost-ledger cases)
	{
		hdr := tmproto.Header{Height: height + 1, Time: time.Unix(1700000000+(height+1)*6, 0).UTC(), ProposerAddress: proposer}
		base := app.BaseApp.NewContext(false, hdr)
		fk := app.FeeProcessingKeeper
		nled := *n / 2
		if nled < 40 {
			nled = 40
		}
		type lop struct {
			kind  string // pay refund exec end
			payer string
			coins sdk.Coins
			ok    bool
		}
		for i := 0; i < nled; i++ {
			ctx, _ := base.CacheContext()
			c := randCfg(r, false)
			pattern := i % 8
			if pattern < 6 { // exhaustion patterns are expressed in the native token at rate 1
				c.Tokens = []c09lib.Tok{{Denom: "ukex", Rate: sdk.NewDec(1), FeeEnabled: true}}
				if r.Chance(40) {
					c.Tokens = append(c.Tokens, c09lib.Tok{Denom: "ubtc", Rate: sdk.NewDec(10), FeeEnabled: true})
				}
			} else {
				for j := range c.Tokens {
					if !c.Tokens[j].Rate.IsPositive() && r.Chance(70) {
						c.Tokens[j].Rate = sdk.NewDec(2)
					}
				}
			}
			ef := []uint64{100, 0}
			switch pattern {
			case 3:
				ef = []uint64{0, 100} // successful executions are returned failure - execution
			case 4:
				ef = []uint64{uint64(50 + r.Intn(100)), 0}
			case 5, 6, 7:
				ef = []uint64{uint64(r.Intn(300)), uint64(r.Intn(300))}
			}
			c.Exec = []c09lib.ExecFee{{Type: "send", Execution: ef[0], Failure: ef[1]}}
			if err := e.Apply(ctx, c); err != nil {
				panic(err)
			}
			ctx.KVStore(app.GetKey("feeprocessing")).Delete([]byte("execution_status"))
			var payers []string
			for j := 0; j < 2+r.Intn(2); j++ {
				nm, addr := e.Stranger(10000 + i*4 + j)
				payers = append(payers, nm)
				e.Fund(ctx, addr, rich)
			}
			e.FundCollector(ctx, rich)
			lw := append(append([]string{}, payers...), c09lib.Collector)
			p0 := payers[0]
			ukex := func(v int64) sdk.Coins { return sdk.NewCoins(sdk.NewInt64Coin("ukex", v)) }
			var ops []lop
			switch pattern {
			case 0: // refund due >= recorded value, then further refunds in the same and a later block
				ops = []lop{{"pay", p0, ukex(100), false}, {"refund", p0, ukex(900), false}, {"refund", p0, ukex(50), false}, {"end", "", nil, false}, {"refund", p0, ukex(100), false}}
			case 1: // several refunds summing exactly to the total, then one more
				ops = []lop{{"pay", p0, ukex(100), false}, {"refund", p0, ukex(60), false}, {"refund", p0, ukex(40), false}, {"refund", p0, ukex(10), false}, {"pay", payers[1], ukex(30), false}, {"refund", payers[1], ukex(30), false}, {"refund", payers[1], ukex(30), false}}
			case 2: // failure fee 0: a failed execution is returned the whole execution fee, twice over two blocks
				ops = []lop{{"pay", p0, ukex(100), false}, {"exec", p0, nil, false}, {"end", "", nil, false}, {"exec", p0, nil, false}, {"end", "", nil, false}}
			case 3: // execution fee 0, failure fee 100: successful executions
				ops = []lop{{"pay", p0, ukex(100), false}, {"exec", p0, nil, true}, {"end", "", nil, false}, {"exec", p0, nil, true}, {"exec", p0, nil, true}, {"end", "", nil, false}}
			case 4: // payments exactly equal to the execution fee, alternating with block ends
				v := int64(ef[0])
				ops = []lop{{"pay", p0, ukex(v), false}, {"exec", p0, nil, false}, {"exec", p0, nil, false}, {"end", "", nil, false}, {"pay", p0, ukex(v), false}, {"exec", p0, nil, false}, {"end", "", nil, false}, {"exec", p0, nil, false}, {"end", "", nil, false}}
			default: // random histories, amounts steered to what is still recorded
				nops := 5 + r.Intn(8)
				for k := 0; k < nops; k++ {
					p := payers[r.Intn(len(payers))]
					switch x := r.Intn(10); {
					case x < 3:
						cs := ukex(int64(1 + r.Intn(300)))
						if r.Chance(35) && len(c.Tokens) > 0 {
							cs = cs.Add(sdk.NewInt64Coin(c.Tokens[r.Intn(len(c.Tokens))].Denom, int64(1+r.Intn(200))))
						}
						ops = append(ops, lop{"pay", p, cs, false})
					case x < 6:
						// what is recorded for p right now, valued roughly in ukex
						rec := int64(0)
						for _, o := range ops {
							if o.payer == p && o.kind == "pay" {
								rec += o.coins.AmountOf("ukex").Int64()
							}
						}
						v := rec + int64(r.Intn(3)) - 1
						if r.Chance(40) || v <= 0 {
							v = int64(1 + r.Intn(400))
						}
						ops = append(ops, lop{"refund", p, ukex(v), false})
					case x < 8:
						ops = append(ops, lop{"exec", p, nil, r.Chance(30)})
					default:
						ops = append(ops, lop{"end", "", nil, false})
					}
				}
				ops = append(ops, lop{"end", "", nil, false})
			}
			balsCoq := c09lib.BalsCoq(e.Balances(ctx, lw))
			var opCoq []string
			var opJS []interface{}
			for _, o := range ops {
				before := e.Balances(ctx, lw)
				cctx, write := ctx.CacheContext()
				var err error
				var term string
				p := hx.Try(func() {
					switch o.kind {
					case "pay":
						term = fmt.Sprintf("LPay %s %s", hx.Str(o.payer), c09lib.CoinsCoq(o.coins))
						err = fk.SendCoinsFromAccountToModule(cctx, e.AddrOf(o.payer), authtypes.FeeCollectorName, o.coins)
					case "refund":
						term = fmt.Sprintf("LRefund %s %s", hx.Str(o.payer), c09lib.CoinsCoq(o.coins))
						err = fk.SendCoinsFromModuleToAccount(cctx, authtypes.FeeCollectorName, e.AddrOf(o.payer), o.coins)
					case "exec":
						term = fmt.Sprintf("LExec \"send\" %s %s", hx.Str(o.payer), hx.B(o.ok))
						m := &banktypes.MsgSend{FromAddress: e.AddrOf(o.payer).String(), ToAddress: e.CollAdr.String(), Amount: ukex(1)}
						fk.AddExecutionStart(cctx, m)
						if o.ok {
							fk.SetExecutionStatusSuccess(cctx, m)
						}
					default:
						term = "LEnd"
						fk.ProcessExecutionFeeReturn(cctx)
					}
				})
				class := 0
				if p != "" {
					class = 3
				} else if err != nil {
					class = 1
				} else {
					write()
				}
				after := e.Balances(ctx, lw)
				d := c09lib.Deltas(before, after)
				opCoq = append(opCoq, hx.Pair("("+term+")", hx.Pair(fmt.Sprint(class), c09lib.DeltasCoq(d))))
				es := p
				if err != nil {
					es = err.Error()
				}
				opJS = append(opJS, map[string]interface{}{"op": o.kind, "payer": o.payer, "coins": o.coins.String(), "marked_successful": o.ok, "class": class, "error": es, "balance_deltas": d})
				dist.Inc("ledger:" + o.kind + fmt.Sprintf(":class%d", class))
			}
			lines = append(lines, fmt.Sprintf("CLedger %s %s %s %s %s %s", e.CfgCoq(c), balsCoq, c09lib.StrListCoq(lw), c09lib.StrListCoq(c09lib.Denoms), hx.List(opCoq), e.HistsCoq(ctx, lw)))
			js = append(js, map[string]interface{}{"kind": "ledger", "level": "feeprocessing keeper: SendCoinsFromAccountToModule / SendCoinsFromModuleToAccount / AddExecutionStart / ProcessExecutionFeeReturn",
				"pattern": pattern, "tokens": c.JSON()["tokens"], "execution_fee_send": fmt.Sprintf("exec=%d fail=%d", ef[0], ef[1]), "ops": opJS})
			dist.Inc(fmt.Sprintf("ledger:pattern%d", pattern))
		}
	}

	pre := "(* written by /verif/harness/cmd/c09 -- observations of the real application *)\n" +
		"From Sekai Require Import Base.Prelude Base.Dec Model.Filters Model.Fees Gen.AnteChain Model.C09Check.\n"
	out.WriteFile("pre.v", pre)
	out.WriteFile("cases.txt", strings.Join(lines, "\n")+"\n")
	out.WriteJSON("meta.json", map[string]string{"case_type": "c09_case", "mismatch_fn": "c09_mismatches gen_shape (mkWiring gen_wired gen_post_handler_installed)", "violation_fn": "c09_violations"})
	out.WriteJSON("cases.json", js)
	out.WriteJSON("dist.json", map[string]interface{}{"seed": seed, "cases": len(js), "by_kind": dist})
	fmt.Fprintf(os.Stderr, "c09: %d cases\n", len(js))
}
