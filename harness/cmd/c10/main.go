// c10: runs the REAL multistaking msg server / keepers, the slashing proposal handler and the
// distributor begin/end blockers on generated histories (several delegators, several denoms,
// slashes between delegate and undelegate, share transfers, claims by owners and strangers before
// and after maturity, consecutive blocks with proposer rotation and signing patterns) and writes
// the observations for the Coq model (correspondence) and the Coq spec checker.
package main

import (
	"crypto/sha256"
	"encoding/hex"
	"flag"
	"fmt"
	"math/big"
	"os"
	"sort"
	"strings"
	"time"

	"verif/harness/hx"

	simapp "github.com/KiraCore/sekai/app"
	"github.com/KiraCore/sekai/x/distributor"
	distrtypes "github.com/KiraCore/sekai/x/distributor/types"
	"github.com/KiraCore/sekai/x/multistaking"
	mskeeper "github.com/KiraCore/sekai/x/multistaking/keeper"
	recoverykeeper "github.com/KiraCore/sekai/x/recovery/keeper"
	recoverytypes "github.com/KiraCore/sekai/x/recovery/types"
	mstypes "github.com/KiraCore/sekai/x/multistaking/types"
	"github.com/KiraCore/sekai/x/slashing"
	slashingtypes "github.com/KiraCore/sekai/x/slashing/types"
	stakingtypes "github.com/KiraCore/sekai/x/staking/types"
	tokenstypes "github.com/KiraCore/sekai/x/tokens/types"
	abci "github.com/cometbft/cometbft/abci/types"
	tmproto "github.com/cometbft/cometbft/proto/tendermint/types"
	"github.com/cosmos/cosmos-sdk/crypto/keys/ed25519"
	sdk "github.com/cosmos/cosmos-sdk/types"
	authtypes "github.com/cosmos/cosmos-sdk/x/auth/types"
	minttypes "github.com/cosmos/cosmos-sdk/x/mint/types"
)

// ---------------------------------------------------------------- fixed universe
var denoms = []string{"ukex", "ubtc", "xeth", "ufoo"} // model denom ids 0..3 (ufoo: not registered)

const nDelegators = 5 // accounts 0..4 delegate, account 5 is a stranger who never delegates
// 6, 7: fresh addresses (targets of address rotations); 100: the account of the pool validator (follows a rotation of
// that account), 101: validator without pool, 102: the pool validator's former account after a rotation
var acctIDs = []int64{0, 1, 2, 3, 4, 5, 6, 7, 100, 101, 102}

// per-history address map (rotation of the validator account re-points 100) and pool validator address
var curAddr = map[int64]sdk.AccAddress{}
var curValP sdk.ValAddress

func acctAddr(id int64) sdk.AccAddress {
	if a, ok := curAddr[id]; ok {
		return a
	}
	return baseAddr(id)
}

func baseAddr(id int64) sdk.AccAddress {
	b := []byte("_acct______________x")
	if id >= 100 {
		b = []byte("_validator_________x")
	}
	b[0] = byte(0x10 + id%100)
	if id >= 100 {
		b[0] = byte(0xA0 + id - 100)
	}
	return sdk.AccAddress(b)
}

type tokCfg struct {
	enabled bool
	min     int64
	cap     string
}
type config struct {
	name    string
	tok     map[string]tokCfg // registered denoms
	unstake uint64
	vfs     string
	comm    string
	snap    int64
	autoint uint64
}

var configs = []config{
	{"default", map[string]tokCfg{"ukex": {true, 1, "0.5"}, "ubtc": {true, 1, "0.25"}, "xeth": {false, 1, "0.1"}}, 2629800, "0.5", "0.1", 1000, 17280},
	{"caps-sum-1", map[string]tokCfg{"ukex": {true, 1, "0.5"}, "ubtc": {true, 1, "0.5"}, "xeth": {false, 1, "0"}}, 604800, "0.5", "0.01", 4, 3},
	{"min-stake", map[string]tokCfg{"ukex": {true, 10, "0.6"}, "ubtc": {true, 50, "0.15"}, "xeth": {true, 1, "0.1"}}, 700000, "0.25", "0.5", 3, 2},
	{"uneven", map[string]tokCfg{"ukex": {true, 1, "0.333333333333333333"}, "ubtc": {true, 2, "0.47"}, "xeth": {false, 1, "0.05"}}, 604800, "0.37", "0.33", 7, 1},
}

type world struct {
	app   *simapp.SekaiApp
	cfg   config
	ctx   sdk.Context
	valP  sdk.ValAddress
	consP sdk.ConsAddress
	consQ sdk.ConsAddress
	consU sdk.ConsAddress
	ms    mstypes.MsgServer
	rs    recoverytypes.MsgServer
}

const recoveryProof = "c10aabbccdd0"

func must(err error) {
	if err != nil {
		panic(err)
	}
}

func setup(app *simapp.SekaiApp, base sdk.Context, cfg config) *world {
	ctx, _ := base.CacheContext()
	w := &world{app: app, cfg: cfg}
	// token registry
	for _, d := range denoms {
		_, ok := cfg.tok[d]
		info := app.TokensKeeper.GetTokenInfo(ctx, d)
		if !ok {
			if info != nil {
				must(app.TokensKeeper.DeleteTokenInfo(ctx, d))
			}
			continue
		}
		if info == nil {
			ni := tokenstypes.NewTokenInfo(d, "adr20", sdk.NewDec(1), true, sdk.ZeroInt(), sdk.ZeroInt(), sdk.ZeroDec(), sdk.OneInt(), true, false, d, d, "", 6, "", "", "", 0, sdk.ZeroInt(), "", false, "", "")
			info = &ni
		}
		info.StakeCap = sdk.ZeroDec()
		must(app.TokensKeeper.UpsertTokenInfo(ctx, *info))
	}
	if info := app.TokensKeeper.GetTokenInfo(ctx, "frozen"); info != nil {
		info.StakeCap = sdk.ZeroDec()
		must(app.TokensKeeper.UpsertTokenInfo(ctx, *info))
	}
	for _, d := range denoms {
		if t, ok := cfg.tok[d]; ok {
			info := app.TokensKeeper.GetTokenInfo(ctx, d)
			info.StakeEnabled = t.enabled
			info.StakeMin = sdk.NewInt(t.min)
			info.StakeCap = sdk.MustNewDecFromStr(t.cap)
			must(app.TokensKeeper.UpsertTokenInfo(ctx, *info))
		}
	}
	// network properties
	props := app.CustomGovKeeper.GetNetworkProperties(ctx)
	props.UnstakingPeriod = cfg.unstake
	props.ValidatorsFeeShare = sdk.MustNewDecFromStr(cfg.vfs)
	props.AutocompoundIntervalNumBlocks = cfg.autoint
	must(app.CustomGovKeeper.SetNetworkProperties(ctx, props))
	app.DistrKeeper.SetSnapPeriod(ctx, cfg.snap)
	// validators P (with pool) and Q (without)
	mkVal := func(id int64, secret string) (sdk.ValAddress, sdk.ConsAddress) {
		pk := ed25519.GenPrivKeyFromSecret([]byte(secret)).PubKey()
		va := sdk.ValAddress(acctAddr(id))
		val, err := stakingtypes.NewValidator(va, pk)
		must(err)
		val.Status = stakingtypes.Active
		app.CustomStakingKeeper.AddValidator(ctx, val)
		return va, sdk.ConsAddress(pk.Address())
	}
	w.valP, w.consP = mkVal(100, "verif-c10-P")
	_, w.consQ = mkVal(101, "verif-c10-Q")
	w.consU = sdk.ConsAddress([]byte("unknown_consensus___"))
	w.ms = mskeeper.NewMsgServerImpl(app.MultiStakingKeeper, app.BankKeeper, app.CustomGovKeeper, app.CustomStakingKeeper)
	_, err := w.ms.UpsertStakingPool(sdk.WrapSDKContext(ctx), &mstypes.MsgUpsertStakingPool{
		Sender: acctAddr(100).String(), Validator: w.valP.String(), Enabled: true, Commission: sdk.MustNewDecFromStr(cfg.comm)})
	must(err)
	// funds
	for i := int64(0); i <= nDelegators; i++ {
		cs := sdk.NewCoins(sdk.NewInt64Coin("ukex", 1_000_000), sdk.NewInt64Coin("ubtc", 50_000), sdk.NewInt64Coin("xeth", 3_000), sdk.NewInt64Coin("ufoo", 500))
		must(app.BankKeeper.MintCoins(ctx, minttypes.ModuleName, cs))
		must(app.BankKeeper.SendCoinsFromModuleToAccount(ctx, minttypes.ModuleName, acctAddr(i), cs))
	}
	// the validators' own accounts exist from the start
	for _, id := range []int64{100, 101} {
		one := sdk.NewCoins(sdk.NewInt64Coin("ukex", 1))
		must(app.BankKeeper.MintCoins(ctx, minttypes.ModuleName, one))
		must(app.BankKeeper.SendCoinsFromModuleToAccount(ctx, minttypes.ModuleName, acctAddr(id), one))
	}
	// account 5 can pay recovery fees (1000 KEX)
	big := sdk.NewCoins(sdk.NewInt64Coin("ukex", 5_000_000_000))
	must(app.BankKeeper.MintCoins(ctx, minttypes.ModuleName, big))
	must(app.BankKeeper.SendCoinsFromModuleToAccount(ctx, minttypes.ModuleName, acctAddr(5), big))
	// recovery secrets of the delegators and of the pool validator's account
	w.rs = recoverykeeper.NewMsgServerImpl(app.RecoveryKeeper)
	pb, _ := hex.DecodeString(recoveryProof)
	ch := sha256.Sum256(pb)
	for _, id := range []int64{0, 1, 2, 3, 4, 100} {
		_, err := w.rs.RegisterRecoverySecret(sdk.WrapSDKContext(ctx), &recoverytypes.MsgRegisterRecoverySecret{
			Address: acctAddr(id).String(), Challenge: hex.EncodeToString(ch[:]), Nonce: "n", Proof: recoveryProof})
		must(err)
	}
	// inflation base: the supply as it is now, a while ago
	sup := app.BankKeeper.GetSupply(ctx, "ukex")
	app.DistrKeeper.SetPeriodicSnapshot(ctx, distrtypes.SupplySnapshot{SnapshotTime: ctx.BlockTime().Unix() - 1000, SnapshotAmount: sup.Amount})
	// treasury record = what the fee collector holds now
	fc := app.AccountKeeper.GetModuleAccount(ctx, authtypes.FeeCollectorName)
	app.DistrKeeper.SetFeesTreasury(ctx, app.BankKeeper.GetAllBalances(ctx, fc.GetAddress()))
	app.DistrKeeper.SetPreviousProposerConsAddr(ctx, w.consP)
	w.ctx = ctx
	return w
}

// ---------------------------------------------------------------- Coq / JSON emitters
type coin struct {
	D int   `json:"d"`
	A int64 `json:"a"`
}

func denomID(d string) int {
	for i, x := range denoms {
		if x == d {
			return i
		}
	}
	return -1
}
func coinsCoq(cs []coin) string {
	xs := make([]string, len(cs))
	for i, c := range cs {
		xs[i] = hx.Pair(fmt.Sprint(c.D), hx.Z(c.A))
	}
	return hx.List(xs)
}
func toSdk(cs []coin, prefix string) sdk.Coins {
	out := sdk.Coins{}
	for _, c := range cs {
		out = append(out, sdk.NewInt64Coin(prefix+denoms[c.D], c.A))
	}
	return out.Sort()
}

// nativeOf / sharesOf split a balance into model coins
func splitCoins(cs sdk.Coins, prefix string) []coin {
	var out []coin
	for _, c := range cs {
		d := c.Denom
		if prefix != "" {
			if !strings.HasPrefix(d, prefix) {
				continue
			}
			d = strings.TrimPrefix(d, prefix)
		} else if strings.Contains(d, "/") {
			continue
		}
		id := denomID(d)
		if id < 0 {
			continue
		}
		if !c.Amount.IsInt64() {
			panic("amount out of the harness range: " + c.String())
		}
		out = append(out, coin{id, c.Amount.Int64()})
	}
	sort.Slice(out, func(i, j int) bool { return denoms[out[i].D] < denoms[out[j].D] }) // as sdk.Coins: by denom string
	return out
}

type obs struct {
	Time, Height int64
	Slashed      string
	Stake        []coin
	Shares       []coin
	SSup         []coin
	Mod          []coin
	Fee          []coin
	Treas        []coin
	NBal         map[int64][]coin
	SBal         map[int64][]coin
	Rew          map[int64][]coin
	Undels       []undelObs
	Last         uint64
	Dels         []int64
	Comp         map[int64]compObs
	Votes        [][2]int64
	Prev         int64
	TSup         []coin // tokens-module registry: TokenInfo.Supply of the share tokens
}
type undelObs struct {
	ID     uint64
	Owner  int64
	Expiry uint64
	Amt    []coin
}
type compObs struct {
	All  bool
	Dens []int
	Last uint64
}

func (w *world) acctOf(addr string) int64 {
	for _, id := range acctIDs {
		if acctAddr(id).String() == addr {
			return id
		}
	}
	return -1
}
func (w *world) valOf(cons sdk.ConsAddress) int64 {
	switch {
	case cons.Equals(w.consP):
		return 0
	case cons.Equals(w.consQ):
		return 1
	}
	return 2
}
func (w *world) consOf(v int64) sdk.ConsAddress {
	switch v {
	case 0:
		return w.consP
	case 1:
		return w.consQ
	}
	return w.consU
}

const poolPrefix = "v1/"

func (w *world) observe(ctx sdk.Context) obs {
	app := w.app
	pool, found := app.MultiStakingKeeper.GetStakingPoolByValidator(ctx, curValP.String())
	if !found || pool.Id != 1 {
		panic("pool 1 expected")
	}
	o := obs{Time: ctx.BlockTime().Unix(), Height: ctx.BlockHeight(), NBal: map[int64][]coin{}, SBal: map[int64][]coin{}, Rew: map[int64][]coin{}, Comp: map[int64]compObs{}}
	o.Slashed = hx.ZBig(pool.Slashed.BigInt())
	o.Stake = splitCoins(pool.TotalStakingTokens, "")
	o.Shares = splitCoins(pool.TotalShareTokens, poolPrefix)
	for i, d := range denoms {
		s := app.BankKeeper.GetSupply(ctx, poolPrefix+d)
		if !s.Amount.IsZero() {
			o.SSup = append(o.SSup, coin{i, s.Amount.Int64()})
		}
	}
	for i, d := range denoms {
		if ti := app.TokensKeeper.GetTokenInfo(ctx, poolPrefix+d); ti != nil && !ti.Supply.IsZero() {
			o.TSup = append(o.TSup, coin{i, ti.Supply.Int64()})
		}
	}
	sort.Slice(o.TSup, func(i, j int) bool { return denoms[o.TSup[i].D] < denoms[o.TSup[j].D] })
	o.Mod = splitCoins(app.BankKeeper.GetAllBalances(ctx, authtypes.NewModuleAddress(mstypes.ModuleName)), "")
	o.Fee = splitCoins(app.BankKeeper.GetAllBalances(ctx, authtypes.NewModuleAddress(authtypes.FeeCollectorName)), "")
	o.Treas = splitCoins(app.DistrKeeper.GetFeesTreasury(ctx), "")
	for _, id := range acctIDs {
		bal := app.BankKeeper.GetAllBalances(ctx, acctAddr(id))
		if c := splitCoins(bal, ""); len(c) > 0 {
			o.NBal[id] = c
		}
		if c := splitCoins(bal, poolPrefix); len(c) > 0 {
			o.SBal[id] = c
		}
		if c := splitCoins(app.MultiStakingKeeper.GetDelegatorRewards(ctx, acctAddr(id)), ""); len(c) > 0 {
			o.Rew[id] = c
		}
		ci := app.MultiStakingKeeper.GetCompoundInfoByAddress(ctx, acctAddr(id).String())
		if ci.AllDenom || len(ci.CompoundDenoms) > 0 || ci.LastExecBlock != 0 {
			co := compObs{All: ci.AllDenom, Last: ci.LastExecBlock}
			for _, d := range ci.CompoundDenoms {
				co.Dens = append(co.Dens, denomID(d))
			}
			o.Comp[id] = co
		}
	}
	for _, u := range app.MultiStakingKeeper.GetAllUndelegations(ctx) {
		o.Undels = append(o.Undels, undelObs{u.Id, w.acctOf(u.Address), u.Expiry, splitCoins(u.Amount, "")})
	}
	o.Last = app.MultiStakingKeeper.GetLastUndelegationId(ctx)
	for _, d := range app.MultiStakingKeeper.GetPoolDelegators(ctx, 1) {
		o.Dels = append(o.Dels, w.acctOf(d.String()))
	}
	sort.Slice(o.Dels, func(i, j int) bool { return o.Dels[i] < o.Dels[j] })
	for _, v := range app.DistrKeeper.GetAllValidatorVotes(ctx) {
		ca, err := sdk.ConsAddressFromBech32(v.ConsAddr)
		must(err)
		o.Votes = append(o.Votes, [2]int64{w.valOf(ca), v.Height})
	}
	sort.Slice(o.Votes, func(i, j int) bool {
		if o.Votes[i][0] != o.Votes[j][0] {
			return o.Votes[i][0] < o.Votes[j][0]
		}
		return o.Votes[i][1] < o.Votes[j][1]
	})
	o.Prev = w.valOf(app.DistrKeeper.GetPreviousProposerConsAddr(ctx))
	return o
}

func acctCoinsCoq(m map[int64][]coin) string {
	var xs []string
	for _, id := range acctIDs {
		if c, ok := m[id]; ok {
			xs = append(xs, hx.Pair(hx.Z(id), coinsCoq(c)))
		}
	}
	return hx.List(xs)
}
func coinsEq(a, b []coin) bool {
	if len(a) != len(b) {
		return false
	}
	for i := range a {
		if a[i] != b[i] {
			return false
		}
	}
	return true
}

// coqPatch: like coq() but lists only the native balances that differ from the initial observation
func (o obs) coqPatch(init obs) string {
	p := o
	p.NBal = map[int64][]coin{}
	for _, id := range acctIDs {
		a, b := init.NBal[id], o.NBal[id]
		if !coinsEq(a, b) {
			if b == nil {
				b = []coin{}
			}
			p.NBal[id] = b
		}
	}
	return p.coq()
}

func (o obs) coq() string {
	var us, ds, cs, vs []string
	for _, u := range o.Undels {
		us = append(us, hx.Tuple(hx.ZU(u.ID), hx.Z(u.Owner), hx.ZU(u.Expiry), coinsCoq(u.Amt)))
	}
	for _, d := range o.Dels {
		ds = append(ds, hx.Z(d))
	}
	for _, id := range acctIDs {
		if c, ok := o.Comp[id]; ok {
			var dd []string
			for _, d := range c.Dens {
				dd = append(dd, hx.Z(int64(d)))
			}
			cs = append(cs, hx.Pair(hx.Z(id), hx.Tuple(hx.B(c.All), hx.List(dd), hx.ZU(c.Last))))
		}
	}
	for _, v := range o.Votes {
		vs = append(vs, hx.Pair(hx.Z(v[0]), hx.Z(v[1])))
	}
	return "(mkObs " + strings.Join([]string{hx.Z(o.Time), hx.Z(o.Height), o.Slashed, coinsCoq(o.Stake), coinsCoq(o.Shares), coinsCoq(o.SSup),
		coinsCoq(o.Mod), coinsCoq(o.Fee), coinsCoq(o.Treas), acctCoinsCoq(o.NBal), acctCoinsCoq(o.SBal), acctCoinsCoq(o.Rew),
		hx.List(us), hx.ZU(o.Last), hx.List(ds), hx.List(cs), hx.List(vs), hx.Z(o.Prev), coinsCoq(o.TSup)}, " ") + ")"
}

// ---------------------------------------------------------------- operations
type op struct {
	Kind     string  `json:"kind"`
	Who      int64   `json:"who,omitempty"`
	To       int64   `json:"to,omitempty"`
	ID       int64   `json:"id,omitempty"`
	Amts     []coin  `json:"amts,omitempty"`
	Slash    string  `json:"slash,omitempty"`
	All      bool    `json:"all,omitempty"`
	Dens     []int   `json:"dens,omitempty"`
	Dt       int64   `json:"dt,omitempty"`
	Commit   []int64 `json:"commit,omitempty"`   // validators in LastCommitInfo
	Signed   []bool  `json:"signed,omitempty"`   // their SignedLastBlock flags
	Proposer int64   `json:"proposer,omitempty"` // proposer of this block
	Votes    [][2]int64 `json:"votes,omitempty"`
	Payer    int64      `json:"payer,omitempty"`
	At       int64      `json:"at_unix,omitempty"` // advance_to: absolute block time
	Ns       int64      `json:"ns,omitempty"`      // nanosecond part of the new block time
	// observed
	Res        string `json:"res"`
	Err        string `json:"err,omitempty"`
	Possible   bool   `json:"inflation_possible,omitempty"`
	Infl       int64  `json:"inflation_minted,omitempty"`
	SignedCnt  int64  `json:"prev_proposer_signed_in_window,omitempty"`
	PowerSeen  int64  `json:"power_seen_by_allocate,omitempty"`
	SlashedNow bool   `json:"pool_slashed,omitempty"`
	Stranger   bool   `json:"claimant_is_not_owner,omitempty"`
}

func zlist(xs []int64) string {
	s := make([]string, len(xs))
	for i, x := range xs {
		s[i] = hx.Z(x)
	}
	return hx.List(s)
}

func (o *op) coq() string {
	switch o.Kind {
	case "delegate":
		return fmt.Sprintf("(ODelegate %d %s)", o.Who, coinsCoq(o.Amts))
	case "undelegate":
		return fmt.Sprintf("(OUndelegate %d %s)", o.Who, coinsCoq(o.Amts))
	case "claim":
		return fmt.Sprintf("(OClaim %d %s)", o.Who, hx.Z(o.ID))
	case "claim_matured":
		return fmt.Sprintf("(OClaimMatured %d)", o.Who)
	case "slash":
		return fmt.Sprintf("(OSlash %s)", hx.ZBig(sdk.MustNewDecFromStr(o.Slash).BigInt()))
	case "slash_proposal":
		return fmt.Sprintf("(OSlashProposal %s)", hx.ZBig(sdk.MustNewDecFromStr(o.Slash).BigInt()))
	case "send_shares":
		return fmt.Sprintf("(OSendShares %d %d %s)", o.Who, o.To, coinsCoq(o.Amts))
	case "claim_rewards":
		return fmt.Sprintf("(OClaimRewards %d)", o.Who)
	case "register":
		return fmt.Sprintf("(ORegister %d)", o.Who)
	case "set_compound":
		dd := make([]int64, len(o.Dens))
		for i, d := range o.Dens {
			dd[i] = int64(d)
		}
		return fmt.Sprintf("(OSetCompound %d %s %s)", o.Who, hx.B(o.All), zlist(dd))
	case "fees":
		return fmt.Sprintf("(OFees %s)", coinsCoq(o.Amts))
	case "advance", "advance_to":
		return fmt.Sprintf("(OAdvance %s)", hx.Z(o.Dt))
	case "rotate":
		return fmt.Sprintf("(ORotate %d %d %d)", o.Who, o.To, o.Payer)
	case "rotate_val":
		return fmt.Sprintf("(ORotateVal %d)", o.Payer)
	case "rotate_val_rr":
		return "(OExternal 1)"
	case "genesis":
		return "OGenesis"
	case "set_votes":
		var vs []string
		for _, v := range o.Votes {
			vs = append(vs, hx.Pair(hx.Z(v[0]), hx.Z(v[1])))
		}
		return fmt.Sprintf("(OSetVotes %s)", hx.List(vs))
	case "allocate":
		return fmt.Sprintf("(OAllocate %s %s)", hx.B(o.Possible), hx.Z(o.Infl))
	case "begin":
		cm := make([]string, len(o.Commit))
		for i, v := range o.Commit {
			cm[i] = hx.Pair(hx.Z(v), hx.B(o.Signed[i]))
		}
		return fmt.Sprintf("(OBegin %s %s %d %s %s)", hx.Z(o.Dt), hx.List(cm), o.Proposer, hx.B(o.Possible), hx.Z(o.Infl))
	case "end":
		return "OEnd"
	}
	panic("op kind " + o.Kind)
}

type history struct {
	Name  string `json:"name"`
	Cfg   int    `json:"cfg"`
	Steps []*op  `json:"steps"`
	coq   strings.Builder
	// harness-side record of who really signed which block (spec-level input of the checker)
	signedAt map[int64]map[int64]bool
	// the vote store was written at keeper level: the signing record is no longer the blocks' own
	usedSetVotes bool
	pendingVal   sdk.AccAddress
}

// exec runs one operation on the real code inside a cache context, as baseapp does for a message
// (or a block): the writes are kept only when it neither failed nor panicked.
func (w *world) exec(ctx sdk.Context, h *history, o *op) (sdk.Context, bool) {
	app := w.app
	switch o.Kind { // clock changes are not "messages"
	case "advance": // seconds plus a nanosecond part; the model sees whole seconds (the code compares Unix seconds)
		old := ctx.BlockTime()
		ctx = ctx.WithBlockTime(old.Add(secs(o.Dt) + time.Duration(o.Ns)))
		o.Dt = ctx.BlockTime().Unix() - old.Unix()
		o.Res = "ok"
		return ctx, true
	case "advance_to": // absolute time (never backwards)
		old := ctx.BlockTime()
		t := time.Unix(o.At, o.Ns).UTC()
		if t.Before(old) {
			t = old
		}
		ctx = ctx.WithBlockTime(t)
		o.Dt = t.Unix() - old.Unix()
		o.Res = "ok"
		return ctx, true
	}
	runCtx := ctx
	if o.Kind == "begin" {
		runCtx = ctx.WithBlockTime(ctx.BlockTime().Add(secs(o.Dt))).WithBlockHeight(ctx.BlockHeight() + 1)
	}
	c, write := runCtx.CacheContext()
	g := sdk.WrapSDKContext(c)
	var err error
	supplyBefore := app.BankKeeper.GetSupply(c, "ukex").Amount
	pool, _ := app.MultiStakingKeeper.GetStakingPoolByValidator(c, curValP.String())
	o.SlashedNow = pool.Slashed.IsPositive()
	p := hx.Try(func() {
		switch o.Kind {
		case "delegate":
			_, err = w.ms.Delegate(g, &mstypes.MsgDelegate{DelegatorAddress: acctAddr(o.Who).String(), ValidatorAddress: curValP.String(), Amounts: toSdk(o.Amts, "")})
		case "undelegate":
			_, err = w.ms.Undelegate(g, &mstypes.MsgUndelegate{DelegatorAddress: acctAddr(o.Who).String(), ValidatorAddress: curValP.String(), Amounts: toSdk(o.Amts, "")})
		case "claim":
			if u, ok := app.MultiStakingKeeper.GetUndelegationById(c, uint64(o.ID)); ok {
				o.Stranger = u.Address != acctAddr(o.Who).String()
			}
			_, err = w.ms.ClaimUndelegation(g, &mstypes.MsgClaimUndelegation{Sender: acctAddr(o.Who).String(), UndelegationId: uint64(o.ID)})
		case "claim_matured":
			_, err = w.ms.ClaimMaturedUndelegations(g, &mstypes.MsgClaimMaturedUndelegations{Sender: acctAddr(o.Who).String()})
		case "slash": // the multistaking keeper as the application holds it
			app.MultiStakingKeeper.SlashStakingPool(c, curValP.String(), sdk.MustNewDecFromStr(o.Slash))
		case "slash_proposal": // the governance path: slashing proposal handler -> slashing keeper -> its multistaking keeper
			hnd := slashing.NewApplySlashValidatorProposalHandler(app.CustomSlashingKeeper)
			err = hnd.Apply(c, 1, &slashingtypes.ProposalSlashValidator{Offender: curValP.String(), StakingPoolId: 1}, sdk.MustNewDecFromStr(o.Slash))
		case "send_shares":
			err = app.BankKeeper.SendCoins(c, acctAddr(o.Who), acctAddr(o.To), toSdk(o.Amts, poolPrefix))
		case "claim_rewards":
			_, err = w.ms.ClaimRewards(g, &mstypes.MsgClaimRewards{Sender: acctAddr(o.Who).String()})
		case "register":
			_, err = w.ms.RegisterDelegator(g, &mstypes.MsgRegisterDelegator{Delegator: acctAddr(o.Who).String()})
		case "set_compound":
			var ds []string
			for _, d := range o.Dens {
				ds = append(ds, denoms[d])
			}
			_, err = w.ms.SetCompoundInfo(g, &mstypes.MsgSetCompoundInfo{Sender: acctAddr(o.Who).String(), AllDenom: o.All, CompoundDenoms: ds})
		case "rotate":
			_, err = w.rs.RotateRecoveryAddress(g, &recoverytypes.MsgRotateRecoveryAddress{
				FeePayer: acctAddr(o.Payer).String(), Address: acctAddr(o.Who).String(), Recovery: acctAddr(o.To).String(), Proof: recoveryProof})
		case "rotate_val":
			fresh := sdk.AccAddress([]byte(fmt.Sprintf("_rotatedvalidator_%02d", len(h.Steps)%100)))
			_, err = w.rs.RotateRecoveryAddress(g, &recoverytypes.MsgRotateRecoveryAddress{
				FeePayer: acctAddr(o.Payer).String(), Address: acctAddr(100).String(), Recovery: fresh.String(), Proof: recoveryProof})
			if err == nil {
				h.pendingVal = fresh
			}
		case "rotate_val_rr":
			// recovery token of the validator at keeper level (as the repo's own test does), account 5 holds all rr tokens
			rr := sdk.NewCoins(sdk.NewInt64Coin("rr/c10", 1000))
			app.RecoveryKeeper.SetRecoveryToken(c, recoverytypes.RecoveryToken{Address: acctAddr(100).String(), Token: "rr/c10", RrSupply: sdk.NewInt(1000), UnderlyingTokens: sdk.Coins{}})
			must(app.BankKeeper.MintCoins(c, minttypes.ModuleName, rr))
			must(app.BankKeeper.SendCoinsFromModuleToAccount(c, minttypes.ModuleName, acctAddr(5), rr))
			fresh := sdk.AccAddress([]byte(fmt.Sprintf("_rrrotatedvalidat_%02d", len(h.Steps)%100)))
			_, err = w.rs.RotateValidatorByHalfRRTokenHolder(g, &recoverytypes.MsgRotateValidatorByHalfRRTokenHolder{
				RrHolder: acctAddr(5).String(), Address: acctAddr(100).String(), Recovery: fresh.String()})
			if err == nil {
				h.pendingVal = fresh
			}
		case "genesis":
			// real ExportGenesis of the two modules (through the AppModule entry points and the JSON codec), their stores
			// emptied, real InitGenesis; the history then continues on the imported state
			mods := []struct {
				name string
				exp  func() []byte
				imp  func(bz []byte)
			}{
				{mstypes.ModuleName,
					func() []byte {
						return multistaking.NewAppModule(app.MultiStakingKeeper, app.BankKeeper, app.CustomGovKeeper, app.CustomStakingKeeper).ExportGenesis(c, app.AppCodec())
					},
					func(bz []byte) {
						multistaking.NewAppModule(app.MultiStakingKeeper, app.BankKeeper, app.CustomGovKeeper, app.CustomStakingKeeper).InitGenesis(c, app.AppCodec(), bz)
					}},
				{distrtypes.ModuleName,
					func() []byte { return distributor.NewAppModule(app.DistrKeeper, app.CustomGovKeeper).ExportGenesis(c, app.AppCodec()) },
					func(bz []byte) { distributor.NewAppModule(app.DistrKeeper, app.CustomGovKeeper).InitGenesis(c, app.AppCodec(), bz) }},
			}
			for _, m := range mods {
				bz := m.exp()
				store := c.KVStore(app.GetKey(m.name))
				var keys [][]byte
				it := store.Iterator(nil, nil)
				for ; it.Valid(); it.Next() {
					keys = append(keys, append([]byte{}, it.Key()...))
				}
				it.Close()
				for _, k := range keys {
					store.Delete(k)
				}
				m.imp(bz)
			}
		case "fees":
			cs := toSdk(o.Amts, "")
			must(app.BankKeeper.MintCoins(c, minttypes.ModuleName, cs))
			must(app.BankKeeper.SendCoinsFromModuleToModule(c, minttypes.ModuleName, authtypes.FeeCollectorName, cs))
			supplyBefore = app.BankKeeper.GetSupply(c, "ukex").Amount
		case "set_votes":
			h.usedSetVotes = true
			for _, v := range app.DistrKeeper.GetAllValidatorVotes(c) {
				ca, e := sdk.ConsAddressFromBech32(v.ConsAddr)
				must(e)
				app.DistrKeeper.DeleteValidatorVote(c, ca, v.Height)
			}
			for _, v := range o.Votes {
				app.DistrKeeper.SetValidatorVote(c, w.consOf(v[0]), v[1])
			}
		case "allocate":
			prev := app.DistrKeeper.GetPreviousProposerConsAddr(c)
			o.PowerSeen = int64(len(app.DistrKeeper.GetValidatorVotes(c, prev)))
			o.Possible = app.DistrKeeper.InflationPossible(c)
			app.DistrKeeper.AllocateTokens(c, 0, 0, prev, nil)
		case "begin":
			prev := app.DistrKeeper.GetPreviousProposerConsAddr(c)
			o.PowerSeen = int64(len(app.DistrKeeper.GetValidatorVotes(c, prev)))
			o.Possible = app.DistrKeeper.InflationPossible(c)
			// spec-level input: in how many blocks of the snapshot window did the previous proposer really sign
			pv := w.valOf(prev)
			for hh := c.BlockHeight() - w.cfg.snap; hh < c.BlockHeight() && !h.usedSetVotes; hh++ {
				if h.signedAt[hh][pv] {
					o.SignedCnt++
				}
			}
			var votes []abci.VoteInfo
			h.signedAt[c.BlockHeight()] = map[int64]bool{}
			for i, v := range o.Commit {
				votes = append(votes, abci.VoteInfo{Validator: abci.Validator{Address: w.consOf(v), Power: 1}, SignedLastBlock: o.Signed[i]})
				if o.Signed[i] {
					h.signedAt[c.BlockHeight()][v] = true
				}
			}
			app.DistrKeeper.BeginBlocker(c, abci.RequestBeginBlock{
				Header:         tmproto.Header{Height: c.BlockHeight(), Time: c.BlockTime(), ProposerAddress: w.consOf(o.Proposer)},
				LastCommitInfo: abci.CommitInfo{Votes: votes}})
		case "end":
			app.DistrKeeper.EndBlocker(c)
		default:
			panic("op kind " + o.Kind)
		}
	})
	switch {
	case p != "":
		o.Res, o.Err = "panic", p
	case err != nil:
		o.Res, o.Err = "rejected", err.Error()
	default:
		o.Res = "ok"
	}
	if o.Kind == "begin" || o.Kind == "allocate" {
		o.Infl = app.BankKeeper.GetSupply(c, "ukex").Amount.Sub(supplyBefore).Int64()
	}
	if o.Res == "ok" {
		write()
		if h.pendingVal != nil { // the account id of "the pool validator" follows the rotation
			curAddr[102] = acctAddr(100)
			curAddr[100] = h.pendingVal
			curValP = sdk.ValAddress(h.pendingVal)
			h.pendingVal = nil
		}
		return runCtx, true
	}
	h.pendingVal = nil
	return ctx, false
}

func resCode(r string) int {
	switch r {
	case "ok":
		return 0
	case "rejected":
		return 1
	}
	return 2
}

// ---------------------------------------------------------------- generators
type gen struct {
	r *hx.Rng
	w *world
	// address rotations done in this history
	rotatedFrom map[int64]bool
	targets     []int64 // used rotation targets (they act as accounts afterwards)
	valRotated  bool
}

func (g *gen) amount(max int64) int64 {
	switch g.r.Intn(6) {
	case 0:
		return 1 + int64(g.r.Intn(3))
	case 1:
		return []int64{7, 10, 33, 49, 50, 99, 100, 101, 1000, 3333}[g.r.Intn(10)]
	default:
		return g.r.Range(1, max)
	}
}
func (g *gen) stakeCoins(adversarial bool) []coin {
	var cs []coin
	pick := []int{0, 1}
	if g.w.cfg.tok["xeth"].enabled {
		pick = append(pick, 2)
	}
	n := 1 + g.r.Intn(3) // coin sets of one to three denominations
	seen := map[int]bool{}
	for i := 0; i < n; i++ {
		d := pick[g.r.Intn(len(pick))]
		if adversarial && g.r.Chance(40) {
			d = g.r.Intn(4)
		}
		if seen[d] {
			continue
		}
		seen[d] = true
		max := []int64{20000, 3000, 500, 100}[d]
		a := g.amount(max)
		if adversarial && g.r.Chance(15) {
			a = 5_000_000 // more than anybody owns
		}
		cs = append(cs, coin{d, a})
	}
	sort.Slice(cs, func(i, j int) bool { return cs[i].D < cs[j].D })
	return cs
}

// part of what an account could undelegate, or a deliberately wrong amount
func (g *gen) undelegateCoins(o obs, who int64, adversarial bool) []coin {
	var cs []coin
	stake := map[int]int64{}
	for _, c := range o.Stake {
		stake[c.D] = c.A
	}
	shares := map[int]int64{}
	for _, c := range o.Shares {
		shares[c.D] = c.A
	}
	// everything the holder's shares of one denom redeem (pro rata to the books)
	full := func(c coin) int64 {
		if shares[c.D] == 0 {
			return c.A
		}
		return int64(new(big.Int).Div(new(big.Int).Mul(big.NewInt(c.A), big.NewInt(stake[c.D])), big.NewInt(shares[c.D])).Int64())
	}
	// a holder of several denominations: leave ONE denomination completely, keep (or partly redeem) the others
	if hs := o.SBal[who]; len(hs) >= 2 && g.r.Chance(45) {
		k := g.r.Intn(len(hs))
		if a := full(hs[k]); a > 0 {
			cs = append(cs, coin{hs[k].D, a})
		}
		for i, c := range hs {
			if i != k && g.r.Chance(35) {
				if a := full(c); a > 1 {
					cs = append(cs, coin{c.D, 1 + g.r.Range(0, a-2)})
				}
			}
		}
		if len(cs) > 0 {
			return cs
		}
	}
	for _, c := range o.SBal[who] {
		if g.r.Chance(70) {
			a := c.A
			switch g.r.Intn(4) {
			case 0: // everything the shares nominally stand for
			case 1:
				a = 1 + g.r.Range(0, c.A-1)
			case 2: // as much stake as the pool still has
				if stake[c.D] > 0 {
					a = stake[c.D]
				}
			default:
				a = (c.A + 1) / 2
			}
			if adversarial && g.r.Chance(30) {
				a = a*2 + 1
			}
			cs = append(cs, coin{c.D, a})
		}
	}
	if len(cs) == 0 {
		cs = append(cs, coin{g.r.Intn(2), g.amount(500)})
	}
	return cs
}

func (g *gen) anyAcct() int64 {
	if len(g.targets) > 0 && g.r.Chance(25) {
		return g.targets[g.r.Intn(len(g.targets))]
	}
	return int64(g.r.Intn(nDelegators + 1))
}

// an address rotation (x/recovery): of a delegator to a fresh address, or of the pool validator's own account
func (g *gen) rotationOp(o obs) []*op {
	r := g.r
	payer := int64(5)
	if r.Chance(15) {
		payer = g.delegator() // cannot afford the fee: rejected
	}
	if !g.valRotated && r.Chance(30) {
		if r.Chance(25) {
			g.valRotated = true
			return []*op{{Kind: "rotate_val_rr"}}
		}
		g.valRotated = payer == 5
		return []*op{{Kind: "rotate_val", Payer: payer}}
	}
	if len(g.targets) >= 2 {
		return nil
	}
	who := g.delegator()
	if hs := holders(o); len(hs) > 0 && r.Chance(80) {
		who = hs[r.Intn(len(hs))]
	}
	if who > 4 || g.rotatedFrom[who] {
		return nil
	}
	to := int64(6 + len(g.targets))
	if payer == 5 {
		g.rotatedFrom[who] = true
		g.targets = append(g.targets, to)
	}
	return []*op{{Kind: "rotate", Who: who, To: to, Payer: payer}}
}
func (g *gen) delegator() int64 { return int64(g.r.Intn(nDelegators)) }

func (g *gen) blockOps(h *history, withEnd bool) []*op {
	r := g.r
	var ops []*op
	if r.Chance(70) {
		fees := []coin{{0, g.amount(5000)}}
		if r.Chance(40) {
			fees = append(fees, coin{1, g.amount(300)})
		}
		if r.Chance(10) {
			fees = append(fees, coin{2, g.amount(100)})
		}
		ops = append(ops, &op{Kind: "fees", Amts: fees})
	}
	var commit []int64
	var signed []bool
	for v := int64(0); v < 3; v++ {
		if v < 2 && r.Chance(85) || v == 2 && r.Chance(10) {
			commit = append(commit, v)
			signed = append(signed, r.Chance(85))
		}
	}
	prop := int64(0)
	switch r.Intn(10) {
	case 0, 1:
		prop = 1
	case 2:
		if r.Chance(30) {
			prop = 2
		}
	}
	ops = append(ops, &op{Kind: "begin", Dt: r.Range(1, 20), Commit: commit, Signed: signed, Proposer: prop})
	if withEnd {
		ops = append(ops, &op{Kind: "end"})
	}
	return ops
}

// holders of share tokens among the tracked accounts
func holders(o obs) []int64 {
	var hs []int64
	for _, id := range acctIDs {
		if len(o.SBal[id]) > 0 {
			hs = append(hs, id)
		}
	}
	return hs
}

// one random operation given the current observation
func (g *gen) randomOp(o obs, kindBias string) []*op {
	ops := g.randomOp1(o)
	if (ops[0].Kind == "claim" || ops[0].Kind == "claim_matured") && g.r.Chance(45) {
		if len(o.Undels) > 0 && g.r.Chance(70) {
			// the block time lands on the expiry of a record: 1 ns before, exactly, 1 ns after, a second around
			u := o.Undels[g.r.Intn(len(o.Undels))]
			for _, x := range o.Undels {
				if ops[0].Kind == "claim" && int64(x.ID) == ops[0].ID {
					u = x
				}
			}
			e := int64(u.Expiry)
			at := [][2]int64{{e - 1, 999_999_999}, {e, 0}, {e, 1}, {e - 1, 0}, {e + 1, 0}, {e - 1, 500_000_000}}[g.r.Intn(6)]
			ops = append([]*op{{Kind: "advance_to", At: at[0], Ns: at[1]}}, ops...)
		} else {
			ops = append([]*op{{Kind: "advance", Dt: int64(g.w.cfg.unstake) + g.r.Range(-1, 1), Ns: g.r.Range(0, 999_999_999)}}, ops...)
		}
	}
	// list fields with a repeated entry (msg-server level: ValidateBasic of these messages checks nothing)
	if (ops[0].Kind == "delegate" || ops[0].Kind == "undelegate") && len(ops[0].Amts) > 0 && g.r.Chance(6) {
		c := ops[0].Amts[g.r.Intn(len(ops[0].Amts))]
		if g.r.Chance(50) {
			c.A = 1 + c.A/3
		}
		ops[0].Amts = append(ops[0].Amts, c)
	}
	return ops
}

func (g *gen) randomOp1(o obs) []*op {
	r := g.r
	adversarial := r.Chance(15)
	isSlashed := o.Slashed != "0"
	hs := holders(o)
	k := r.Intn(100)
	if isSlashed && k < 22 && !adversarial {
		k = 30 // delegating into a slashed pool is rejected: mostly redeem instead
	}
	if len(hs) == 0 && k >= 25 && k < 45 && !adversarial {
		k = 0
	}
	if len(o.Undels) == 0 && k >= 45 && k < 64 && !adversarial {
		k = 30
		if len(hs) == 0 {
			k = 0
		}
	}
	if r.Chance(4) {
		if ops := g.rotationOp(o); ops != nil {
			return ops
		}
	}
	if r.Chance(3) || (len(o.Undels) > 0 && r.Chance(6)) {
		return []*op{{Kind: "genesis"}}
	}
	switch {
	case k < 25:
		who := g.delegator()
		if len(g.targets) > 0 && r.Chance(20) {
			who = g.targets[r.Intn(len(g.targets))]
		}
		return []*op{{Kind: "delegate", Who: who, Amts: g.stakeCoins(adversarial)}}
	case k < 45:
		who := g.anyAcct()
		if len(hs) > 0 && !(adversarial && r.Chance(50)) {
			who = hs[r.Intn(len(hs))]
		}
		return []*op{{Kind: "undelegate", Who: who, Amts: g.undelegateCoins(o, who, adversarial)}}
	case k < 58:
		// claim: owner or stranger, existing / claimed / future id
		id := int64(1)
		who := g.anyAcct()
		if len(o.Undels) > 0 {
			u := o.Undels[r.Intn(len(o.Undels))]
			id = int64(u.ID)
			if r.Chance(60) {
				who = u.Owner
			}
		}
		if r.Chance(10) {
			id = int64(o.Last) + int64(r.Intn(3)) - 1
		}
		return []*op{{Kind: "claim", Who: who, ID: id}}
	case k < 64:
		who := g.anyAcct()
		if len(o.Undels) > 0 && r.Chance(70) {
			who = o.Undels[r.Intn(len(o.Undels))].Owner
		}
		return []*op{{Kind: "claim_matured", Who: who}}
	case k < 70:
		sl := []string{"0.5", "0.1", "0.25", "0.01", "0.333333333333333333", "0.9", "1", "0", "0.000001", "0.75"}[r.Intn(10)]
		kind := "slash"
		if r.Chance(25) {
			kind = "slash_proposal"
		}
		return []*op{{Kind: kind, Slash: sl}}
	case k < 78:
		who := g.delegator()
		if len(hs) > 0 && !adversarial {
			who = hs[r.Intn(len(hs))]
		}
		var cs []coin
		for _, c := range o.SBal[who] {
			if r.Chance(60) {
				a := 1 + r.Range(0, c.A-1)
				if adversarial {
					a = c.A + 1
				}
				cs = append(cs, coin{c.D, a})
			}
		}
		if len(cs) == 0 {
			cs = []coin{{0, g.amount(100)}}
		}
		return []*op{{Kind: "send_shares", Who: who, To: g.anyAcct(), Amts: cs}}
	case k < 82:
		return []*op{{Kind: "claim_rewards", Who: g.anyAcct()}}
	case k < 86:
		return []*op{{Kind: "register", Who: g.anyAcct()}}
	case k < 90:
		all := r.Chance(40)
		var ds []int
		for d := 0; d < 3; d++ {
			if r.Chance(50) {
				ds = append(ds, d)
			}
		}
		return []*op{{Kind: "set_compound", Who: g.delegator(), All: all, Dens: ds}}
	default:
		dt := r.Range(1, int64(g.w.cfg.unstake))
		if r.Chance(60) {
			dt = int64(g.w.cfg.unstake) + r.Range(-1, 1)
		}
		return []*op{{Kind: "advance", Dt: dt}}
	}
}

func secs(n int64) time.Duration { return time.Duration(n) * time.Second }

// ---------------------------------------------------------------- scripted witnesses (the _refuted theorems, on the real code)
func scripted(cfgIdx int) []*history {
	c := func(d int, a int64) coin { return coin{d, a} }
	var hs []*history
	add := func(name string, cfg int, ops ...*op) {
		if cfg == cfgIdx {
			hs = append(hs, &history{Name: name, Cfg: cfg, Steps: ops})
		}
	}
	// two equal delegators, slash 1/2, the first redeems the whole remaining stake for half of his shares
	add("witness:redeem_pro_rata", 0,
		&op{Kind: "delegate", Who: 0, Amts: []coin{c(0, 100)}}, &op{Kind: "delegate", Who: 1, Amts: []coin{c(0, 100)}},
		&op{Kind: "slash", Slash: "0.5"},
		&op{Kind: "undelegate", Who: 0, Amts: []coin{c(0, 100)}},
		&op{Kind: "undelegate", Who: 1, Amts: []coin{c(0, 1)}})
	// the same through governance (slash proposal handler -> slashing keeper -> its multistaking keeper)
	add("witness:governance_slash_then_redeem", 0,
		&op{Kind: "delegate", Who: 0, Amts: []coin{c(0, 100)}}, &op{Kind: "delegate", Who: 1, Amts: []coin{c(0, 100)}},
		&op{Kind: "slash_proposal", Slash: "0.5"},
		&op{Kind: "undelegate", Who: 0, Amts: []coin{c(0, 100)}},
		&op{Kind: "undelegate", Who: 0, Amts: []coin{c(0, 50)}},
		&op{Kind: "undelegate", Who: 1, Amts: []coin{c(0, 50)}})
	// a stranger claims a matured undelegation of somebody else; the owner's own claim then fails
	add("witness:claim_by_stranger", 0,
		&op{Kind: "delegate", Who: 0, Amts: []coin{c(0, 500)}},
		&op{Kind: "undelegate", Who: 0, Amts: []coin{c(0, 500)}},
		&op{Kind: "claim", Who: 5, ID: 1},
		&op{Kind: "advance", Dt: 2629800},
		&op{Kind: "claim", Who: 5, ID: 1},
		&op{Kind: "claim", Who: 0, ID: 1})
	// the proposer signs every block, fees arrive every block, begin+end block: never credited
	blk := func(prop int64) []*op {
		return []*op{{Kind: "fees", Amts: []coin{c(0, 4000)}}, {Kind: "begin", Dt: 5, Commit: []int64{0, 1}, Signed: []bool{true, true}, Proposer: prop}, {Kind: "end"}}
	}
	var ops []*op
	ops = append(ops, &op{Kind: "delegate", Who: 0, Amts: []coin{c(0, 1000)}})
	for i := 0; i < 5; i++ {
		ops = append(ops, blk(0)...)
	}
	add("witness:signing_proposer_five_blocks", 1, ops...)
	// validator 0 proposes every block but never signs (SignedLastBlock=false): its signing record is empty
	var ops2 []*op
	ops2 = append(ops2, &op{Kind: "delegate", Who: 0, Amts: []coin{c(0, 1000)}})
	for i := 0; i < 4; i++ {
		ops2 = append(ops2, &op{Kind: "fees", Amts: []coin{c(0, 4000)}},
			&op{Kind: "begin", Dt: 5, Commit: []int64{0, 1}, Signed: []bool{false, true}, Proposer: 0}, &op{Kind: "end"})
	}
	add("witness:non_signer_credited", 1, ops2...)
	// a delegator redeems part of his stake and is dropped from the pool's delegator list: no rewards any more
	ops3 := []*op{{Kind: "delegate", Who: 0, Amts: []coin{c(0, 1000)}}, {Kind: "delegate", Who: 1, Amts: []coin{c(0, 1000)}},
		{Kind: "undelegate", Who: 0, Amts: []coin{c(0, 300)}}}
	for i := 0; i < 3; i++ {
		ops3 = append(ops3, blk(0)...)
	}
	add("witness:partial_undelegate_drops_delegator", 1, ops3...)
	// the rounding over-credit through REAL blocks: validator 0 signs and proposes four blocks (power = snap = 4),
	// then 6ubtc of fees: validator 3 + delegator 2 + 2
	ops4 := []*op{{Kind: "delegate", Who: 0, Amts: []coin{c(0, 1000), c(1, 1000)}}}
	for i := 0; i < 4; i++ {
		ops4 = append(ops4, blk(0)...)
	}
	ops4 = append(ops4, &op{Kind: "fees", Amts: []coin{c(1, 6)}},
		&op{Kind: "begin", Dt: 5, Commit: []int64{0, 1}, Signed: []bool{true, true}, Proposer: 0}, &op{Kind: "end"})
	add("witness:over_credit_through_blocks", 1, ops4...)
	// a delegator staked in two denominations leaves ONE of them completely: he stays a delegator and keeps being credited
	ops5 := []*op{{Kind: "delegate", Who: 0, Amts: []coin{c(0, 1000), c(1, 1000)}}, {Kind: "delegate", Who: 1, Amts: []coin{c(0, 500)}},
		{Kind: "undelegate", Who: 0, Amts: []coin{c(1, 1000)}}}
	for i := 0; i < 3; i++ {
		ops5 = append(ops5, blk(0)...)
	}
	ops5 = append(ops5, &op{Kind: "undelegate", Who: 0, Amts: []coin{c(0, 1000)}})
	add("witness:two_denoms_full_exit_of_one", 1, ops5...)
	// address rotation of a delegator: coins, shares, rewards, compound info, registration move to the new address
	ops6 := []*op{{Kind: "delegate", Who: 0, Amts: []coin{c(0, 1000), c(1, 300)}}, {Kind: "delegate", Who: 1, Amts: []coin{c(0, 700)}},
		{Kind: "set_compound", Who: 0, All: false, Dens: []int{1}}}
	ops6 = append(ops6, blk(0)...)
	ops6 = append(ops6, blk(0)...)
	ops6 = append(ops6, &op{Kind: "undelegate", Who: 0, Amts: []coin{c(0, 100)}},
		&op{Kind: "rotate", Who: 0, To: 6, Payer: 0}, // cannot pay the fee
		&op{Kind: "rotate", Who: 0, To: 6, Payer: 5})
	ops6 = append(ops6, blk(0)...)
	ops6 = append(ops6, blk(0)...)
	ops6 = append(ops6, &op{Kind: "claim_rewards", Who: 6}, &op{Kind: "undelegate", Who: 6, Amts: []coin{c(0, 200)}},
		&op{Kind: "advance", Dt: 604800, Ns: 1}, &op{Kind: "claim", Who: 6, ID: 1}, &op{Kind: "claim", Who: 0, ID: 1}, &op{Kind: "claim_matured", Who: 6})
	add("witness:delegator_rotation", 1, ops6...)
	// address rotation of the pool validator's own account: the pool, its record and the rewards follow
	ops7 := []*op{{Kind: "delegate", Who: 0, Amts: []coin{c(0, 1000)}}}
	ops7 = append(ops7, blk(0)...)
	ops7 = append(ops7, blk(0)...)
	ops7 = append(ops7, &op{Kind: "rotate_val", Payer: 5})
	ops7 = append(ops7, blk(0)...)
	ops7 = append(ops7, &op{Kind: "delegate", Who: 1, Amts: []coin{c(0, 400), c(1, 50)}}, &op{Kind: "slash_proposal", Slash: "0.25"},
		&op{Kind: "undelegate", Who: 1, Amts: []coin{c(1, 37)}})
	ops7 = append(ops7, blk(0)...)
	add("witness:validator_rotation", 1, ops7...)
	add("witness:validator_rotation_by_rr_holder", 1,
		&op{Kind: "delegate", Who: 0, Amts: []coin{c(0, 1000)}}, &op{Kind: "fees", Amts: []coin{c(0, 4000)}},
		&op{Kind: "begin", Dt: 5, Commit: []int64{0, 1}, Signed: []bool{true, true}, Proposer: 0}, &op{Kind: "end"},
		&op{Kind: "rotate_val_rr"})
	// genesis export / re-import with a GAP in the pending undelegation ids (1 claimed, 2 pending, 3 not mature), two
	// denominations, compound info, rewards: the history continues on the imported state
	ops8 := []*op{{Kind: "delegate", Who: 0, Amts: []coin{c(0, 1000), c(1, 400)}}, {Kind: "delegate", Who: 1, Amts: []coin{c(0, 800)}},
		{Kind: "set_compound", Who: 1, All: false, Dens: []int{0}},
		{Kind: "undelegate", Who: 0, Amts: []coin{c(0, 100)}}, {Kind: "advance", Dt: 604800, Ns: 7},
		{Kind: "undelegate", Who: 1, Amts: []coin{c(0, 200)}}}
	ops8 = append(ops8, blk(0)...)
	ops8 = append(ops8, blk(0)...)
	ops8 = append(ops8, &op{Kind: "claim", Who: 0, ID: 1}, &op{Kind: "advance", Dt: 1000}, &op{Kind: "undelegate", Who: 0, Amts: []coin{c(1, 50)}},
		&op{Kind: "genesis"},
		&op{Kind: "undelegate", Who: 0, Amts: []coin{c(0, 30)}}, // must not reuse a pending id
		&op{Kind: "register", Who: 0}, &op{Kind: "register", Who: 1})
	ops8 = append(ops8, blk(0)...)
	ops8 = append(ops8, &op{Kind: "advance", Dt: 604800}, &op{Kind: "claim", Who: 1, ID: 2}, &op{Kind: "claim", Who: 0, ID: 3},
		&op{Kind: "claim_matured", Who: 0}, &op{Kind: "genesis"}, &op{Kind: "undelegate", Who: 1, Amts: []coin{c(0, 10)}},
		&op{Kind: "claim_rewards", Who: 0})
	add("witness:genesis_roundtrip_with_id_gap", 1, ops8...)
	// repeated entries in Amounts
	add("witness:repeated_amounts", 0,
		&op{Kind: "delegate", Who: 0, Amts: []coin{c(0, 100), c(0, 100)}},
		&op{Kind: "delegate", Who: 0, Amts: []coin{c(0, 300), c(1, 300)}},
		&op{Kind: "undelegate", Who: 0, Amts: []coin{c(0, 200), c(0, 200)}},
		&op{Kind: "undelegate", Who: 0, Amts: []coin{c(0, 100), c(0, 100)}},
		&op{Kind: "advance", Dt: 2629800}, &op{Kind: "claim", Who: 0, ID: 1}, &op{Kind: "claim_matured", Who: 0})
	// stake caps summing to 1: the delegators are credited 4 out of a pool allocation of 3
	add("witness:credited_exceeds_allocation", 1,
		&op{Kind: "delegate", Who: 0, Amts: []coin{c(0, 1000), c(1, 1000)}},
		&op{Kind: "set_votes", Votes: [][2]int64{{0, 7}, {0, 8}, {0, 9}, {0, 10}}},
		&op{Kind: "fees", Amts: []coin{c(1, 6)}},
		&op{Kind: "allocate"})
	return hs
}

func main() {
	outDir := flag.String("out", ".", "output directory")
	n := flag.Int("n", 300, "number of random histories")
	flag.Parse()
	out := hx.Out{Dir: *outDir}
	seed := hx.Seed()
	rng := hx.NewRng(seed)
	app := hx.NewApp()
	base := hx.Ctx(app, 10, 1700000000)
	dist := hx.Counter{}

	var worlds []*world
	for _, cfg := range configs {
		worlds = append(worlds, setup(app, base, cfg))
	}
	var hist []*history
	runHistory := func(h *history, genOps func(o obs, i int) []*op) {
		w := worlds[h.Cfg]
		ctx, _ := w.ctx.CacheContext()
		curAddr = map[int64]sdk.AccAddress{}
		curValP = w.valP
		h.signedAt = map[int64]map[int64]bool{}
		cur := w.observe(ctx)
		init := cur
		h.coq.WriteString(fmt.Sprintf("C10 %d %s [", h.Cfg, cur.coq()))
		first := true
		emit := func(o *op) bool {
			var ok bool
			// message coins in the order the code iterates them (sdk.Coins are sorted by denom string)
			sort.SliceStable(o.Amts, func(i, j int) bool { return denoms[o.Amts[i].D] < denoms[o.Amts[j].D] })
			ctx, ok = w.exec(ctx, h, o)
			recOK := 1
			if h.usedSetVotes {
				recOK = 0
			}
			aux := fmt.Sprintf("[%d; %d; %d]", o.SignedCnt, o.PowerSeen, recOK)
			ob := "None"
			if ok {
				cur = w.observe(ctx)
				ob = "(Some " + cur.coqPatch(init) + ")"
			}
			if !first {
				h.coq.WriteString("; ")
			}
			first = false
			h.coq.WriteString(fmt.Sprintf("(%s, %d, %s, %s)", o.coq(), resCode(o.Res), aux, ob))
			dist.Inc(o.Kind + ":" + o.Res)
			if o.Kind == "rotate_val_rr" {
				return false // later allocations pay the recovery module: outside the model
			}
			return o.Res != "panic" || (o.Kind != "begin" && o.Kind != "allocate" && o.Kind != "end")
		}
		if genOps == nil {
			for _, o := range h.Steps {
				if !emit(o) {
					break
				}
			}
		} else {
			steps := h.Steps
			h.Steps = nil
			_ = steps
			for i := 0; ; i++ {
				ops := genOps(cur, i)
				if ops == nil {
					break
				}
				stop := false
				for _, o := range ops {
					h.Steps = append(h.Steps, o)
					if !emit(o) {
						stop = true
						break
					}
				}
				if stop {
					break
				}
			}
		}
		h.coq.WriteString("]")
		hist = append(hist, h)
	}

	for ci := range configs {
		for _, h := range scripted(ci) {
			runHistory(h, nil)
		}
	}
	for i := 0; i < *n; i++ {
		ci := rng.Intn(len(configs))
		g := &gen{r: rng.Fork(), w: worlds[ci], rotatedFrom: map[int64]bool{}}
		mode := []string{"pool", "pool", "blocks", "alloc", "mixed"}[g.r.Intn(5)]
		h := &history{Name: fmt.Sprintf("random:%s:%d", mode, i), Cfg: ci}
		length := 8 + g.r.Intn(18)
		var pending []*op
		runHistory(h, func(o obs, k int) []*op {
			if k >= length {
				return nil
			}
			if len(pending) > 0 {
				p := pending
				pending = nil
				return p
			}
			switch mode {
			case "pool":
				return g.randomOp(o, "")
			case "blocks": // consecutive blocks through begin and end block, transactions in between
				if g.r.Chance(50) {
					return g.blockOps(h, true)
				}
				return g.randomOp(o, "")
			case "alloc": // keeper-level allocation with a signing record in place
				if g.r.Chance(45) {
					var vs [][2]int64
					for v := int64(0); v < 3; v++ {
						for hh := o.Height - int64(g.r.Intn(int(g.w.cfg.snap)+1)); hh < o.Height; hh++ {
							if hh > 0 && g.r.Chance(80) {
								vs = append(vs, [2]int64{v, hh})
							}
						}
					}
					ops := []*op{{Kind: "set_votes", Votes: vs}}
					ops = append(ops, g.blockOps(h, false)...)
					return ops
				}
				return g.randomOp(o, "")
			default: // blocks without the end blocker's vote deletion in between (begin only), plus messages
				if g.r.Chance(50) {
					return g.blockOps(h, g.r.Chance(30))
				}
				return g.randomOp(o, "")
			}
		})
	}

	// ---- output
	var pre strings.Builder
	pre.WriteString("(* written by /verif/harness/cmd/c10 -- observations of the real code *)\n")
	pre.WriteString("From Sekai Require Import Base.Prelude Base.Dec Model.Pools Gen.C10Cfg Model.C10Check.\n")
	pre.WriteString("Definition cfgs : list cfg := [\n")
	for i, c := range configs {
		var toks []string
		var ds []string
		for d, name := range denoms {
			ds = append(ds, fmt.Sprint(d))
			if t, ok := c.tok[name]; ok {
				toks = append(toks, hx.Pair(fmt.Sprint(d), hx.Tuple(hx.B(t.enabled), hx.Z(t.min), hx.ZBig(sdk.MustNewDecFromStr(t.cap).BigInt()))))
			}
		}
		sep := ";"
		if i == len(configs)-1 {
			sep = ""
		}
		pre.WriteString(fmt.Sprintf("  mkCfg %s %s %d %s %s %d %d %s%s\n", hx.List(toks), hx.List(ds), c.unstake,
			hx.ZBig(sdk.MustNewDecFromStr(c.vfs).BigInt()), hx.ZBig(sdk.MustNewDecFromStr(c.comm).BigInt()), c.snap, c.autoint, zlist(acctIDs), sep))
	}
	pre.WriteString("].\n")
	out.WriteFile("pre.v", pre.String())
	var cases strings.Builder
	nsteps := 0
	for _, h := range hist {
		cases.WriteString(h.coq.String() + "\n")
		nsteps += len(h.Steps)
	}
	out.WriteFile("cases.txt", cases.String())
	out.WriteJSON("meta.json", map[string]string{"case_type": "c10_case", "mismatch_fn": "c10_mismatches tree_variant cfgs", "violation_fn": "c10_violations cfgs"})
	out.WriteJSON("cases.json", hist)
	cfgNames := []string{}
	for _, c := range configs {
		cfgNames = append(cfgNames, c.name)
	}
	out.WriteJSON("dist.json", map[string]interface{}{"seed": seed, "histories": len(hist), "steps": nsteps, "configs": cfgNames, "ops_by_kind_and_result": dist})
	fmt.Fprintf(os.Stderr, "c10: %d histories, %d steps\n", len(hist), nsteps)
}
