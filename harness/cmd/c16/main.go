// c16: runs the REAL gov / staking / recovery msg servers (after each message's ValidateBasic, each
// message in its own cached store that is discarded on error or panic, as baseapp does) on generated
// multi-party identity-registry histories and writes the observations for the Coq model and spec
// checker: all records, the raw address index, all requests, the unique-key list and the balances
// of every party and of the gov module after every operation.
package main

import (
	"crypto/sha256"
	"encoding/hex"
	"flag"
	"fmt"
	"os"
	"sort"
	"strings"
	"time"

	"verif/harness/hx"

	"github.com/KiraCore/sekai/x/gov"
	govkeeper "github.com/KiraCore/sekai/x/gov/keeper"
	govtypes "github.com/KiraCore/sekai/x/gov/types"
	recoverykeeper "github.com/KiraCore/sekai/x/recovery/keeper"
	recoverytypes "github.com/KiraCore/sekai/x/recovery/types"
	stakingkeeper "github.com/KiraCore/sekai/x/staking/keeper"
	stakingtypes "github.com/KiraCore/sekai/x/staking/types"
	"github.com/cosmos/cosmos-sdk/crypto/keys/ed25519"
	"github.com/cosmos/cosmos-sdk/store/prefix"
	sdk "github.com/cosmos/cosmos-sdk/types"
	authtypes "github.com/cosmos/cosmos-sdk/x/auth/types"
	minttypes "github.com/cosmos/cosmos-sdk/x/mint/types"
)

// block times are nanoseconds; the Coq side sees them relative to baseNs (smaller literals)
const baseNs int64 = 1700000000_000000000

const nParties = 7 // 0..3 users, 4..5 fresh rotation targets, 6 administrator

var denoms = []string{"ukex", "utip"}

type jop struct {
	Kind   string     `json:"kind"`
	Now    int64      `json:"now,omitempty"`
	A      int        `json:"a"`
	B      int        `json:"b,omitempty"`
	Infos  [][2]string `json:"infos,omitempty"`
	Keys   []string   `json:"keys,omitempty"`
	Rids   []uint64   `json:"rids,omitempty"`
	Denom  string     `json:"denom,omitempty"`
	Amount int64      `json:"amount,omitempty"`
	Qid    uint64     `json:"qid,omitempty"`
	Yes    bool       `json:"yes,omitempty"`
	Str    string     `json:"str,omitempty"`
	Res    string     `json:"res"`
	Err    string     `json:"err,omitempty"`
}
type jcase struct {
	Cfg   int    `json:"cfg"`
	Shape string `json:"shape"`
	Ops   []jop  `json:"ops"`
	Addrs []string `json:"addresses"`
}

type config struct {
	minTip         uint64
	pc, pv, pn, se []int
	rr             []int // addresses with a validator recovery token (they rotate through MsgRotateValidatorByHalfRRTokenHolder)
}


func zlist(xs []int) string {
	ss := make([]string, len(xs))
	for i, x := range xs {
		ss[i] = fmt.Sprint(x)
	}
	return hx.List(ss)
}
func ulist(xs []uint64) string {
	ss := make([]string, len(xs))
	for i, x := range xs {
		ss[i] = hx.ZU(x)
	}
	return hx.List(ss)
}
func slist(xs []string) string {
	ss := make([]string, len(xs))
	for i, x := range xs {
		ss[i] = hx.Str(x)
	}
	return hx.List(ss)
}

func main() {
	outDir := flag.String("out", ".", "output directory")
	n := flag.Int("n", 300, "number of random histories (on top of the scripted ones)")
	maxOps := flag.Int("ops", 28, "operations per random history")
	flag.Parse()
	out := hx.Out{Dir: *outDir}
	seed := hx.Seed()
	rng := hx.NewRng(seed)

	app := hx.NewApp()
	base := hx.Ctx(app, 10, 1700000000)
	gk := app.CustomGovKeeper
	govMS := govkeeper.NewMsgServerImpl(gk)
	stMS := stakingkeeper.NewMsgServerImpl(app.CustomStakingKeeper, gk)
	recMS := recoverykeeper.NewMsgServerImpl(app.RecoveryKeeper)
	govKey := app.GetKey(govtypes.ModuleName)
	govAcc := authtypes.NewModuleAddress(govtypes.ModuleName)

	addrs := make([]sdk.AccAddress, nParties)
	index := map[string]int{}
	for i := range addrs {
		addrs[i] = sdk.AccAddress(fmt.Sprintf("c16_party_%d_________", i)[:20])
		index[addrs[i].String()] = i
	}
	feePayer := sdk.AccAddress("c16_fee_payer_______")
	rrHolder, rrPoor := sdk.AccAddress("c16_rr_holder_______"), sdk.AccAddress("c16_rr_poor_________")
	who := func(s string) int {
		if i, ok := index[s]; ok {
			return i
		}
		return 900
	}
	fund := func(ctx sdk.Context, a sdk.AccAddress, coins sdk.Coins) {
		if err := app.BankKeeper.MintCoins(ctx, minttypes.ModuleName, coins); err != nil {
			panic(err)
		}
		if err := app.BankKeeper.SendCoinsFromModuleToAccount(ctx, minttypes.ModuleName, a, coins); err != nil {
			panic(err)
		}
	}
	proofOf := func(i int) string { return hex.EncodeToString([]byte(fmt.Sprintf("secret-of-%d", i))) }
	challengeOf := func(i int) string {
		h := sha256.Sum256([]byte(fmt.Sprintf("secret-of-%d", i)))
		return hex.EncodeToString(h[:])
	}

	// shared funding (users 0..3, administrator; the rotation targets stay without an account)
	for i := 0; i < 4; i++ {
		fund(base, addrs[i], sdk.NewCoins(sdk.NewInt64Coin("ukex", 5000+int64(i)*1000), sdk.NewInt64Coin("utip", 3000)))
	}
	fund(base, feePayer, sdk.NewCoins(sdk.NewInt64Coin("ukex", 1_000_000_000_000)))

	cfgs := []config{
		{200, []int{0, 1}, []int{1, 2}, []int{6}, []int{0, 1, 2}, []int{3}},
		{0, []int{2, 3}, []int{0, 3}, []int{6, 0}, []int{0, 1, 2}, []int{3}},
		{(1 << 63) + 5, []int{0, 1, 2, 3}, []int{0, 1, 2, 3}, []int{6}, []int{0, 1}, []int{2, 3}},
		{1000, []int{}, []int{1}, []int{}, []int{1, 3}, []int{0, 2}},
	}
	applyCfg := func(ctx sdk.Context, c config) {
		if err := gk.SetNetworkProperty(ctx, govtypes.MinIdentityApprovalTip, govtypes.NetworkPropertyValue{Value: c.minTip}); err != nil {
			panic(err)
		}
		grant := func(is []int, p govtypes.PermValue) {
			for _, i := range is {
				actor, found := gk.GetNetworkActorByAddress(ctx, addrs[i])
				if !found {
					actor = govtypes.NewDefaultActor(addrs[i])
				}
				if err := gk.AddWhitelistPermission(ctx, actor, p); err != nil {
					panic(err)
				}
			}
		}
		grant(c.pc, govtypes.PermClaimCouncilor)
		grant(c.pv, govtypes.PermClaimValidator)
		grant(c.pn, govtypes.PermChangeTxFee)
		for _, i := range c.se {
			if _, err := recMS.RegisterRecoverySecret(sdk.WrapSDKContext(ctx), &recoverytypes.MsgRegisterRecoverySecret{
				Address: addrs[i].String(), Challenge: challengeOf(i), Nonce: "00", Proof: ""}); err != nil {
				panic(err)
			}
		}
		for _, i := range c.rr {
			denom := fmt.Sprintf("rr/c16v%d", i)
			app.RecoveryKeeper.SetRecoveryToken(ctx, recoverytypes.RecoveryToken{Address: addrs[i].String(), Token: denom, RrSupply: sdk.NewInt(1000)})
			coins := sdk.NewCoins(sdk.NewInt64Coin(denom, 1000))
			if err := app.BankKeeper.MintCoins(ctx, recoverytypes.ModuleName, coins); err != nil {
				panic(err)
			}
			if err := app.BankKeeper.SendCoinsFromModuleToAccount(ctx, recoverytypes.ModuleName, rrHolder, coins); err != nil {
				panic(err)
			}
		}
	}

	// does DeleteIdentityRecordById remove the address+key index entry? (probed, so that the model
	// follows the tree under test; the unpatched code leaves the entry behind)
	delFix := func() bool {
		c, _ := base.CacheContext()
		probe := sdk.AccAddress("c16_probe___________")
		if err := gk.RegisterIdentityRecords(c, probe, []govtypes.IdentityInfoEntry{{Key: "probe", Info: "x"}}); err != nil {
			panic(err)
		}
		id := gk.GetIdentityRecordIdByAddressKey(c, probe, "probe")
		gk.DeleteIdentityRecordById(c, id)
		return gk.GetIdentityRecordIdByAddressKey(c, probe, "probe") == 0
	}()

	// does MsgSetNetworkProperties refuse to declare a key unique while duplicates exist? (probed)
	msgGuard := func() bool {
		c, _ := base.CacheContext()
		p1, p2, adm := sdk.AccAddress("c16_probe_1_________"), sdk.AccAddress("c16_probe_2_________"), sdk.AccAddress("c16_probe_admin_____")
		for _, a := range []sdk.AccAddress{p1, p2} {
			if err := gk.RegisterIdentityRecords(c, a, []govtypes.IdentityInfoEntry{{Key: "probekey", Info: "same"}}); err != nil {
				panic(err)
			}
		}
		if err := gk.AddWhitelistPermission(c, govtypes.NewDefaultActor(adm), govtypes.PermChangeTxFee); err != nil {
			panic(err)
		}
		props := *gk.GetNetworkProperties(c)
		props.UniqueIdentityKeys += ",probekey"
		_, err := govMS.SetNetworkProperties(sdk.WrapSDKContext(c), &govtypes.MsgSetNetworkProperties{NetworkProperties: &props, Proposer: adm})
		return err != nil
	}()

	// do the rotations refuse a target that already holds identity records? (probed)
	rotCheck := func() bool {
		c, _ := base.CacheContext()
		src, tgt := sdk.AccAddress("c16_probe_rot_src___"), sdk.AccAddress("c16_probe_rot_tgt___")
		app.RecoveryKeeper.SetRecoveryToken(c, recoverytypes.RecoveryToken{Address: src.String(), Token: "rr/c16probe", RrSupply: sdk.NewInt(10)})
		coins := sdk.NewCoins(sdk.NewInt64Coin("rr/c16probe", 10))
		if err := app.BankKeeper.MintCoins(c, recoverytypes.ModuleName, coins); err != nil {
			panic(err)
		}
		if err := app.BankKeeper.SendCoinsFromModuleToAccount(c, recoverytypes.ModuleName, rrHolder, coins); err != nil {
			panic(err)
		}
		for _, a := range []sdk.AccAddress{src, tgt} {
			if err := gk.RegisterIdentityRecords(c, a, []govtypes.IdentityInfoEntry{{Key: "probekey", Info: a.String()}}); err != nil {
				panic(err)
			}
		}
		_, err := recMS.RotateValidatorByHalfRRTokenHolder(sdk.WrapSDKContext(c), &recoverytypes.MsgRotateValidatorByHalfRRTokenHolder{
			RrHolder: rrHolder.String(), Address: src.String(), Recovery: tgt.String()})
		return err != nil
	}()

	// do the rotations refuse a target that is a network actor? (probed; fix 2093997)
	actorCheck := func() bool {
		c, _ := base.CacheContext()
		src, tgt := sdk.AccAddress("c16_probe_act_src___"), sdk.AccAddress("c16_probe_act_tgt___")
		app.RecoveryKeeper.SetRecoveryToken(c, recoverytypes.RecoveryToken{Address: src.String(), Token: "rr/c16probe2", RrSupply: sdk.NewInt(10)})
		coins := sdk.NewCoins(sdk.NewInt64Coin("rr/c16probe2", 10))
		if err := app.BankKeeper.MintCoins(c, recoverytypes.ModuleName, coins); err != nil {
			panic(err)
		}
		if err := app.BankKeeper.SendCoinsFromModuleToAccount(c, recoverytypes.ModuleName, rrHolder, coins); err != nil {
			panic(err)
		}
		if err := gk.AddWhitelistPermission(c, govtypes.NewDefaultActor(tgt), govtypes.PermClaimValidator); err != nil {
			panic(err)
		}
		_, err := recMS.RotateValidatorByHalfRRTokenHolder(sdk.WrapSDKContext(c), &recoverytypes.MsgRotateValidatorByHalfRRTokenHolder{
			RrHolder: rrHolder.String(), Address: src.String(), Recovery: tgt.String()})
		return err != nil
	}()

	// ---------------------------------------------------------------- observation
	type snapT struct {
		coq  string
		recs []govtypes.IdentityRecord
		reqs []govtypes.IdentityRecordsVerify
		idx  map[int]map[string]uint64
		uk   string
	}
	addrList := func(ss []string) string {
		xs := make([]string, len(ss))
		for i, s := range ss {
			xs[i] = fmt.Sprint(who(s))
		}
		return hx.List(xs)
	}
	snapshot := func(ctx sdk.Context) snapT {
		var sn snapT
		sn.recs = gk.GetAllIdentityRecords(ctx)
		var rs []string
		for _, r := range sn.recs {
			rs = append(rs, fmt.Sprintf("mkRec %d %d %s %s %s %s", r.Id, who(r.Address), hx.Str(r.Key), hx.Str(r.Value), hx.Z(r.Date.UnixNano()-baseNs), addrList(r.Verifiers)))
		}
		sn.idx = map[int]map[string]uint64{}
		var es []string
		for i := 0; i < nParties; i++ {
			sn.idx[i] = map[string]uint64{}
			st := prefix.NewStore(ctx.KVStore(govKey), govtypes.IdentityRecordByAddressPrefix(addrs[i].String()))
			it := st.Iterator(nil, nil)
			for ; it.Valid(); it.Next() {
				id := sdk.BigEndianToUint64(it.Value())
				sn.idx[i][string(it.Key())] = id
				es = append(es, fmt.Sprintf("((%d, %s), %d)", i, hx.Str(string(it.Key())), id))
			}
			it.Close()
		}
		sn.reqs = gk.GetAllIdRecordsVerifyRequests(ctx)
		var qs []string
		for _, q := range sn.reqs {
			qs = append(qs, fmt.Sprintf("mkReq %d %d %d %s %s %s %s", q.Id, who(q.Address), who(q.Verifier), ulist(q.RecordIds), hx.Str(q.Tip.Denom), hx.ZInt(q.Tip.Amount), hx.Z(q.LastRecordEditDate.UnixNano()-baseNs)))
		}
		var bs []string
		for i := 0; i < nParties-1; i++ {
			for _, d := range denoms {
				bs = append(bs, fmt.Sprintf("((User %d, %s), %s)", i, hx.Str(d), hx.ZInt(app.BankKeeper.GetBalance(ctx, addrs[i], d).Amount)))
			}
		}
		for _, d := range denoms {
			bs = append(bs, fmt.Sprintf("((Gov, %s), %s)", hx.Str(d), hx.ZInt(app.BankKeeper.GetBalance(ctx, govAcc, d).Amount)))
		}
		uk := gk.GetNetworkProperties(ctx).UniqueIdentityKeys
		sn.uk = uk
		sn.coq = fmt.Sprintf("(mkSnap %s %s %s %s %s)", hx.List(rs), hx.List(es), hx.List(qs), hx.Str(uk), hx.List(bs))
		return sn
	}

	// ---------------------------------------------------------------- operations on the real code
	type opT struct {
		j   jop
		coq string
		run func(ctx sdk.Context) error
	}
	infosCoq := func(infos [][2]string) string {
		xs := make([]string, len(infos))
		for i, kv := range infos {
			xs[i] = hx.Pair(hx.Str(kv[0]), hx.Str(kv[1]))
		}
		return hx.List(xs)
	}
	mkRegister := func(now int64, a int, infos [][2]string) opT {
		return opT{jop{Kind: "register", Now: now, A: a, Infos: infos}, fmt.Sprintf("ORegister %d %d %s", now-baseNs, a, infosCoq(infos)),
			func(ctx sdk.Context) error {
				es := make([]govtypes.IdentityInfoEntry, len(infos))
				for i, kv := range infos {
					es[i] = govtypes.IdentityInfoEntry{Key: kv[0], Info: kv[1]}
				}
				m := &govtypes.MsgRegisterIdentityRecords{Address: addrs[a], Infos: es}
				if err := m.ValidateBasic(); err != nil {
					return err
				}
				_, err := govMS.RegisterIdentityRecords(sdk.WrapSDKContext(ctx), m)
				return err
			}}
	}
	mkDelete := func(a int, keys []string) opT {
		return opT{jop{Kind: "delete", A: a, Keys: keys}, fmt.Sprintf("ODelete %d %s", a, slist(keys)),
			func(ctx sdk.Context) error {
				m := &govtypes.MsgDeleteIdentityRecords{Address: addrs[a], Keys: append([]string{}, keys...)}
				if err := m.ValidateBasic(); err != nil {
					return err
				}
				_, err := govMS.DeleteIdentityRecords(sdk.WrapSDKContext(ctx), m)
				return err
			}}
	}
	mkRequest := func(a, v int, rids []uint64, denom string, amt int64) opT {
		return opT{jop{Kind: "request", A: a, B: v, Rids: rids, Denom: denom, Amount: amt},
			fmt.Sprintf("ORequest %d %d %s %s %s", a, v, ulist(rids), hx.Str(denom), hx.Z(amt)),
			func(ctx sdk.Context) error {
				m := &govtypes.MsgRequestIdentityRecordsVerify{Address: addrs[a], Verifier: addrs[v], RecordIds: append([]uint64{}, rids...),
					Tip: sdk.Coin{Denom: denom, Amount: sdk.NewInt(amt)}}
				if err := m.ValidateBasic(); err != nil {
					return err
				}
				_, err := govMS.RequestIdentityRecordsVerify(sdk.WrapSDKContext(ctx), m)
				return err
			}}
	}
	mkHandle := func(v int, qid uint64, yes bool) opT {
		return opT{jop{Kind: "handle", A: v, Qid: qid, Yes: yes}, fmt.Sprintf("OHandle %d %d %s", v, qid, hx.B(yes)),
			func(ctx sdk.Context) error {
				m := &govtypes.MsgHandleIdentityRecordsVerifyRequest{Verifier: addrs[v], VerifyRequestId: qid, Yes: yes}
				if err := m.ValidateBasic(); err != nil {
					return err
				}
				_, err := govMS.HandleIdentityRecordsVerifyRequest(sdk.WrapSDKContext(ctx), m)
				return err
			}}
	}
	mkCancel := func(a int, qid uint64) opT {
		return opT{jop{Kind: "cancel", A: a, Qid: qid}, fmt.Sprintf("OCancel %d %d", a, qid),
			func(ctx sdk.Context) error {
				m := &govtypes.MsgCancelIdentityRecordsVerifyRequest{Executor: addrs[a], VerifyRequestId: qid}
				if err := m.ValidateBasic(); err != nil {
					return err
				}
				_, err := govMS.CancelIdentityRecordsVerifyRequest(sdk.WrapSDKContext(ctx), m)
				return err
			}}
	}
	mkCouncilor := func(now int64, a int, vals []string) opT {
		return opT{jop{Kind: "claimcouncilor", Now: now, A: a, Keys: vals}, fmt.Sprintf("OClaimCouncilor %d %d %s", now-baseNs, a, slist(vals)),
			func(ctx sdk.Context) error {
				m := &govtypes.MsgClaimCouncilor{Address: addrs[a], Moniker: vals[0], Username: vals[1], Description: vals[2], Social: vals[3], Contact: vals[4], Avatar: vals[5]}
				if err := m.ValidateBasic(); err != nil {
					return err
				}
				_, err := govMS.ClaimCouncilor(sdk.WrapSDKContext(ctx), m)
				return err
			}}
	}
	mkValidator := func(now int64, a int, moniker string) opT {
		return opT{jop{Kind: "claimvalidator", Now: now, A: a, Str: moniker}, fmt.Sprintf("OClaimValidator %d %d %s", now-baseNs, a, hx.Str(moniker)),
			func(ctx sdk.Context) error {
				pk := ed25519.GenPrivKeyFromSecret([]byte(fmt.Sprintf("c16-validator-%d", a))).PubKey()
				m, err := stakingtypes.NewMsgClaimValidator(moniker, sdk.ValAddress(addrs[a]), pk)
				if err != nil {
					return err
				}
				if err := m.ValidateBasic(); err != nil {
					return err
				}
				_, err = stMS.ClaimValidator(sdk.WrapSDKContext(ctx), m)
				return err
			}}
	}
	propHandler := gov.NewApplySetNetworkPropertyProposalHandler(gk)
	mkKeysProp := func(s string) opT {
		return opT{jop{Kind: "setkeysprop", Str: s}, fmt.Sprintf("OSetKeysProp %s", hx.Str(s)),
			func(ctx sdk.Context) error { // the registered proposal handler, as the gov end-blocker calls it
				return propHandler.Apply(ctx, 1, &govtypes.SetNetworkPropertyProposal{NetworkProperty: govtypes.UniqueIdentityKeys,
					Value: govtypes.NetworkPropertyValue{StrValue: s}}, sdk.ZeroDec())
			}}
	}
	mkKeysMsg := func(p int, s string) opT {
		return opT{jop{Kind: "setkeysmsg", A: p, Str: s}, fmt.Sprintf("OSetKeysMsg %d %s", p, hx.Str(s)),
			func(ctx sdk.Context) error {
				props := *gk.GetNetworkProperties(ctx)
				props.UniqueIdentityKeys = s
				m := &govtypes.MsgSetNetworkProperties{NetworkProperties: &props, Proposer: addrs[p]}
				if err := m.ValidateBasic(); err != nil {
					return err
				}
				_, err := govMS.SetNetworkProperties(sdk.WrapSDKContext(ctx), m)
				return err
			}}
	}
	mkRotate := func(a, b int, good bool) opT {
		return opT{jop{Kind: "rotate", A: a, B: b, Yes: good}, fmt.Sprintf("ORotate %d %d %s", a, b, hx.B(good)),
			func(ctx sdk.Context) error {
				proof := proofOf(a)
				if !good {
					proof = proofOf(a + 17)
				}
				m := &recoverytypes.MsgRotateRecoveryAddress{FeePayer: feePayer.String(), Address: addrs[a].String(), Recovery: addrs[b].String(), Proof: proof}
				_, err := recMS.RotateRecoveryAddress(sdk.WrapSDKContext(ctx), m)
				return err
			}}
	}

	mkRotateRR := func(a, b int, good bool) opT {
		return opT{jop{Kind: "rotaterr", A: a, B: b, Yes: good}, fmt.Sprintf("ORotateRR %d %d %s", a, b, hx.B(good)),
			func(ctx sdk.Context) error {
				holder := rrHolder
				if !good {
					holder = rrPoor
				}
				m := &recoverytypes.MsgRotateValidatorByHalfRRTokenHolder{RrHolder: holder.String(), Address: addrs[a].String(), Recovery: addrs[b].String()}
				_, err := recMS.RotateValidatorByHalfRRTokenHolder(sdk.WrapSDKContext(ctx), m)
				return err
			}}
	}
	// genesis round trip of the gov module in the middle of a history: export, wipe the identity stores, import
	idPrefixes := [][]byte{govtypes.KeyPrefixIdentityRecord, govtypes.KeyPrefixIdentityRecordByAddress, govtypes.KeyPrefixIdRecordVerifyRequest,
		govtypes.KeyPrefixIdRecordVerifyRequestByRequester, govtypes.KeyPrefixIdRecordVerifyRequestByApprover,
		govtypes.KeyLastIdentityRecordId, govtypes.KeyLastIdRecordVerifyRequestId}
	mkGenesis := func() opT {
		return opT{jop{Kind: "genesis"}, "OGenesis",
			func(ctx sdk.Context) error {
				gs := gov.ExportGenesis(ctx, gk)
				st := ctx.KVStore(govKey)
				for _, pf := range idPrefixes {
					var keys [][]byte
					it := sdk.KVStorePrefixIterator(st, pf)
					for ; it.Valid(); it.Next() {
						keys = append(keys, append([]byte{}, it.Key()...))
					}
					it.Close()
					for _, k := range keys {
						st.Delete(k)
					}
				}
				return gov.InitGenesis(ctx, gk, *gs)
			}}
	}

	// ---------------------------------------------------------------- running one history
	var coqCases strings.Builder
	var js []jcase
	dist := hx.Counter{}
	sizes := hx.Counter{}
	addrStrings := make([]string, nParties)
	for i := range addrs {
		addrStrings[i] = addrs[i].String()
	}

	type hist struct {
		ctx   sdk.Context
		cfg   int
		last  snapT
		steps []string
		jops  []jop
		now   int64
		done  []uint64 // request ids that left the pending set (for double handle / cancel)
	}
	start := func(cfg int) *hist {
		ctx, _ := base.CacheContext()
		applyCfg(ctx, cfgs[cfg])
		h := &hist{ctx: ctx, cfg: cfg, now: 1700000100_000000000}
		h.last = snapshot(ctx)
		h.steps = append(h.steps, h.last.coq) // element 0 = starting snapshot
		return h
	}
	do := func(h *hist, o opT) bool {
		ctx := h.ctx.WithBlockTime(time.Unix(0, h.now).UTC())
		if o.j.Now != 0 {
			ctx = h.ctx.WithBlockTime(time.Unix(0, o.j.Now).UTC())
		}
		cc, write := ctx.CacheContext()
		var err error
		p := hx.Try(func() { err = o.run(cc) })
		res := "ROk"
		switch {
		case p != "":
			res, o.j.Res, o.j.Err = "RPanic", "panic", p
		case err != nil:
			res, o.j.Res, o.j.Err = "RRej", "rejected", err.Error()
		default:
			o.j.Res = "ok"
			write()
		}
		before := map[uint64]bool{}
		for _, q := range h.last.reqs {
			before[q.Id] = true
		}
		sn := snapshot(h.ctx)
		for _, q := range sn.reqs {
			delete(before, q.Id)
		}
		for id := range before {
			h.done = append(h.done, id)
		}
		sort.Slice(h.done, func(i, j int) bool { return h.done[i] < h.done[j] })
		obs := "None"
		if sn.coq != h.last.coq {
			obs = "(Some " + sn.coq + ")"
		}
		h.last = sn
		h.steps = append(h.steps, fmt.Sprintf("(%s, %s, %s)", o.coq, res, obs))
		h.jops = append(h.jops, o.j)
		dist.Inc(o.j.Kind + ":" + o.j.Res)
		return o.j.Res == "ok"
	}
	finish := func(h *hist, shape string) {
		coqCases.WriteString(fmt.Sprintf("CHist %d %s %s\n", h.cfg, h.steps[0], hx.List(h.steps[1:])))
		js = append(js, jcase{Cfg: h.cfg, Shape: shape, Ops: h.jops, Addrs: addrStrings})
		sizes.Inc(fmt.Sprintf("ops_%02d", (len(h.jops)/10)*10))
	}

	// ---------------------------------------------------------------- generators
	keyPool := []string{"moniker", "Moniker", "MONIKER", "username", "UserName", "twitter", "Twitter", "tWiTtEr", "web", "a_b", "A_B", "description"}
	badKeys := []string{"", "1bad", "bad-key", "sp ace", "_x"}
	valPool := []string{"alice", "bob", "carol", "Alice", "ALICE", " alice", "alice ", "x", "y", "", "same", "abcdefghijklmnopqrstuvwxyz0123456", "abcdefghijklmnopqrstuvwxyz012345"}
	keySets := []string{"moniker,username", "moniker,username,twitter", "moniker,username,web,twitter", "moniker", "moniker,twitter", "Moniker,username", "username", "", "moniker,username,a_b", "moniker,,username", "moniker,username,description"}
	pick := func(xs []string) string { return xs[rng.Intn(len(xs))] }
	spell := func(k string) string { // a random spelling of a key
		switch rng.Intn(3) {
		case 0:
			return strings.ToUpper(k)
		case 1:
			return strings.ToUpper(k[:1]) + k[1:]
		}
		return k
	}
	candKeys := []string{"twitter", "web", "a_b", "description", "email", "contact"}
	// editList: the current list with [cand] inserted at position pos (0 = front ... len = end; -1 = not
	// inserted), optionally with the old keys permuted, one key repeated, or one old key dropped
	editList := func(cur string, cand string, pos int, permute, repeat, drop bool) string {
		old := []string{}
		if cur != "" {
			old = strings.Split(cur, ",")
		}
		old = append([]string{}, old...)
		if permute && len(old) > 1 {
			for i := len(old) - 1; i > 0; i-- {
				j := rng.Intn(i + 1)
				old[i], old[j] = old[j], old[i]
			}
		}
		if drop && len(old) > 0 {
			i := rng.Intn(len(old))
			old = append(old[:i], old[i+1:]...)
		}
		if pos >= 0 {
			if pos > len(old) {
				pos = len(old)
			}
			old = append(old[:pos], append([]string{cand}, old[pos:]...)...)
		}
		if repeat && len(old) > 0 {
			i, j := rng.Intn(len(old)), rng.Intn(len(old)+1)
			old = append(old[:j], append([]string{old[i]}, old[j:]...)...)
		}
		return strings.Join(old, ",")
	}
	randomKeyList := func(h *hist) string {
		if rng.Chance(25) {
			return pick(keySets)
		}
		cand := pick(candKeys)
		if rng.Chance(35) && len(h.last.recs) > 0 { // a key that already has records (possibly duplicated values)
			cand = h.last.recs[rng.Intn(len(h.last.recs))].Key
		}
		if rng.Chance(5) {
			cand = spell(cand)
		}
		n := len(strings.Split(h.last.uk, ","))
		pos := rng.Intn(n + 1)
		if rng.Chance(8) {
			pos = -1
		}
		return editList(h.last.uk, cand, pos, rng.Chance(35), rng.Chance(12), rng.Chance(8))
	}

	randomHistory := func(cfg int, nops int, withRotation bool) {
		h := start(cfg)
		rotAt := -1
		if withRotation {
			rotAt = 4 + rng.Intn(nops/2+1)
		}
		nextTarget := 4
		for i := 0; i < nops; i++ {
			h.now += []int64{0, 0, 1, 1, 999_999_999, 1_000_000_000, 1_000_000_001, 2_000_000_000}[rng.Intn(8)] // several operations per block time; +-1 ns and +-1 s around stored dates
			user := rng.Intn(4)
			if rng.Chance(6) {
				user = 4 + rng.Intn(2)
			}
			if i == rotAt || (withRotation && i > rotAt && rng.Chance(4)) {
				src := rng.Intn(4)
				tgt := nextTarget
				if rng.Chance(15) {
					tgt = rng.Intn(6)
				}
				if rng.Chance(60) && len(h.last.idx[src]) > 0 { // the records that move carry verifications and a pending request
					var own []uint64
					for _, id := range h.last.idx[src] {
						own = append(own, id)
					}
					sort.Slice(own, func(i, j int) bool { return own[i] < own[j] })
					v := rng.Intn(4)
					amt := int64(cfgs[cfg].minTip%100000) + 1
					if do(h, mkRequest(src, v, []uint64{own[rng.Intn(len(own))]}, "ukex", amt)) {
						do(h, mkHandle(v, h.last.reqs[len(h.last.reqs)-1].Id, true))
					}
					do(h, mkRequest(src, rng.Intn(4), []uint64{own[rng.Intn(len(own))]}, "utip", amt))
					do(h, mkRequest(rng.Intn(4), src, nil, "utip", amt)) // usually rejected (no ids); harmless
				}
				isRR := false
				for _, x := range cfgs[cfg].rr {
					if x == src {
						isRR = true
					}
				}
				if rng.Chance(10) {
					isRR = !isRR // the wrong entry point for this address: must be rejected
				}
				var ok bool
				if isRR {
					ok = do(h, mkRotateRR(src, tgt, !rng.Chance(12)))
				} else {
					ok = do(h, mkRotate(src, tgt, !rng.Chance(12)))
				}
				if ok && tgt == nextTarget && nextTarget < 5 {
					nextTarget++
				}
				continue
			}
			if rng.Chance(3) {
				do(h, mkGenesis())
				continue
			}
			k := rng.Intn(100)
			if k >= 60 && k < 88 && len(h.last.reqs) == 0 && rng.Chance(75) {
				k = 40 // nothing is pending: make a request instead of handling / cancelling nothing
			}
			if k >= 37 && k < 60 && len(h.last.idx[user]) == 0 && rng.Chance(80) {
				for u := 0; u < 6; u++ { // a requester that has records
					if len(h.last.idx[(user+u)%6]) > 0 {
						user = (user + u) % 6
						break
					}
				}
			}
			switch {
			case k < 30: // register / edit
				var infos [][2]string
				for j := 0; j < 1+rng.Intn(3); j++ {
					key := pick(keyPool)
					if rng.Chance(4) {
						key = pick(badKeys)
					}
					infos = append(infos, [2]string{key, pick(valPool)})
				}
				if rng.Chance(18) && len(h.last.recs) > 0 { // the same value somebody else holds, under any spelling of the key
					r := h.last.recs[rng.Intn(len(h.last.recs))]
					infos = append(infos, [2]string{spell(r.Key), r.Value})
				}
				if rng.Chance(3) {
					infos = nil
				}
				do(h, mkRegister(h.now, user, infos))
			case k < 37: // delete
				var keys []string
				for j := 0; j < rng.Intn(3); j++ {
					keys = append(keys, pick(keyPool))
				}
				if rng.Chance(5) {
					keys = append(keys, pick(badKeys))
				}
				do(h, mkDelete(user, keys))
			case k < 60: // request
				var rids []uint64
				own := []uint64{}
				for _, id := range h.last.idx[user] {
					own = append(own, id)
				}
				sort.Slice(own, func(i, j int) bool { return own[i] < own[j] })
				for j := 0; j < 1+rng.Intn(2) && len(own) > 0; j++ {
					rids = append(rids, own[rng.Intn(len(own))])
				}
				if rng.Chance(3) {
					rids = append(rids, []uint64{0, 1 << 63, 1<<64 - 1}[rng.Intn(3)])
				}
				if rng.Chance(12) { // somebody else's or a missing record
					rids = append(rids, uint64(1+rng.Intn(12)))
				}
				if rng.Chance(3) {
					rids = nil
				}
				denom := denoms[rng.Intn(2)]
				var amt int64
				switch a := rng.Intn(20); {
				case a < 4: // exactly at / one below / one above the configured minimum
					amt = int64(cfgs[cfg].minTip%100000) + int64(rng.Intn(3)) - 1
				case a < 12:
					amt = int64(cfgs[cfg].minTip%100000) + int64(rng.Intn(400))
				case a < 14:
					amt = 0
				case a < 16:
					amt = int64(rng.Intn(200))
				case a < 17:
					amt = -5
				case a < 18:
					amt = 1 << 40
				default:
					amt = 1000 + int64(rng.Intn(2000))
				}
				do(h, mkRequest(user, rng.Intn(4+rng.Intn(3)), rids, denom, amt))
			case k < 78: // handle
				var v int
				var qid uint64
				if len(h.last.reqs) > 0 && !rng.Chance(15) {
					q := h.last.reqs[rng.Intn(len(h.last.reqs))]
					qid, v = q.Id, who(q.Verifier)
					if rng.Chance(15) || v >= nParties {
						v = rng.Intn(6)
					}
				} else if len(h.done) > 0 && rng.Chance(70) {
					qid, v = h.done[rng.Intn(len(h.done))], rng.Intn(4)
				} else {
					qid, v = uint64(rng.Intn(8)), rng.Intn(4)
				}
				do(h, mkHandle(v, qid, rng.Chance(65)))
			case k < 88: // cancel
				var a int
				var qid uint64
				if len(h.last.reqs) > 0 && !rng.Chance(20) {
					q := h.last.reqs[rng.Intn(len(h.last.reqs))]
					qid, a = q.Id, who(q.Address)
					if rng.Chance(25) || a >= nParties {
						a = rng.Intn(6)
					}
				} else if len(h.done) > 0 && rng.Chance(70) {
					qid, a = h.done[rng.Intn(len(h.done))], rng.Intn(4)
				} else {
					qid, a = uint64(rng.Intn(8)), rng.Intn(4)
				}
				do(h, mkCancel(a, qid))
			case k < 91:
				vals := []string{pick(valPool), pick(valPool), pick(valPool), "", "", ""}
				if rng.Chance(30) {
					vals[3] = "soc"
				}
				do(h, mkCouncilor(h.now, user, vals))
			case k < 94:
				m := pick(valPool)
				if rng.Chance(40) {
					m = " " + m + "  "
				}
				do(h, mkValidator(h.now, user, m))
			case k < 97 || (k < 99 && cfgs[cfg].pn == nil):
				do(h, mkKeysProp(randomKeyList(h)))
			default:
				p := 6
				if rng.Chance(30) {
					p = rng.Intn(4)
				}
				do(h, mkKeysMsg(p, randomKeyList(h)))
			}
		}
		shape := "random"
		if withRotation {
			shape = "random+rotation"
		}
		finish(h, shape)
	}

	// ---- scripted histories: the orders the property text names
	{
		// edit between request and approval; approve after edit; cancel after approve; double handle; strangers
		h := start(0)
		do(h, mkRegister(h.now, 0, [][2]string{{"Moniker", "alice"}, {"Twitter", "t0"}}))
		do(h, mkRegister(h.now, 1, [][2]string{{"moniker", "bob"}, {"twitter", "t0"}}))
		do(h, mkRegister(h.now, 1, [][2]string{{"MONIKER", "alice"}})) // taken
		do(h, mkRequest(0, 2, []uint64{1, 2}, "ukex", 300))
		do(h, mkRequest(0, 3, []uint64{2}, "utip", 250))
		do(h, mkRequest(1, 2, []uint64{1}, "ukex", 300)) // not the owner
		do(h, mkHandle(3, 1, true))                      // stranger handles
		do(h, mkCancel(1, 1))                            // stranger cancels
		h.now += 5
		do(h, mkRegister(h.now, 0, [][2]string{{"twitter", "t1"}})) // edit: cancels both requests
		do(h, mkHandle(2, 1, true))                                 // gone
		do(h, mkRequest(0, 2, []uint64{1, 2}, "ukex", 300))
		do(h, mkHandle(2, 3, true))
		do(h, mkHandle(2, 3, true)) // double handle
		do(h, mkCancel(0, 3))       // cancel after approve
		do(h, mkRequest(0, 3, []uint64{1}, "ukex", 200))
		h.now += 3
		do(h, mkRegister(h.now, 0, [][2]string{{"moniker", "alice"}})) // same value, later date: request stays, approval is auto-rejected
		do(h, mkHandle(3, 4, true))
		do(h, mkRequest(0, 3, []uint64{2}, "ukex", 200))
		do(h, mkDelete(0, []string{"Twitter"})) // delete cancels
		do(h, mkCancel(0, 5))
		do(h, mkDelete(0, []string{"moniker"}))
		do(h, mkDelete(0, []string{"Moniker"}))
		finish(h, "scripted:lifecycle")
	}
	{
		// unique-key list: guarded change (proposal path) and whole-record write
		h := start(1)
		do(h, mkRegister(h.now, 0, [][2]string{{"twitter", "same"}, {"web", "w"}}))
		do(h, mkRegister(h.now, 1, [][2]string{{"Twitter", "same"}, {"web", "w"}}))
		do(h, mkKeysProp("moniker,username,twitter")) // duplicates exist: refused
		do(h, mkKeysProp("moniker"))                  // removal: refused
		do(h, mkKeysProp("moniker,username,a_b"))
		do(h, mkRegister(h.now, 2, [][2]string{{"A_B", "v"}}))
		do(h, mkRegister(h.now, 3, [][2]string{{"a_b", "v"}})) // now unique: refused
		do(h, mkKeysMsg(3, "moniker,username,a_b,web"))        // no permission
		do(h, mkKeysMsg(6, "moniker,username,a_b,web"))        // whole-record write, no guard
		do(h, mkRequest(0, 2, []uint64{2}, "ukex", 10))
		do(h, mkHandle(2, 1, true))
		finish(h, "scripted:unique-keys")
	}
	{
		// rotation: records move unchanged; afterwards the old address acts again
		h := start(0)
		do(h, mkRegister(h.now, 0, [][2]string{{"moniker", "alice"}, {"twitter", "t0"}}))
		do(h, mkRegister(h.now, 1, [][2]string{{"moniker", "bob"}}))
		do(h, mkRequest(0, 1, []uint64{1}, "ukex", 300))
		do(h, mkRequest(1, 0, []uint64{3}, "utip", 300))
		do(h, mkRotate(0, 4, false))
		do(h, mkRotate(0, 1, true))
		do(h, mkRotate(0, 4, true))
		do(h, mkHandle(1, 1, true))
		do(h, mkHandle(4, 2, true))
		h.now += 2
		do(h, mkRegister(h.now, 0, [][2]string{{"twitter", "stolen"}})) // old address edits the moved record
		do(h, mkRequest(0, 2, []uint64{1}, "ukex", 300))
		do(h, mkRegister(h.now, 4, [][2]string{{"moniker", "alice2"}}))
		do(h, mkDelete(0, []string{"twitter"}))
		do(h, mkRotate(0, 5, true))
		finish(h, "scripted:rotation")
	}
	{
		// same defect, zero tips (cfg 1): the old address requests verification of the moved record;
		// the new owner's edit does not cancel that request (Coq witness w_rot2)
		h := start(1)
		do(h, mkRegister(h.now, 0, [][2]string{{"twitter", "t0"}}))
		do(h, mkRotate(0, 4, true))
		do(h, mkRequest(0, 2, []uint64{1}, "ukex", 0))
		h.now += 2
		do(h, mkRegister(h.now, 4, [][2]string{{"twitter", "t1"}}))
		do(h, mkHandle(2, 1, true))
		do(h, mkCancel(4, 1))
		do(h, mkCancel(0, 1))
		finish(h, "scripted:rotation-foreign-request")
	}
	{
		// token-holder rotation (MsgRotateValidatorByHalfRRTokenHolder) with pending requests in both roles,
		// a genesis round trip in the middle, and stored dates probed at exactly / +1 ns
		h := start(0)
		do(h, mkRegister(h.now, 3, [][2]string{{"Moniker", "val3"}, {"twitter", "t3"}}))
		do(h, mkRegister(h.now, 0, [][2]string{{"moniker", "alice"}, {"web", "w"}}))
		do(h, mkRequest(3, 0, []uint64{1, 2}, "ukex", 300))
		do(h, mkRequest(0, 3, []uint64{3}, "utip", 200))
		do(h, mkRequest(0, 2, []uint64{4}, "ukex", 199)) // one below the minimum
		do(h, mkRequest(0, 2, []uint64{4}, "ukex", 200)) // exactly the minimum
		do(h, mkRotateRR(3, 5, false))
		do(h, mkRotate(3, 4, true)) // wrong entry point for a token address
		do(h, mkRotateRR(0, 5, true))
		do(h, mkRotateRR(3, 5, true))
		do(h, mkGenesis())
		do(h, mkHandle(3, 2, true)) // the old verifier address
		do(h, mkHandle(5, 2, true))
		do(h, mkRegister(h.now, 0, [][2]string{{"web", "w"}})) // same value, same block time: request 3 stays and can be approved
		do(h, mkHandle(2, 3, true))
		do(h, mkRequest(0, 2, []uint64{4}, "ukex", 200))
		h.now++ // one nanosecond later
		do(h, mkRegister(h.now, 0, [][2]string{{"web", "w"}})) // same value, later date: approval is auto-rejected, tip still paid
		do(h, mkGenesis())
		do(h, mkHandle(2, 4, true))
		do(h, mkRegister(h.now, 5, [][2]string{{"TWITTER", "t5"}})) // the new owner edits: request 1 is cancelled and refunded to 5
		do(h, mkCancel(3, 1))
		do(h, mkDelete(5, nil))
		do(h, mkRegister(h.now, 5, [][2]string{{"twitter", "again"}})) // new id, never a reused one
		do(h, mkRotateRR(5, 3, true))
		finish(h, "scripted:rr-rotation-genesis-time")
	}
	{
		// verified records and pending requests (as requester and as verifier) through BOTH rotation entry points
		h := start(0)
		do(h, mkRegister(h.now, 0, [][2]string{{"moniker", "alice"}, {"web", "w0"}}))
		do(h, mkRegister(h.now, 3, [][2]string{{"moniker", "val3"}, {"web", "w3"}}))
		do(h, mkRequest(0, 3, []uint64{1, 2}, "ukex", 200))
		do(h, mkHandle(3, 1, true)) // records 1,2 verified by 3
		do(h, mkRequest(3, 0, []uint64{3}, "ukex", 200))
		do(h, mkHandle(0, 2, true)) // record 3 verified by 0
		do(h, mkRequest(0, 3, []uint64{2}, "utip", 250))
		do(h, mkRequest(3, 0, []uint64{4}, "utip", 250))
		do(h, mkRotate(0, 4, true))   // secret path: 0 -> 4
		do(h, mkRotateRR(3, 5, true)) // token-holder path: 3 -> 5
		do(h, mkHandle(5, 3, true))
		do(h, mkHandle(4, 4, false))
		do(h, mkRegister(h.now+1, 4, [][2]string{{"web", "w0"}})) // same value: verifications dropped, nothing cancelled
		do(h, mkRegister(h.now+2, 5, [][2]string{{"web", "w5"}})) // changed
		finish(h, "scripted:verified-records-through-rotations")
	}
	{
		// rotation onto a target that is a network actor but holds no records (refused since 2093997):
		// the administrator (permission holder without an account) by the secret path, a permission
		// holder by the token-holder path; then the same rotations onto plain targets
		h := start(0)
		do(h, mkRegister(h.now, 0, [][2]string{{"moniker", "alice"}}))
		do(h, mkRegister(h.now, 3, [][2]string{{"moniker", "val3"}}))
		do(h, mkRotate(0, 6, true))
		do(h, mkRotateRR(3, 2, true))
		do(h, mkRotateRR(3, 6, true))
		do(h, mkRotate(0, 4, true))
		do(h, mkRotateRR(3, 5, true))
		do(h, mkRegister(h.now+1, 4, [][2]string{{"moniker", "alice4"}}))
		finish(h, "scripted:rotation-onto-network-actor")
	}
	for _, viaRR := range []bool{true, false} {
		// rotation INTO an address that already holds a record under the same key (the token-holder path
		// accepts any target; the secret path any target without an account), then a genesis round trip
		cfg, src := 0, 3
		if !viaRR {
			cfg, src = 1, 0
		}
		h := start(cfg)
		do(h, mkRegister(h.now, 4, [][2]string{{"description", "mine"}, {"web", "w4"}}))
		do(h, mkRegister(h.now, src, [][2]string{{"Description", "theirs"}, {"moniker", "m"}}))
		if viaRR {
			do(h, mkRotateRR(src, 4, true))
		} else {
			do(h, mkRotate(src, 4, true))
		}
		do(h, mkDelete(4, []string{"description"}))
		do(h, mkGenesis())
		do(h, mkRegister(h.now+1, 4, [][2]string{{"description", "edited"}}))
		do(h, mkDelete(4, nil))
		do(h, mkGenesis())
		finish(h, fmt.Sprintf("scripted:rotation-into-address-with-records rr=%v", viaRR))
	}
	// ---- systematic sweep of unique-key list edits: new key at every position (front / middle / end),
	// old keys permuted or not, through the single-property path and through MsgSetNetworkProperties,
	// with and without two addresses already holding the same value under the candidate key
	// (registered in two spellings); afterwards a third address tries to take the value and a
	// verifier approves one of the records
	for _, dup := range []bool{true, false} {
		for _, viaMsg := range []bool{false, true} {
			for pos := 0; pos <= 2; pos++ {
				for _, permute := range []bool{false, true} {
					h := start(1)
					cand := candKeys[(pos+len(js))%len(candKeys)]
					v0, v1 := "same", "same"
					if !dup {
						v1 = "other"
					}
					do(h, mkRegister(h.now, 0, [][2]string{{spell(cand), v0}, {"moniker", "m0"}}))
					do(h, mkRegister(h.now, 1, [][2]string{{spell(cand), v1}}))
					list := editList(h.last.uk, cand, pos, permute, false, false)
					edit := func(l string) opT {
						if viaMsg {
							return mkKeysMsg(6, l)
						}
						return mkKeysProp(l)
					}
					do(h, edit(list))
					do(h, edit(editList(h.last.uk, cand, rng.Intn(3), true, true, false))) // again, with a repeated key
					do(h, mkRegister(h.now, 2, [][2]string{{spell(cand), "same"}}))
					do(h, mkRequest(0, 3, []uint64{1}, "ukex", 0))
					do(h, mkHandle(3, 1, true))
					do(h, edit(editList(h.last.uk, candKeys[(pos+3)%len(candKeys)], pos, permute, false, false)))
					finish(h, fmt.Sprintf("scripted:keylist dup=%v msg=%v pos=%d permute=%v", dup, viaMsg, pos, permute))
				}
			}
		}
	}
	for i := 0; i < *n; i++ {
		cfg := rng.Intn(len(cfgs))
		nops := *maxOps/2 + rng.Intn(*maxOps/2+1)
		randomHistory(cfg, nops, rng.Chance(22))
	}

	// ---------------------------------------------------------------- output
	var pre strings.Builder
	pre.WriteString("(* written by /verif/harness/cmd/c16 -- observations of the real code *)\n")
	pre.WriteString("From Sekai Require Import Base.Prelude Model.NetPropsLib Model.Identity Model.C16Check.\n")
	pre.WriteString("Definition cfgs : list cfg := [\n")
	for i, c := range cfgs {
		sep := ";"
		if i == len(cfgs)-1 {
			sep = ""
		}
		pre.WriteString(fmt.Sprintf("  mkCfg %s %s %s %s %s %s %s %s %s %s %s%s\n", hx.ZU(c.minTip), zlist(c.pc), zlist(c.pv), zlist(c.pn), zlist([]int{0, 1, 2, 3}), zlist(c.se), hx.B(delFix), hx.B(msgGuard), zlist(c.rr), hx.B(rotCheck), hx.B(actorCheck), sep))
	}
	pre.WriteString("].\n")
	out.WriteFile("pre.v", pre.String())
	out.WriteFile("cases.txt", coqCases.String())
	out.WriteJSON("meta.json", map[string]string{"case_type": "c16_case", "mismatch_fn": "c16_mismatches cfgs", "violation_fn": "c16_violations"})
	out.WriteJSON("cases.json", js)
	nops := 0
	for _, c := range js {
		nops += len(c.Ops)
	}
	out.WriteJSON("dist.json", map[string]interface{}{"seed": seed, "histories": len(js), "operations": nops, "by_kind_and_result": dist, "history_sizes": sizes, "delete_by_id_removes_index_entry": delFix, "whole_record_write_guards_unique_keys": msgGuard, "rotation_refuses_target_with_records": rotCheck, "rotation_refuses_network_actor_target": actorCheck})
	fmt.Fprintf(os.Stderr, "c16: %d histories, %d operations\n", len(js), nops)
}
