package main

// populate.go: drives a chain through real transactions, msg servers and proposal handlers so that
// every module holds state in several lifecycle phases before the export.

import (
	"crypto/sha256"
	"encoding/hex"
	"encoding/json"
	"fmt"
	"time"

	"verif/harness/abci"
	"verif/harness/hx"

	simapp "github.com/KiraCore/sekai/app"

	baskettypes "github.com/KiraCore/sekai/x/basket/types"
	collectiveskeeper "github.com/KiraCore/sekai/x/collectives/keeper"
	collectivestypes "github.com/KiraCore/sekai/x/collectives/types"
	custodykeeper "github.com/KiraCore/sekai/x/custody/keeper"
	custodytypes "github.com/KiraCore/sekai/x/custody/types"
	govkeeper "github.com/KiraCore/sekai/x/gov/keeper"
	govtypes "github.com/KiraCore/sekai/x/gov/types"
	l2keeper "github.com/KiraCore/sekai/x/layer2/keeper"
	l2types "github.com/KiraCore/sekai/x/layer2/types"
	mstypes "github.com/KiraCore/sekai/x/multistaking/types"
	recoverykeeper "github.com/KiraCore/sekai/x/recovery/keeper"
	recoverytypes "github.com/KiraCore/sekai/x/recovery/types"
	slashingtypes "github.com/KiraCore/sekai/x/slashing/types"
	spendingkeeper "github.com/KiraCore/sekai/x/spending/keeper"
	spendingtypes "github.com/KiraCore/sekai/x/spending/types"
	stakingtypes "github.com/KiraCore/sekai/x/staking/types"
	tokenskeeper "github.com/KiraCore/sekai/x/tokens/keeper"
	tokenstypes "github.com/KiraCore/sekai/x/tokens/types"
	ubitypes "github.com/KiraCore/sekai/x/ubi/types"
	upgradetypes "github.com/KiraCore/sekai/x/upgrade/types"
	"github.com/cosmos/cosmos-sdk/crypto/keys/ed25519"
	sdk "github.com/cosmos/cosmos-sdk/types"
	banktypes "github.com/cosmos/cosmos-sdk/x/bank/types"
)

// Features of one history (what gets populated before the export).
type Features struct {
	RoleBlacklist   bool `json:"role_blacklist"`
	ActorPerms      bool `json:"actor_perms"`
	ProposalVoting  bool `json:"proposal_voting"`
	ProposalEnact   bool `json:"proposal_enactment"`
	ProposalDone    bool `json:"proposal_done"`
	DataRegistry    bool `json:"data_registry"`
	Poll            bool `json:"poll"`
	Councilor       bool `json:"councilor"`
	Identity        bool `json:"identity"`
	UniqueKeyClash  bool `json:"unique_key_clash"`
	ExecFee         bool `json:"exec_fee"`
	ValPaused       bool `json:"val_paused"`
	ValInactive     bool `json:"val_inactive"`
	ValJailed       bool `json:"val_jailed"`
	ValJoin         bool `json:"val_join"`
	Absent          bool `json:"absent"`
	Multistaking    bool `json:"multistaking"`
	Undelegation    bool `json:"undelegation"`
	Compound        bool `json:"compound"`
	Basket          bool `json:"basket"`
	Tokens          bool `json:"tokens"`
	Spending        bool `json:"spending"`
	Ubi             bool `json:"ubi"`
	Collective      bool `json:"collective"`
	Custody         bool `json:"custody"`
	Layer2          bool `json:"layer2"`
	Recovery        bool `json:"recovery"`
	Upgrade         bool `json:"upgrade"`
	UpgradeExecuted bool `json:"upgrade_executed"` // the plan's time passes before the export: current plan set
	Rotation        bool `json:"rotation"`         // MsgRotateRecoveryAddress of a5 in the last block before the export
	ExtraBlocks     int  `json:"extra_blocks"`
	NUndelegations  int  `json:"n_undelegations"`
	NRoles          int  `json:"n_roles"`
	Validators      int  `json:"validators"`
	ExportMidVoting bool `json:"-"`
	W               Windows `json:"windows"`
}

// Windows: the parameters that govern how long something is kept in state.  Small values make the
// window FULL (steady state: entries are being pruned) within the few blocks of a history.
type Windows struct {
	SnapPeriod      int64  `json:"distributor_snap_period"`   // blocks of validator votes kept (default 1000)
	PollSeconds     int    `json:"poll_duration_s"`           // default 86400: the poll is still active at export
	BasketLimits    uint64 `json:"basket_limits_period_s"`    // historical mint/burn/swap amounts kept
	Autocompound    uint64 `json:"autocompound_interval_blocks"`
	MaxMischance    uint64 `json:"max_mischance"`             // missed blocks before a validator is inactivated
	ProposalEndTime uint64 `json:"minimum_proposal_end_time_s"`
	EnactmentTime   uint64 `json:"proposal_enactment_time_s"`
	LongHistory     bool   `json:"long_history"`              // one long block: the unstaking period (>= 604800 s) elapses before the export
	LongGap         int64  `json:"long_gap_s"`                // length of that block: 700000 s; 2700000 s (31 days: past a short inflation period only); 31190400 s (361 days: past the 360-day year-start threshold, not past the default 365.25-day inflation period)
	InflationPeriod uint64 `json:"inflation_period_s"`        // default 31557600; 2629800 = the minimum
}

func DefaultWindows() Windows { return Windows{1000, 86400, 86400, 17280, 110, 300, 300, false, 700000, 31557600} }

func AllFeatures() Features {
	return Features{true, true, true, true, true, true, true, true, true, false, true, true, true, true, true, true, true, true, true, true, true, true, true, true, true, true, true, true, false, true,
		2, 2, 2, 4, false, Windows{3, 86400, 86400, 2, 110, 300, 300, false, 700000, 31557600}}
}

func RandomFeatures(r *hx.Rng) Features {
	p := func() bool { return r.Chance(55) }
	f := Features{RoleBlacklist: p(), ActorPerms: p(), ProposalVoting: p(), ProposalEnact: p(), ProposalDone: p(), DataRegistry: r.Chance(50), Poll: p(), Councilor: p(), Identity: p(), UniqueKeyClash: r.Chance(12), ExecFee: p(),
		ValPaused: p(), ValInactive: p(), ValJailed: p(), ValJoin: p(), Absent: p(), Multistaking: p(), Undelegation: p(), Compound: p(), Basket: p(), Tokens: p(), Spending: p(),
		Ubi: p(), Collective: p(), Custody: p(), Layer2: p(), Recovery: p(), Upgrade: r.Chance(25), UpgradeExecuted: r.Chance(10), Rotation: r.Chance(40),
		ExtraBlocks: r.Intn(4), NUndelegations: 1 + r.Intn(3), NRoles: 1 + r.Intn(3), Validators: 4 + r.Intn(2)}
	f.W = DefaultWindows()
	if r.Chance(60) {
		f.W.SnapPeriod = int64(1 + r.Intn(5))
	}
	if r.Chance(40) {
		f.W.PollSeconds = 10
	}
	if r.Chance(40) {
		f.W.BasketLimits = 8
	}
	if r.Chance(50) {
		f.W.Autocompound = uint64(1 + r.Intn(3))
	}
	if r.Chance(30) {
		f.W.MaxMischance = uint64(2 + r.Intn(3))
	}
	if r.Chance(30) {
		f.W.ProposalEndTime, f.W.EnactmentTime = 120, 60
	}
	f.W.LongHistory = r.Chance(30)
	switch r.Intn(3) {
	case 1: // the periodic snapshot rolls over alone
		f.W.LongGap, f.W.InflationPeriod = 2700000, 2629800
	case 2: // the year-start snapshot rolls over alone
		f.W.LongGap = 31190400
	}
	return f
}

type StepLog struct {
	Name string `json:"name"`
	OK   bool   `json:"ok"`
	Err  string `json:"err,omitempty"`
}

type World struct {
	C     *abci.Chain
	Log   []StepLog
	F     Features
	block int
}

func (w *World) step(name string, f func() error) bool {
	var err error
	p := hx.Try(func() { err = f() })
	if p != "" {
		err = fmt.Errorf("panic: %s", p)
	}
	l := StepLog{Name: name, OK: err == nil}
	if err != nil {
		l.Err = err.Error()
		if len(l.Err) > 200 {
			l.Err = l.Err[:200]
		}
	}
	w.Log = append(w.Log, l)
	return err == nil
}

// tx delivers real signed messages; a non-zero code is an error.
func (w *World) tx(name string, signer int, msgs ...sdk.Msg) bool {
	return w.step("tx:"+name, func() error {
		r := w.C.Deliver(msgs, []int{signer}, abci.DefaultFee())
		if r.Panic != "" {
			return fmt.Errorf("panic: %s", r.Panic)
		}
		if r.Code != 0 {
			return fmt.Errorf("code %d: %s", r.Code, r.Log)
		}
		return nil
	})
}

func (w *World) begin(dt int64, absent map[int]bool, evidence []int) {
	w.block++
	w.C.BeginBlock(abci.BlockReq{Dt: dt, Proposer: w.block % len(w.C.Validators), Absent: absent, Evidence: evidence})
}
func (w *World) end() abci.EndResult { return w.C.EndBlock() }
func (w *World) emptyBlock(dt int64) {
	w.begin(dt, nil, nil)
	w.end()
}

// applyContent runs a proposal content through the real proposal router (the handler that a passed
// proposal would run) on the block in progress.
func (w *World) applyContent(name string, content govtypes.Content) bool {
	return w.step("handler:"+name, func() error {
		ctx := w.C.Ctx()
		return w.C.App.CustomGovKeeper.GetProposalRouter().ApplyProposal(ctx, 0, content, sdk.ZeroDec())
	})
}

func coin(d string, a int64) sdk.Coin { return sdk.NewInt64Coin(d, a) }

func Populate(c *abci.Chain, f Features, r *hx.Rng) *World {
	w := &World{C: c, F: f}
	app := c.App
	A := func(i int) sdk.AccAddress { return c.Accounts[i].Addr }
	govMS := govkeeper.NewMsgServerImpl(app.CustomGovKeeper)
	_ = govMS

	// ---- block 1: nothing (the distributor needs a previous proposer before it can export)
	w.emptyBlock(5)

	// ---- block 2: roles, permissions, identity, fees, tokens, pools ...
	w.begin(5, nil, nil)
	w.tx("bank send", 1, banktypes.NewMsgSend(A(1), A(2), sdk.NewCoins(coin("ukex", 7+int64(r.Intn(1000))))))
	for i := 0; i < f.NRoles; i++ {
		sid := fmt.Sprintf("role%d", i)
		w.tx("create role "+sid, 0, govtypes.NewMsgCreateRole(A(0), sid, "test role "+sid))
		w.tx("whitelist role perm", 0, govtypes.NewMsgWhitelistRolePermission(A(0), sid, uint32(govtypes.PermCreateUpsertDataRegistryProposal)+uint32(i)))
		if f.RoleBlacklist {
			w.tx("blacklist role perm", 0, govtypes.NewMsgBlacklistRolePermission(A(0), sid, uint32(govtypes.PermVoteUpsertDataRegistryProposal)+uint32(2*i)))
		}
		w.tx("assign role", 0, govtypes.NewMsgAssignRole(A(0), A(1+i%3), uint32(3+i)))
	}
	if f.NRoles >= 2 && f.RoleBlacklist {
		// the witness of C12_roles_roundtrip_refuted on the real chain: a1 holds role0 (blacklists 11) and
		// role1 (whitelists 11): denied before the export, allowed after the re-import
		w.tx("assign second role to a1", 0, govtypes.NewMsgAssignRole(A(0), A(1), 4))
	}
	if f.ActorPerms {
		w.tx("whitelist perm", 0, govtypes.NewMsgWhitelistPermissions(A(0), A(2), uint32(govtypes.PermClaimCouncilor)))
		w.tx("blacklist perm", 0, govtypes.NewMsgBlacklistPermissions(A(0), A(2), uint32(govtypes.PermClaimValidator)))
		w.tx("whitelist perm a4 claim validator", 0, govtypes.NewMsgWhitelistPermissions(A(0), A(4), uint32(govtypes.PermClaimValidator)))
	}
	if f.ExecFee {
		w.tx("set execution fee", 0, govtypes.NewMsgSetExecutionFee("B", 10, 1, 5, 5, A(0))) // hypothetical tx type
		w.applyContent("execution fees", govtypes.NewSetExecutionFeesProposal(A(0), "fees", []govtypes.ExecutionFee{{TransactionType: "upsert-token-alias", ExecutionFee: 100, FailureFee: 10, Timeout: 5, DefaultParameters: 0}}))
	}
	if f.Identity {
		w.tx("register identity a1", 1, govtypes.NewMsgRegisterIdentityRecords(A(1), []govtypes.IdentityInfoEntry{{Key: "moniker", Info: "alice"}, {Key: "twitter", Info: "@a"}}))
		w.tx("register identity a2", 2, govtypes.NewMsgRegisterIdentityRecords(A(2), []govtypes.IdentityInfoEntry{{Key: "moniker", Info: "bob"}}))
		w.tx("request verify (pending)", 1, govtypes.NewMsgRequestIdentityRecordsVerify(A(1), A(2), []uint64{1}, coin("ukex", 300)))
		w.tx("request verify (pending, a2 -> a1)", 2, govtypes.NewMsgRequestIdentityRecordsVerify(A(2), A(1), []uint64{3}, coin("ukex", 300)))
		w.tx("request verify (approved)", 1, govtypes.NewMsgRequestIdentityRecordsVerify(A(1), A(3), []uint64{2}, coin("ukex", 300)))
		w.tx("approve verify", 3, govtypes.NewMsgHandleIdentityRecordsVerifyRequest(A(3), 3, true))
	}
	if f.Identity && f.UniqueKeyClash {
		// two accounts hold the same value under a key that is THEN declared unique by a whole-record
		// network-properties write (no uniqueness check on that path): InitGenesis refuses the export
		w.tx("register twitter a4", 4, govtypes.NewMsgRegisterIdentityRecords(A(4), []govtypes.IdentityInfoEntry{{Key: "twitter", Info: "@a"}}))
		w.step("tx:set network properties (unique keys += twitter)", func() error {
			props := app.CustomGovKeeper.GetNetworkProperties(c.Ctx())
			props.UniqueIdentityKeys = "moniker,username,twitter"
			res := c.Deliver([]sdk.Msg{govtypes.NewMsgSetNetworkProperties(A(0), props)}, []int{0}, abci.DefaultFee())
			if res.Code != 0 {
				return fmt.Errorf("code %d: %s", res.Code, res.Log)
			}
			return nil
		})
	}
	if f.Councilor {
		w.tx("claim councilor", 0, govtypes.NewMsgClaimCouncilor(A(0), "council0", "user0", "desc", "soc", "contact", "avatar"))
	}
	if f.Poll {
		w.tx("create poll", 0, govtypes.NewMsgPollCreate(A(0), "title", "description", "ref", "checksum", []string{"aaa", "bbb"}, []string{"sudo"}, 3, "string", 1, fmt.Sprintf("%ds", f.W.PollSeconds)))
		w.tx("vote poll", 0, govtypes.NewMsgVotePoll(1, A(0), govtypes.PollOptionCustom, "aaa"))
	}
	if f.Tokens {
		tms := tokenskeeper.NewMsgServerImpl(app.TokensKeeper, app.CustomGovKeeper)
		w.step("upsert token info utest", func() error {
			_, err := tms.UpsertTokenInfo(sdk.WrapSDKContext(c.Ctx()), &tokenstypes.MsgUpsertTokenInfo{Proposer: A(0), Denom: "utest", TokenType: "adr20", FeeRate: sdk.NewDec(10), FeeEnabled: true,
				Supply: sdk.ZeroInt(), SupplyCap: sdk.ZeroInt(), StakeCap: sdk.NewDecWithPrec(1, 1), StakeMin: sdk.NewInt(1), StakeEnabled: true, Symbol: "TST", Name: "Test", Decimals: 8,
				MintingFee: sdk.ZeroInt(), Owner: A(0).String()})
			return err
		})
		w.applyContent("token black/white", tokenstypes.NewTokensWhiteBlackChangeProposal(true, true, []string{"frozen"}))
	}
	if f.Spending {
		sms := spendingkeeper.NewMsgServerImpl(app.SpendingKeeper, app.CustomGovKeeper, app.BankKeeper)
		w.step("create spending pool", func() error {
			_, err := sms.CreateSpendingPool(sdk.WrapSDKContext(c.Ctx()), &spendingtypes.MsgCreateSpendingPool{Name: "pool1", ClaimStart: 0, ClaimEnd: 0, ClaimExpiry: 43200,
				Rates: sdk.NewDecCoins(sdk.NewDecCoin("ukex", sdk.NewInt(1))), VoteQuorum: sdk.NewDecWithPrec(33, 2), VotePeriod: 300, VoteEnactment: 300,
				Owners:        spendingtypes.PermInfo{OwnerAccounts: []string{A(0).String()}},
				Beneficiaries: spendingtypes.WeightedPermInfo{Accounts: []spendingtypes.WeightedAccount{{Account: A(1).String(), Weight: sdk.NewDec(1)}, {Account: A(2).String(), Weight: sdk.NewDec(2)}}},
				Sender:        A(0).String(), DynamicRate: false, DynamicRatePeriod: 0})
			return err
		})
		w.step("deposit spending pool", func() error {
			_, err := sms.DepositSpendingPool(sdk.WrapSDKContext(c.Ctx()), &spendingtypes.MsgDepositSpendingPool{Sender: A(0).String(), PoolName: "pool1", Amount: sdk.NewCoins(coin("ukex", 1000000))})
			return err
		})
		w.step("register beneficiary a2", func() error {
			_, err := sms.RegisterSpendingPoolBeneficiary(sdk.WrapSDKContext(c.Ctx()), &spendingtypes.MsgRegisterSpendingPoolBeneficiary{Sender: A(2).String(), PoolName: "pool1"})
			return err
		})
		w.step("register beneficiary", func() error {
			_, err := sms.RegisterSpendingPoolBeneficiary(sdk.WrapSDKContext(c.Ctx()), &spendingtypes.MsgRegisterSpendingPoolBeneficiary{Sender: A(1).String(), PoolName: "pool1"})
			return err
		})
	}
	if f.Ubi {
		w.applyContent("raise ubi hardcap", govtypes.NewSetNetworkPropertyProposal(govtypes.UbiHardcap, govtypes.NetworkPropertyValue{Value: 10000000}))
		w.applyContent("upsert ubi", ubitypes.NewUpsertUBIProposal("ubi1", uint64(c.Time.Unix()), uint64(c.Time.Unix())+1000000, 1000, 86400*30, "ValidatorBasicRewardsPool"))
	}
	if f.UpgradeExecuted {
		// submitted as a real proposal in block 3 (below)
	} else if f.Upgrade {
		w.applyContent("software upgrade plan", upgradetypes.NewSoftwareUpgradeProposal("upgrade1", []upgradetypes.Resource{{Id: "id", Url: "url", Version: "v2", Checksum: "cs"}},
			c.Time.Unix()+100000000, "oldchain", "newchain", "rollback", 1000, "memo", false, false, false))
	}
	if f.Custody {
		cms := custodykeeper.NewMsgServerImpl(app.CustodyKeeper, app.CustomGovKeeper, app.BankKeeper)
		key := func(s string) string { h := sha256.Sum256([]byte(s)); return hex.EncodeToString(h[:]) }
		w.step("create custody", func() error {
			_, err := cms.CreateCustody(sdk.WrapSDKContext(c.Ctx()), custodytypes.NewMsgCreateCustody(A(3), custodytypes.CustodySettings{CustodyEnabled: true, CustodyMode: 100, UseWhiteList: true, UseLimits: true}, "", key("k1"), "", ""))
			return err
		})
		w.step("add custodians", func() error {
			_, err := cms.AddToCustodians(sdk.WrapSDKContext(c.Ctx()), custodytypes.NewMsgAddToCustodyCustodians(A(3), []sdk.AccAddress{A(4), A(5)}, "k1", key("k2"), "", ""))
			return err
		})
		w.step("add whitelist", func() error {
			_, err := cms.AddToWhiteList(sdk.WrapSDKContext(c.Ctx()), custodytypes.NewMsgAddToCustodyWhiteList(A(3), []sdk.AccAddress{A(1)}, "k2", key("k3"), "", ""))
			return err
		})
		w.step("custody send (pooled)", func() error {
			_, err := cms.Send(sdk.WrapSDKContext(c.Ctx()), custodytypes.NewMsgSend(A(3), A(1), sdk.NewCoins(coin("ukex", 500)), "", sdk.NewCoins(coin("ukex", 10))))
			return err
		})
		w.step("custody approve (1 of 2)", func() error {
			h := sha256.Sum256(nil)
			_, err := cms.ApproveTransaction(sdk.WrapSDKContext(c.Ctx()), custodytypes.NewMsgApproveCustodyTransaction(A(4), A(3), hex.EncodeToString(h[:])))
			return err
		})
		w.step("add limits", func() error {
			_, err := cms.AddToLimits(sdk.WrapSDKContext(c.Ctx()), custodytypes.NewMsgAddToCustodyLimits(A(3), "ukex", 1000, "1h", "k3", key("k4"), "", ""))
			return err
		})
	}
	if f.Recovery {
		h4 := sha256.Sum256([]byte("secret4"))
		w.step("register recovery secret a4", func() error {
			_, err := recoverykeeper.NewMsgServerImpl(app.RecoveryKeeper).RegisterRecoverySecret(sdk.WrapSDKContext(c.Ctx()), &recoverytypes.MsgRegisterRecoverySecret{Address: A(4).String(), Challenge: hex.EncodeToString(h4[:]), Nonce: "00", Proof: ""})
			return err
		})
	}
	if f.Recovery {
		rms := recoverykeeper.NewMsgServerImpl(app.RecoveryKeeper)
		h := sha256.Sum256([]byte("secret"))
		w.step("register recovery secret", func() error {
			_, err := rms.RegisterRecoverySecret(sdk.WrapSDKContext(c.Ctx()), &recoverytypes.MsgRegisterRecoverySecret{Address: A(5).String(), Challenge: hex.EncodeToString(h[:]), Nonce: "00", Proof: ""})
			return err
		})
	}
	w.end()

	// ---- block 3: validators' statuses, staking pool, delegations, proposals
	absent := map[int]bool{}
	if f.Absent && len(c.Validators) > 1 {
		absent[1] = true
	}
	w.begin(5, absent, nil)
	if f.ValPaused && len(c.Validators) > 1 {
		w.tx("pause validator 1", 1, slashingtypes.NewMsgPause(c.Validators[1].ValAddr))
	}
	if f.ValInactive && len(c.Validators) > 2 {
		w.step("inactivate validator 2", func() error { return app.CustomStakingKeeper.Inactivate(c.Ctx(), c.Validators[2].ValAddr) })
	}
	if f.ValJoin && f.ActorPerms {
		pk := ed25519.GenPrivKeyFromSecret([]byte(fmt.Sprintf("newval%d", r.Intn(1000)))).PubKey()
		w.step("claim validator a4", func() error {
			m, err := stakingtypes.NewMsgClaimValidator("newval", sdk.ValAddress(A(4)), pk)
			if err != nil {
				return err
			}
			res := c.Deliver([]sdk.Msg{m}, []int{4}, abci.DefaultFee())
			if res.Code != 0 {
				return fmt.Errorf("code %d: %s", res.Code, res.Log)
			}
			return nil
		})
	}
	if f.Multistaking {
		w.tx("upsert staking pool", 0, &mstypes.MsgUpsertStakingPool{Sender: A(0).String(), Validator: c.Validators[0].ValAddr.String(), Enabled: true, Commission: sdk.NewDecWithPrec(5, 2)})
		w.tx("delegate a1", 1, &mstypes.MsgDelegate{DelegatorAddress: A(1).String(), ValidatorAddress: c.Validators[0].ValAddr.String(), Amounts: sdk.NewCoins(coin("ukex", 30000000000+int64(r.Intn(1000))))})
		w.tx("delegate a2", 2, &mstypes.MsgDelegate{DelegatorAddress: A(2).String(), ValidatorAddress: c.Validators[0].ValAddr.String(), Amounts: sdk.NewCoins(coin("ukex", 3000000))})
		if len(c.Validators) > 3 {
			w.tx("upsert staking pool v3", 3, &mstypes.MsgUpsertStakingPool{Sender: A(3).String(), Validator: c.Validators[3].ValAddr.String(), Enabled: true, Commission: sdk.NewDecWithPrec(10, 2)})
			w.tx("delegate a2 -> v3", 2, &mstypes.MsgDelegate{DelegatorAddress: A(2).String(), ValidatorAddress: c.Validators[3].ValAddr.String(), Amounts: sdk.NewCoins(coin("ukex", 2000000))})
		}
		if f.Compound {
			w.tx("register delegator", 1, &mstypes.MsgRegisterDelegator{Delegator: A(1).String()})
			w.tx("set compound info", 1, &mstypes.MsgSetCompoundInfo{Sender: A(1).String(), AllDenom: true})
		}
	}
	gtx := func(name string, content govtypes.Content, signer int) uint64 {
		var id uint64
		w.step("tx:submit proposal "+name, func() error {
			m, err := govtypes.NewMsgSubmitProposal(A(signer), name, "desc "+name, content)
			if err != nil {
				return err
			}
			res := c.Deliver([]sdk.Msg{m}, []int{signer}, abci.DefaultFee())
			if res.Code != 0 {
				return fmt.Errorf("code %d: %s", res.Code, res.Log)
			}
			id = app.CustomGovKeeper.GetNextProposalID(c.Ctx()) - 1
			return nil
		})
		return id
	}
	vote := func(id uint64, signer int, opt govtypes.VoteOption) {
		w.tx(fmt.Sprintf("vote proposal %d", id), signer, govtypes.NewMsgVoteProposal(id, A(signer), opt, sdk.ZeroDec()))
	}
	var pDone, pEnact uint64
	if f.ProposalDone {
		if f.DataRegistry {
			pDone = gtx("data registry", govtypes.NewUpsertDataRegistryProposal("key1", "hash", "ref", "enc", 10), 0)
		} else {
			pDone = gtx("proposal duration", govtypes.NewSetProposalDurationsProposal([]string{"UpsertDataRegistry"}, []uint64{900}), 0)
		}
		vote(pDone, 0, govtypes.OptionYes)
		pRej := gtx("poor msgs (no votes)", govtypes.NewSetPoorNetworkMessagesProposal([]string{"submit-proposal", "vote-proposal"}), 0)
		_ = pRej
	}
	if f.UpgradeExecuted {
		// an in-state software upgrade, passed by a real vote, whose time arrives shortly before the export:
		// first the validators whose owners did not vote are paused, one block later the plan becomes the
		// CURRENT plan; with few extra blocks the export lands in the middle of that
		pUp := gtx("software upgrade", upgradetypes.NewSoftwareUpgradeProposal("upgrade0", []upgradetypes.Resource{{Id: "id", Url: "url", Version: "v2", Checksum: "cs"}},
			c.Time.Unix()+1425+int64(r.Intn(12)), "oldchain", "newchain", "rollback", 1000, "memo", true, false, true), 0)
		vote(pUp, 0, govtypes.OptionYes)
	}
	w.end()

	if f.W.LongHistory {
		// the unstaking period elapses: an early undelegation is matured (claimable) at export time
		if f.Multistaking && f.Undelegation {
			w.begin(5, absent, nil)
			w.tx("undelegate a2 (early)", 2, &mstypes.MsgUndelegate{DelegatorAddress: A(2).String(), ValidatorAddress: c.Validators[0].ValAddr.String(), Amounts: sdk.NewCoins(coin("ukex", 700))})
			w.end()
		}
		w.emptyBlock(f.W.LongGap)
	}
	// voting period (default 10 min) passes, enactment follows
	if f.ProposalDone || f.UpgradeExecuted {
		w.emptyBlock(700)
		w.emptyBlock(5)
		w.emptyBlock(700)
		w.emptyBlock(5)
		w.emptyBlock(5)
	}

	// ---- next: things that need earlier blocks
	evid := []int(nil)
	if f.ValJailed && len(c.Validators) > 3 {
		evid = []int{len(c.Validators) - 1}
		if len(c.Validators) > 4 {
			evid = append(evid, len(c.Validators)-2)
		}
		if len(c.Validators) == 4 && f.Multistaking {
			evid = nil // keep validator 3's pool intact in the 4-validator layout; jail by keeper below
		}
	}
	w.begin(5, absent, evid)
	if f.ValJailed && evid == nil && len(c.Validators) > 3 {
		w.step("jail validator 3", func() error { return app.CustomStakingKeeper.Jail(c.Ctx(), c.Validators[3].ValAddr) })
	}
	if f.ProposalEnact {
		pEnact = gtx("set network property", govtypes.NewSetNetworkPropertyProposal(govtypes.MaxTxFee, govtypes.NetworkPropertyValue{Value: 2000000}), 0)
		vote(pEnact, 0, govtypes.OptionYes)
	}
	if f.Multistaking && f.Undelegation {
		for i := 0; i < f.NUndelegations; i++ {
			w.tx("undelegate a1", 1, &mstypes.MsgUndelegate{DelegatorAddress: A(1).String(), ValidatorAddress: c.Validators[0].ValAddr.String(), Amounts: sdk.NewCoins(coin("ukex", 1000+int64(i)))})
		}
		w.tx("undelegate a2", 2, &mstypes.MsgUndelegate{DelegatorAddress: A(2).String(), ValidatorAddress: c.Validators[0].ValAddr.String(), Amounts: sdk.NewCoins(coin("ukex", 500))})
	}
	if f.Basket {
		w.applyContent("create basket", &baskettypes.ProposalCreateBasket{Basket: baskettypes.Basket{Suffix: "b1", Description: "basket", SwapFee: sdk.NewDecWithPrec(1, 2), SlipppageFeeMin: sdk.NewDecWithPrec(1, 2),
			TokensCap: sdk.NewDecWithPrec(9, 1), LimitsPeriod: f.W.BasketLimits, MintsMin: sdk.NewInt(1), MintsMax: sdk.NewInt(1000000000), BurnsMin: sdk.NewInt(1), BurnsMax: sdk.NewInt(1000000000),
			SwapsMin: sdk.NewInt(1), SwapsMax: sdk.NewInt(1000000000), Amount: sdk.ZeroInt(),
			Tokens: []baskettypes.BasketToken{{Denom: "ubtc", Weight: sdk.NewDec(1), Amount: sdk.ZeroInt(), Deposits: true, Withdraws: true, Swaps: true},
				{Denom: "xeth", Weight: sdk.NewDec(2), Amount: sdk.ZeroInt(), Deposits: true, Withdraws: true, Swaps: true}}}})
		w.applyContent("create basket 2", &baskettypes.ProposalCreateBasket{Basket: baskettypes.Basket{Suffix: "b2", Description: "basket 2", SwapFee: sdk.NewDecWithPrec(1, 2), SlipppageFeeMin: sdk.NewDecWithPrec(1, 2),
			TokensCap: sdk.NewDecWithPrec(9, 1), LimitsPeriod: f.W.BasketLimits, MintsMin: sdk.NewInt(1), MintsMax: sdk.NewInt(1000000000), BurnsMin: sdk.NewInt(1), BurnsMax: sdk.NewInt(1000000000),
			SwapsMin: sdk.NewInt(1), SwapsMax: sdk.NewInt(1000000000), Amount: sdk.ZeroInt(),
			Tokens: []baskettypes.BasketToken{{Denom: "ubtc", Weight: sdk.NewDec(1), Amount: sdk.ZeroInt(), Deposits: true, Withdraws: true, Swaps: true},
				{Denom: "frozen", Weight: sdk.NewDec(3), Amount: sdk.ZeroInt(), Deposits: true, Withdraws: true, Swaps: true}}}})
		w.tx("basket 2 mint", 1, &baskettypes.MsgBasketTokenMint{Sender: A(1).String(), BasketId: 2, Deposit: sdk.NewCoins(coin("ubtc", 3000), coin("frozen", 3000))})
		w.tx("basket mint", 1, &baskettypes.MsgBasketTokenMint{Sender: A(1).String(), BasketId: 1, Deposit: sdk.NewCoins(coin("ubtc", 100000), coin("xeth", 100000))})
		w.tx("basket mint 2", 2, &baskettypes.MsgBasketTokenMint{Sender: A(2).String(), BasketId: 1, Deposit: sdk.NewCoins(coin("ubtc", 50000), coin("xeth", 70000))})
		w.tx("basket burn", 1, &baskettypes.MsgBasketTokenBurn{Sender: A(1).String(), BasketId: 1, BurnAmount: coin("b1/b1", 1000)})
		w.tx("basket swap", 2, &baskettypes.MsgBasketTokenSwap{Sender: A(2).String(), BasketId: 1, Pairs: []baskettypes.SwapPair{{InAmount: coin("ubtc", 1200), OutToken: "xeth"}}})
	}
	if f.Spending {
		sms := spendingkeeper.NewMsgServerImpl(app.SpendingKeeper, app.CustomGovKeeper, app.BankKeeper)
		w.step("claim spending pool a2", func() error {
			_, err := sms.ClaimSpendingPool(sdk.WrapSDKContext(c.Ctx()), &spendingtypes.MsgClaimSpendingPool{Sender: A(2).String(), PoolName: "pool1"})
			return err
		})
		w.step("claim spending pool", func() error {
			_, err := sms.ClaimSpendingPool(sdk.WrapSDKContext(c.Ctx()), &spendingtypes.MsgClaimSpendingPool{Sender: A(1).String(), PoolName: "pool1"})
			return err
		})
	}
	if f.Collective && f.Multistaking {
		cms := collectiveskeeper.NewMsgServerImpl(app.CollectivesKeeper)
		w.step("create collective", func() error {
			_, err := cms.CreateCollective(sdk.WrapSDKContext(c.Ctx()), &collectivestypes.MsgCreateCollective{Sender: A(1).String(), Name: "coll1", Description: "collective",
				Bonds: sdk.NewCoins(coin("v1/ukex", 20000000000)), DepositWhitelist: collectivestypes.DepositWhitelist{Any: true}, OwnersWhitelist: collectivestypes.OwnersWhitelist{Accounts: []string{A(1).String()}},
				SpendingPools: []collectivestypes.WeightedSpendingPool{{Name: "pool1", Weight: sdk.NewDec(1)}}, ClaimStart: 0, ClaimPeriod: 86400 * 30, ClaimEnd: 0,
				VoteQuorum: sdk.NewDecWithPrec(33, 2), VotePeriod: 300, VoteEnactment: 300})
			return err
		})
		w.step("contribute collective", func() error {
			_, err := cms.ContributeCollective(sdk.WrapSDKContext(c.Ctx()), &collectivestypes.MsgBondCollective{Sender: A(2).String(), Name: "coll1", Bonds: sdk.NewCoins(coin("v1/ukex", 10000))})
			return err
		})
	}
	if f.Layer2 {
		lms := l2keeper.NewMsgServerImpl(app.Layer2Keeper)
		w.step("create dapp proposal", func() error {
			_, err := lms.CreateDappProposal(sdk.WrapSDKContext(c.Ctx()), &l2types.MsgCreateDappProposal{Sender: A(4).String(), Bond: coin("ukex", 10000000000),
				Dapp: l2types.Dapp{Name: "dapp1", Denom: "dp1", Description: "d", Pool: l2types.LpPoolConfig{Ratio: sdk.NewDec(1), Drip: 100},
					Issuance:   l2types.IssuanceConfig{Premint: sdk.NewInt(10), Postmint: sdk.NewInt(10)},
					VoteQuorum: sdk.NewDecWithPrec(3, 1), PoolFee: sdk.NewDecWithPrec(1, 2), TeamReserve: A(4).String(), TotalBond: coin("ukex", 0),
					Controllers: l2types.Controllers{Whitelist: l2types.AccountRange{Addresses: []string{A(4).String()}}}}})
			return err
		})
		w.step("bond dapp proposal", func() error {
			_, err := lms.BondDappProposal(sdk.WrapSDKContext(c.Ctx()), &l2types.MsgBondDappProposal{Sender: A(5).String(), DappName: "dapp1", Bond: coin("ukex", 20000)})
			return err
		})
	}
	if f.Recovery && len(c.Validators) > 0 {
		rms := recoverykeeper.NewMsgServerImpl(app.RecoveryKeeper)
		h := sha256.Sum256([]byte("secret0"))
		w.step("register recovery secret validator", func() error {
			_, err := rms.RegisterRecoverySecret(sdk.WrapSDKContext(c.Ctx()), &recoverytypes.MsgRegisterRecoverySecret{Address: A(0).String(), Challenge: hex.EncodeToString(h[:]), Nonce: "00", Proof: ""})
			return err
		})
		// recovery tokens are named after the validator's moniker (unique on a real chain, where validators
		// are claimed with one): give the genesis validators theirs
		for _, vi := range []int{0, 3} {
			if vi < len(c.Validators) && app.CustomStakingKeeper.GetMonikerByAddress(c.Ctx(), A(vi)) == "" {
				w.tx(fmt.Sprintf("register moniker a%d", vi), vi, govtypes.NewMsgRegisterIdentityRecords(A(vi), []govtypes.IdentityInfoEntry{{Key: "moniker", Info: fmt.Sprintf("val%d", vi)}}))
			}
		}
		w.step("issue recovery tokens", func() error {
			_, err := rms.IssueRecoveryTokens(sdk.WrapSDKContext(c.Ctx()), &recoverytypes.MsgIssueRecoveryTokens{Address: A(0).String()})
			return err
		})
		w.step("register rr token holder", func() error {
			_, err := rms.RegisterRRTokenHolder(sdk.WrapSDKContext(c.Ctx()), &recoverytypes.MsgRegisterRRTokenHolder{Holder: A(0).String()})
			return err
		})
		if len(c.Validators) > 3 {
			h3 := sha256.Sum256([]byte("secret3"))
			w.step("register recovery secret validator a3", func() error {
				_, err := rms.RegisterRecoverySecret(sdk.WrapSDKContext(c.Ctx()), &recoverytypes.MsgRegisterRecoverySecret{Address: A(3).String(), Challenge: hex.EncodeToString(h3[:]), Nonce: "00", Proof: ""})
				return err
			})
			w.step("issue recovery tokens a3", func() error {
				_, err := rms.IssueRecoveryTokens(sdk.WrapSDKContext(c.Ctx()), &recoverytypes.MsgIssueRecoveryTokens{Address: A(3).String()})
				return err
			})
			w.step("register rr token holder a3", func() error {
				_, err := rms.RegisterRRTokenHolder(sdk.WrapSDKContext(c.Ctx()), &recoverytypes.MsgRegisterRRTokenHolder{Holder: A(3).String()})
				return err
			})
		}
	}
	w.end()
	// voting of the enactment-phase proposal ends during the next block; the proposal that is to be
	// exported while in voting is submitted in that block
	dt := int64(5)
	if f.ProposalEnact {
		if p, ok := app.CustomGovKeeper.GetProposal(c.QueryCtx(), pEnact); ok {
			dt = int64(p.VotingEndTime.Sub(c.Time)/time.Second) + 1
		}
	}
	w.begin(dt, absent, nil)
	if f.Basket {
		w.tx("basket mint (later block)", 2, &baskettypes.MsgBasketTokenMint{Sender: A(2).String(), BasketId: 1, Deposit: sdk.NewCoins(coin("ubtc", 700), coin("xeth", 900))})
		w.tx("basket burn (later block)", 1, &baskettypes.MsgBasketTokenBurn{Sender: A(1).String(), BasketId: 1, BurnAmount: coin("b1/b1", 500)})
		w.tx("basket swap (later block)", 2, &baskettypes.MsgBasketTokenSwap{Sender: A(2).String(), BasketId: 1, Pairs: []baskettypes.SwapPair{{InAmount: coin("ubtc", 600), OutToken: "xeth"}}})
	}
	if f.ProposalVoting {
		pv := gtx("token black/white (in voting)", tokenstypes.NewTokensWhiteBlackChangeProposal(true, true, []string{"xeth"}), 0)
		vote(pv, 0, govtypes.OptionYes)
	}
	w.end()
	w.emptyBlock(5) // MinProposalEndBlocks passed: the finished vote moves to the enactment queue here
	for i := 0; i < f.ExtraBlocks; i++ {
		w.emptyBlock(5 + int64(i))
	}
	if f.Rotation && f.Recovery {
		// address rotation just before the export: x/recovery rewrites the state other modules hold for a5
		w.begin(5, absent, nil)
		rms := recoverykeeper.NewMsgServerImpl(app.RecoveryKeeper)
		w.step("rotate recovery address a4", func() error {
			_, err := rms.RotateRecoveryAddress(sdk.WrapSDKContext(c.Ctx()), &recoverytypes.MsgRotateRecoveryAddress{FeePayer: A(4).String(), Address: A(4).String(),
				Recovery: sdk.AccAddress([]byte("rotated_a4__________")).String(), Proof: hex.EncodeToString([]byte("secret4"))})
			return err
		})
		w.step("rotate recovery address a5", func() error {
			_, err := rms.RotateRecoveryAddress(sdk.WrapSDKContext(c.Ctx()), &recoverytypes.MsgRotateRecoveryAddress{FeePayer: A(5).String(), Address: A(5).String(),
				Recovery: sdk.AccAddress([]byte("rotated_a5__________")).String(), Proof: hex.EncodeToString([]byte("secret"))})
			return err
		})
		w.end()
	}
	_ = time.Second
	return w
}

// NewOriginal creates the original chain of a history: the window parameters go into its genesis.
func NewOriginal(seed uint64, f Features) *abci.Chain {
	return abci.NewChain(abci.Config{Accounts: 6, Validators: f.Validators, Seed: seed,
		Gov: func(g *govtypes.GenesisState) {
			g.NetworkProperties.AutocompoundIntervalNumBlocks = f.W.Autocompound
			g.NetworkProperties.MaxMischance = f.W.MaxMischance
			if f.W.MaxMischance < 10 {
				g.NetworkProperties.MischanceConfidence = 1
			}
			g.NetworkProperties.InflationPeriod = f.W.InflationPeriod
			g.NetworkProperties.MinimumProposalEndTime = f.W.ProposalEndTime
			g.NetworkProperties.ProposalEnactmentTime = f.W.EnactmentTime
		},
		Genesis: func(gs simapp.GenesisState, _ func(interface{}) []byte) {
			var d map[string]interface{}
			if json.Unmarshal(gs["distributor"], &d) == nil {
				d["snap_period"] = fmt.Sprint(f.W.SnapPeriod)
				if bz, err := json.Marshal(d); err == nil {
					gs["distributor"] = bz
				}
			}
		}})
}
