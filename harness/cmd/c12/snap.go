package main

// snap.go: abstract snapshots (what the Coq models of export/import talk about), probes run on
// both chains after the re-import, and the Coq / JSON emission.

import (
	"crypto/sha256"
	"encoding/hex"
	"fmt"
	"os"
	"sort"
	"strings"

	"verif/harness/abci"
	"verif/harness/hx"

	baskettypes "github.com/KiraCore/sekai/x/basket/types"
	collectivestypes "github.com/KiraCore/sekai/x/collectives/types"
	custodytypes "github.com/KiraCore/sekai/x/custody/types"
	govkeeper "github.com/KiraCore/sekai/x/gov/keeper"
	l2types "github.com/KiraCore/sekai/x/layer2/types"
	upgradetypes "github.com/KiraCore/sekai/x/upgrade/types"
	govtypes "github.com/KiraCore/sekai/x/gov/types"
	mstypes "github.com/KiraCore/sekai/x/multistaking/types"
	spendingtypes "github.com/KiraCore/sekai/x/spending/types"
	stakingtypes "github.com/KiraCore/sekai/x/staking/types"
	sdk "github.com/cosmos/cosmos-sdk/types"
	banktypes "github.com/cosmos/cosmos-sdk/x/bank/types"
)

type RoleSnap struct {
	Id    uint64   `json:"id"`
	White []uint32 `json:"whitelist"`
	Black []uint32 `json:"blacklist"`
}
type PropSnap struct {
	Id     uint64 `json:"id"`
	Result int32  `json:"result"`
}
type Snap struct {
	Roles       []RoleSnap `json:"roles"`
	RoleInfos   []uint64   `json:"role_infos"`
	RoleIndex   [][2]uint64 `json:"whitelist_role_index"` // (perm, role)
	NextRole    uint64     `json:"next_role"`
	Proposals   []PropSnap `json:"proposals"`
	ActiveQ     []uint64   `json:"active_queue"`
	EnactQ      []uint64   `json:"enactment_queue"`
	NextProp    uint64     `json:"next_proposal"`
	LastPool    uint64     `json:"last_pool_id"`
	LastUndel   uint64     `json:"last_undelegation_id"`
	Pools       []uint64   `json:"pool_ids"`
	Undels      []uint64   `json:"undelegation_ids"`
	Delegators  int        `json:"pool_delegators"`
	Compound    int        `json:"compound_infos"`
	Rewards     int        `json:"rewards"`
	IdRecords   [][2]uint64 `json:"identity_records"` // (id, owner*1000+key code)
	IdIndex     [][2]uint64 `json:"identity_index"`   // (owner*1000+key code, id)
	IdLast      uint64      `json:"identity_last_id"`
	DTreasury   int64       `json:"distributor_treasury_ukex"`
	DSnap       int64       `json:"distributor_snap_period"`
	DVotes      [][2]int64  `json:"distributor_votes"` // (validator index, height)
	DProposer   int64       `json:"distributor_proposer"`
	NextPlanDue bool        `json:"upgrade_next_plan_due"` // a next plan exists and its upgrade time is not after the block time
}

func keyCode(k string) uint64 {
	var h uint64
	for i := 0; i < len(k); i++ {
		h = (h*131 + uint64(k[i])) % 1000003
	}
	return h
}

// uncommitted marks chains that were initialised (InitChain) but have not run a block yet: their
// state lives in the deliver state only.
var uncommitted = map[*abci.Chain]bool{}

func ctxOf(c *abci.Chain) sdk.Context {
	if c.InBlock || uncommitted[c] {
		return c.Ctx()
	}
	return c.QueryCtx()
}

func TakeSnap(c *abci.Chain) Snap {
	ctx := ctxOf(c)
	k := c.App.CustomGovKeeper
	var s Snap
	it := k.IterateRoles(ctx)
	for ; it.Valid(); it.Next() {
		id := sdk.BigEndianToUint64(it.Key()[len(govkeeper.RolePermissionRegistry):])
		p := k.GetPermissionsFromIterator(it)
		s.Roles = append(s.Roles, RoleSnap{Id: id, White: p.Whitelist, Black: p.Blacklist})
	}
	it.Close()
	for _, r := range k.GetAllRoles(ctx) {
		s.RoleInfos = append(s.RoleInfos, uint64(r.Id))
	}
	sort.Slice(s.RoleInfos, func(i, j int) bool { return s.RoleInfos[i] < s.RoleInfos[j] })
	store := ctx.KVStore(c.App.GetKey("customgov"))
	wi := sdk.KVStorePrefixIterator(store, govkeeper.WhitelistRolePrefix)
	for ; wi.Valid(); wi.Next() {
		key := wi.Key()[len(govkeeper.WhitelistRolePrefix):]
		// key = perm (4 bytes? or 8) + role (8 bytes); value = role bytes
		role := sdk.BigEndianToUint64(wi.Value())
		var perm uint64
		pb := key[:len(key)-8]
		for _, b := range pb {
			perm = perm<<8 | uint64(b)
		}
		s.RoleIndex = append(s.RoleIndex, [2]uint64{perm, role})
	}
	wi.Close()
	s.NextRole = k.GetNextRoleId(ctx)
	props, _ := k.GetProposals(ctx)
	for _, p := range props {
		s.Proposals = append(s.Proposals, PropSnap{Id: p.ProposalId, Result: int32(p.Result)})
	}
	for _, q := range []struct {
		pre []byte
		dst *[]uint64
	}{{govkeeper.ActiveProposalsPrefix, &s.ActiveQ}, {govkeeper.EnactmentProposalsPrefix, &s.EnactQ}} {
		qi := sdk.KVStorePrefixIterator(store, q.pre)
		for ; qi.Valid(); qi.Next() {
			*q.dst = append(*q.dst, govkeeper.BytesToProposalID(qi.Value()))
		}
		qi.Close()
		sort.Slice(*q.dst, func(i, j int) bool { return (*q.dst)[i] < (*q.dst)[j] })
	}
	s.NextProp = k.GetNextProposalID(ctx)
	mk := c.App.MultiStakingKeeper
	s.LastPool, s.LastUndel = mk.GetLastPoolId(ctx), mk.GetLastUndelegationId(ctx)
	for _, p := range mk.GetAllStakingPools(ctx) {
		s.Pools = append(s.Pools, p.Id)
		s.Delegators += len(mk.GetPoolDelegators(ctx, p.Id))
	}
	sort.Slice(s.Pools, func(i, j int) bool { return s.Pools[i] < s.Pools[j] })
	for _, u := range mk.GetAllUndelegations(ctx) {
		s.Undels = append(s.Undels, u.Id)
	}
	sort.Slice(s.Undels, func(i, j int) bool { return s.Undels[i] < s.Undels[j] })
	// identity registrar
	// owners: the test accounts, then any other address that owns a record (e.g. the target of a rotation)
	var owners []string
	for _, a := range c.Accounts {
		owners = append(owners, a.Addr.String())
	}
	recs := k.GetAllIdentityRecords(ctx)
	var extra []string
	for _, r := range recs {
		known := false
		for _, o := range append(owners, extra...) {
			known = known || o == r.Address
		}
		if !known {
			extra = append(extra, r.Address)
		}
	}
	sort.Strings(extra)
	owners = append(owners, extra...)
	ownerIdx := func(addr string) uint64 {
		for i, a := range owners {
			if a == addr {
				return uint64(i + 1)
			}
		}
		return 0
	}
	for _, r := range recs {
		s.IdRecords = append(s.IdRecords, [2]uint64{r.Id, ownerIdx(r.Address)*10000000 + keyCode(r.Key)})
	}
	ii := sdk.KVStorePrefixIterator(store, govtypes.KeyPrefixIdentityRecordByAddress)
	for ; ii.Valid(); ii.Next() {
		rest := string(ii.Key()[len(govtypes.KeyPrefixIdentityRecordByAddress):])
		owner, key := uint64(0), rest
		for i, a := range owners {
			if strings.HasPrefix(rest, a) {
				owner, key = uint64(i+1), rest[len(a):]
			}
		}
		s.IdIndex = append(s.IdIndex, [2]uint64{owner*10000000 + keyCode(key), sdk.BigEndianToUint64(ii.Value())})
	}
	ii.Close()
	s.IdLast = k.GetLastIdentityRecordId(ctx)
	// distributor
	dk := c.App.DistrKeeper
	s.DTreasury = dk.GetFeesTreasury(ctx).AmountOf("ukex").Int64()
	s.DSnap = dk.GetSnapPeriod(ctx)
	valIdx := func(cons string) int64 {
		for i, v := range c.Validators {
			if v.ConsAddr.String() == cons {
				return int64(i)
			}
		}
		return 99
	}
	for _, v := range dk.GetAllValidatorVotes(ctx) {
		s.DVotes = append(s.DVotes, [2]int64{valIdx(v.ConsAddr), v.Height})
	}
	s.DProposer = -1
	hx.Try(func() { s.DProposer = valIdx(dk.GetPreviousProposerConsAddr(ctx).String()) })
	if np, err := c.App.UpgradeKeeper.GetNextPlan(ctx); err == nil && np != nil {
		s.NextPlanDue = np.UpgradeTime <= c.Time.Unix()
	}
	s.Compound = len(mk.GetAllCompoundInfo(ctx))
	s.Rewards = len(mk.GetAllDelegatorRewards(ctx))
	return s
}

// RunProbes runs the same further blocks and transactions on the original chain (a) and the
// re-imported chain (b) and reports what each of them answered.
func RunProbes(a, b *abci.Chain, f Features, heightShifted bool) []Probe {
	var out []Probe
	both := func(name string, g func(c *abci.Chain) string) {
		var ra, rb string
		if p := hx.Try(func() { ra = g(a) }); p != "" {
			ra = "panic:" + p
		}
		if p := hx.Try(func() { rb = g(b) }); p != "" {
			rb = "panic:" + p
		}
		out = append(out, Probe{name, short(ra), short(rb)})
	}
	A := func(c *abci.Chain, i int) sdk.AccAddress { return c.Accounts[i].Addr }
	txr := func(c *abci.Chain, signer int, msgs ...sdk.Msg) string {
		r := c.Deliver(msgs, []int{signer}, abci.DefaultFee())
		if r.Panic != "" {
			return "panic"
		}
		if r.Code != 0 {
			return fmt.Sprintf("rejected(%d)", r.Code)
		}
		return "ok"
	}
	// queries on the state as re-imported
	both("query:perm-check", func(c *abci.Chain) string {
		var xs []string
		for i := 1; i <= 3; i++ {
			for _, p := range []govtypes.PermValue{govtypes.PermVoteUpsertDataRegistryProposal, govtypes.PermVoteUpsertDataRegistryProposal + 2, govtypes.PermCreateUpsertDataRegistryProposal, govtypes.PermClaimValidator} {
				xs = append(xs, hx.B(c.App.CustomGovKeeper.CheckIfAllowedPermission(ctxOf(c), A(c, i), p)))
			}
		}
		return strings.Join(xs, "")
	})
	both("query:councilors", func(c *abci.Chain) string { return fmt.Sprint(len(c.App.CustomGovKeeper.GetAllCouncilors(ctxOf(c)))) })
	both("query:supply", func(c *abci.Chain) string { return c.Supply(ctxOf(c)).String() })
	both("query:validator-statuses", func(c *abci.Chain) string {
		var xs []string
		for _, v := range c.App.CustomStakingKeeper.GetValidatorSet(ctxOf(c)) {
			xs = append(xs, fmt.Sprintf("%d/%d", v.Status, v.Rank))
		}
		return strings.Join(xs, ",")
	})
	both("query:jail-infos", func(c *abci.Chain) string {
		n := 0
		for _, v := range c.App.CustomStakingKeeper.GetValidatorSet(ctxOf(c)) {
			if _, ok := c.App.CustomStakingKeeper.GetValidatorJailInfo(ctxOf(c), v.ValKey); ok {
				n++
			}
		}
		return fmt.Sprint(n)
	})
	// the unjail proposal handler for every jailed validator (state is not kept: cache context)
	both("handler:unjail-jailed-validators", func(c *abci.Chain) string {
		var xs []string
		for _, v := range c.App.CustomStakingKeeper.GetValidatorSet(ctxOf(c)) {
			if !v.IsJailed() {
				continue
			}
			cc, _ := ctxOf(c).CacheContext()
			err := c.App.CustomGovKeeper.GetProposalRouter().ApplyProposal(cc, 0, stakingtypes.NewUnjailValidatorProposal(A(c, 0), v.ValKey, "ref"), sdk.ZeroDec())
			if err != nil {
				xs = append(xs, "rejected")
			} else {
				xs = append(xs, "ok")
			}
		}
		return strings.Join(xs, ",")
	})
	// block 1 after the export: ordinary traffic
	both("block+1:begin", func(c *abci.Chain) string {
		r := c.BeginBlock(abci.BlockReq{Dt: 5, Proposer: 0})
		delete(uncommitted, c)
		return r
	})
	both("tx:bank-send", func(c *abci.Chain) string {
		return txr(c, 1, banktypes.NewMsgSend(A(c, 1), A(c, 2), sdk.NewCoins(coin("ukex", 11))))
	})
	both("tx:create-role", func(c *abci.Chain) string {
		r := txr(c, 0, govtypes.NewMsgCreateRole(A(c, 0), "after", "created after the restart"))
		return r + fmt.Sprintf(" next=%d", c.App.CustomGovKeeper.GetNextRoleId(ctxOf(c)))
	})
	if f.Multistaking {
		both("tx:undelegate-new-id", func(c *abci.Chain) string {
			before := len(c.App.MultiStakingKeeper.GetAllUndelegations(ctxOf(c)))
			r := txr(c, 2, &mstypes.MsgUndelegate{DelegatorAddress: A(c, 2).String(), ValidatorAddress: c.Validators[0].ValAddr.String(), Amounts: sdk.NewCoins(coin("ukex", 77))})
			after := len(c.App.MultiStakingKeeper.GetAllUndelegations(ctxOf(c)))
			return fmt.Sprintf("%s id=%d records+%d", r, c.App.MultiStakingKeeper.GetLastUndelegationId(ctxOf(c)), after-before)
		})
		if len(c0(a).Validators) > 1 {
			both("tx:new-staking-pool-id", func(c *abci.Chain) string {
				r := txr(c, 1, &mstypes.MsgUpsertStakingPool{Sender: A(c, 1).String(), Validator: c.Validators[1].ValAddr.String(), Enabled: true, Commission: sdk.NewDecWithPrec(7, 2)})
				ids := []string{}
				for _, p := range c.App.MultiStakingKeeper.GetAllStakingPools(ctxOf(c)) {
					ids = append(ids, fmt.Sprint(p.Id))
				}
				sort.Strings(ids)
				return r + " pools=" + strings.Join(ids, ",")
			})
		}
		both("tx:claim-rewards", func(c *abci.Chain) string {
			dbg := ""
			if os.Getenv("C12_DEBUG") != "" {
				dbg = " rewards=" + c.App.MultiStakingKeeper.GetDelegatorRewards(ctxOf(c), A(c, 1)).String() + fmt.Sprintf(" delegators=%d time=%d", len(c.App.MultiStakingKeeper.GetPoolDelegators(ctxOf(c), 1)), c.Time.Unix())
			}
			return txr(c, 1, &mstypes.MsgClaimRewards{Sender: A(c, 1).String()}) + dbg
		})
	}
	if f.Spending {
		both("tx:claim-spending-pool", func(c *abci.Chain) string {
			return txr(c, 1, &spendingtypes.MsgClaimSpendingPool{Sender: A(c, 1).String(), PoolName: "pool1"})
		})
	}
	// continuation operations of the other modules (same signed transactions on both chains)
	both("tx:register-identity-record", func(c *abci.Chain) string {
		r := txr(c, 3, govtypes.NewMsgRegisterIdentityRecords(A(c, 3), []govtypes.IdentityInfoEntry{{Key: "website", Info: "after.example"}}))
		return fmt.Sprintf("%s last-id=%d", r, c.App.CustomGovKeeper.GetLastIdentityRecordId(ctxOf(c)))
	})
	if f.Basket {
		both("tx:basket-mint", func(c *abci.Chain) string {
			return txr(c, 2, &baskettypes.MsgBasketTokenMint{Sender: A(c, 2).String(), BasketId: 1, Deposit: sdk.NewCoins(coin("ubtc", 1000), coin("xeth", 1000))})
		})
	}
	if f.Custody {
		both("tx:custody-approve-second-custodian", func(c *abci.Chain) string {
			h := sha256.Sum256(nil)
			return txr(c, 5, custodytypes.NewMsgApproveCustodyTransaction(A(c, 5), A(c, 3), hex.EncodeToString(h[:])))
		})
	}
	if f.Collective && f.Multistaking {
		both("tx:collective-contribute", func(c *abci.Chain) string {
			return txr(c, 2, &collectivestypes.MsgBondCollective{Sender: A(c, 2).String(), Name: "coll1", Bonds: sdk.NewCoins(coin("v1/ukex", 100))})
		})
	}
	if f.Layer2 {
		both("tx:dapp-bond", func(c *abci.Chain) string {
			return txr(c, 5, &l2types.MsgBondDappProposal{Sender: A(c, 5).String(), DappName: "dapp1", Bond: coin("ukex", 100)})
		})
	}
	if f.Councilor {
		both("tx:create-poll", func(c *abci.Chain) string {
			r := txr(c, 0, govtypes.NewMsgPollCreate(A(c, 0), "after", "created after the restart", "ref", "checksum", []string{"x", "y"}, []string{"sudo"}, 3, "string", 1, "600s"))
			n := 0
			if ps, err := c.App.CustomGovKeeper.GetPollsByAddress(ctxOf(c), A(c, 0)); err == nil {
				n = len(ps)
			}
			return fmt.Sprintf("%s polls-of-a0=%d", r, n)
		})
	}
	both("block+1:end", func(c *abci.Chain) string {
		e := c.EndBlock()
		return fmt.Sprintf("panic=%q updates=%d", e.Panic, len(e.Updates))
	})
	// the first block after the restart: what the allocation read and left behind
	both("query:validator-votes-after-first-block", func(c *abci.Chain) string {
		if heightShifted {
			return "n/a" // the signing window is counted in heights
		}
		var perf []string
		for _, v := range c.Validators {
			perf = append(perf, fmt.Sprint(len(c.App.DistrKeeper.GetValidatorVotes(ctxOf(c), v.ConsAddr))))
		}
		return strings.Join(perf, ",")
	})
	both("query:fees-treasury-after-first-block", func(c *abci.Chain) string {
		if heightShifted {
			return "n/a" // the reward cut depends on the number of votes inside the height window
		}
		return c.App.DistrKeeper.GetFeesTreasury(ctxOf(c)).String()
	})
	// voting and enactment periods pass
	for i, dt := range []int64{700, 5, 700, 5} {
		both(fmt.Sprintf("block+%d:dt=%d", i+2, dt), func(c *abci.Chain) string {
			p := c.BeginBlock(abci.BlockReq{Dt: dt, Proposer: i})
			e := c.EndBlock()
			return fmt.Sprintf("begin=%q end=%q updates=%d", p, e.Panic, len(e.Updates))
		})
	}
	both("query:proposal-results-after-voting-and-enactment-time", func(c *abci.Chain) string {
		props, _ := c.App.CustomGovKeeper.GetProposals(ctxOf(c))
		var xs []string
		for _, p := range props {
			xs = append(xs, fmt.Sprintf("%d:%s", p.ProposalId, p.Result.String()))
		}
		return strings.Join(xs, ",")
	})
	if f.Multistaking {
		both("block:claim-matured-undelegations", func(c *abci.Chain) string {
			c.BeginBlock(abci.BlockReq{Dt: 5, Proposer: 0})
			r1 := txr(c, 1, &mstypes.MsgClaimMaturedUndelegations{Sender: A(c, 1).String()})
			r2 := txr(c, 2, &mstypes.MsgClaimMaturedUndelegations{Sender: A(c, 2).String()})
			e := c.EndBlock()
			return fmt.Sprintf("%s %s end=%q pending=%d", r1, r2, e.Panic, len(c.App.MultiStakingKeeper.GetAllUndelegations(ctxOf(c))))
		})
	}
	for i := range a.Accounts {
		i := i
		both(fmt.Sprintf("query:balance:a%d", i), func(c *abci.Chain) string {
			if heightShifted {
				// block rewards depend on the height through the validator-performance window (votes older
				// than SnapPeriod blocks expire): not comparable between chains at different heights
				return "n/a"
			}
			return c.App.BankKeeper.GetAllBalances(ctxOf(c), A(c, i)).String()
		})
	}
	both("query:upgrade-plans-and-validator-statuses", func(c *abci.Chain) string {
		cur, _ := c.App.UpgradeKeeper.GetCurrentPlan(ctxOf(c))
		nxt, _ := c.App.UpgradeKeeper.GetNextPlan(ctxOf(c))
		name := func(p *upgradetypes.Plan) string {
			if p == nil {
				return "-"
			}
			return p.Name
		}
		var xs []string
		for _, v := range c.App.CustomStakingKeeper.GetValidatorSet(ctxOf(c)) {
			xs = append(xs, fmt.Sprint(int(v.Status)))
		}
		return fmt.Sprintf("current=%s next=%s statuses=%s", name(cur), name(nxt), strings.Join(xs, ""))
	})
	both("query:data-registry-keys", func(c *abci.Chain) string {
		return fmt.Sprint(len(c.App.CustomGovKeeper.AllDataRegistry(ctxOf(c))))
	})
	both("query:max-tx-fee", func(c *abci.Chain) string {
		return fmt.Sprint(c.App.CustomGovKeeper.GetNetworkProperties(ctxOf(c)).MaxTxFee)
	})
	return out
}

func c0(c *abci.Chain) *abci.Chain { return c }

func short(s string) string {
	if len(s) > 160 && os.Getenv("C12_DEBUG") == "" {
		return s[:160]
	}
	return s
}

// ---------------------------------------------------------------- emission

func zlist32(xs []uint32) string {
	var q []string
	for _, x := range xs {
		q = append(q, fmt.Sprint(x))
	}
	return hx.List(q)
}
func zlist(xs []uint64) string {
	var q []string
	for _, x := range xs {
		q = append(q, hx.ZU(x))
	}
	return hx.List(q)
}

func snapCoq(s Snap) string {
	var roles, props, idx []string
	for _, r := range s.Roles {
		roles = append(roles, hx.Tuple(hx.ZU(r.Id), zlist32(r.White), zlist32(r.Black)))
	}
	for _, p := range s.Proposals {
		props = append(props, hx.Pair(hx.ZU(p.Id), hx.Z(int64(p.Result))))
	}
	for _, e := range s.RoleIndex {
		idx = append(idx, hx.Pair(hx.ZU(e[0]), hx.ZU(e[1])))
	}
	var idr, idi, dv []string
	for _, e := range s.IdRecords {
		idr = append(idr, hx.Pair(hx.ZU(e[0]), hx.ZU(e[1])))
	}
	for _, e := range s.IdIndex {
		idi = append(idi, hx.Pair(hx.ZU(e[0]), hx.ZU(e[1])))
	}
	for _, e := range s.DVotes {
		dv = append(dv, hx.Pair(hx.Z(e[0]), hx.Z(e[1])))
	}
	return fmt.Sprintf("(mkSnap %s %s %s %s %s %s %s %s (mkMs %s %s %s %s %d %d) %s %s %s %s %s %s %s %s)", hx.List(roles), zlist(s.RoleInfos), hx.List(idx), hx.ZU(s.NextRole),
		hx.List(props), zlist(s.ActiveQ), zlist(s.EnactQ), hx.ZU(s.NextProp),
		hx.ZU(s.LastPool), hx.ZU(s.LastUndel), zlist(s.Pools), zlist(s.Undels), s.Delegators, s.Compound,
		hx.List(idr), hx.List(idi), hx.ZU(s.IdLast), hx.Z(s.DTreasury), hx.Z(s.DSnap), hx.List(dv), hx.Z(s.DProposer), hx.B(s.NextPlanDue))
}

func Emit(out hx.Out, cases []Case, dist hx.Counter) {
	var lines []string
	for _, c := range cases {
		status := "RImported"
		switch {
		case c.ExportPanic != "":
			status = "(RExportPanic " + hx.Str(c.ExportPanicModule) + ")"
		case c.ImportPanic2 != "":
			status = "(RImportPanic " + hx.Str(c.ImportPanicClass) + ")"
		}
		var pop, diffs, probes, e2 []string
		for _, p := range c.Populated {
			pop = append(pop, hx.Pair(hx.Str(p[0]), hx.Str(p[1])))
		}
		for _, d := range c.Diffs {
			diffs = append(diffs, hx.Tuple(hx.Str(d.Kind), hx.Str(d.Store), hx.Str(d.Class)))
		}
		for _, p := range c.Probes {
			if p.A != p.B {
				probes = append(probes, hx.Str(p.Name))
			}
		}
		for _, m := range c.Export2 {
			e2 = append(e2, hx.Str(m))
		}
		// divergences that appear only under another restart schedule (a probe that already diverges at
		// the same-time restart keeps its plain signature)
		base := map[string]bool{}
		for _, p := range c.Probes {
			if p.A != p.B {
				base[p.Name] = true
			}
		}
		var sched []string
		for _, sr := range c.Scheduled {
			if sr.ImportPanic != "" {
				sched = append(sched, hx.Pair(hx.Str(sr.Schedule.Name), hx.Str("import-panic")))
			}
			if !sr.ReplayOK {
				sched = append(sched, hx.Pair(hx.Str(sr.Schedule.Name), hx.Str("history-replay-not-deterministic")))
			}
			for _, p := range sr.Probes {
				if p.A != p.B && !base[p.Name] {
					sched = append(sched, hx.Pair(hx.Str(sr.Schedule.Name), hx.Str(p.Name)))
				}
			}
		}
		// order dependence of the import: (variant, store | "probe" | "import", what)
		var order []string
		for _, or := range c.Orders {
			if or.ImportPanic != "" {
				order = append(order, hx.Tuple(hx.Str(or.Variant), hx.Str("import"), hx.Str("panic")))
			}
			for _, d := range or.Diffs {
				order = append(order, hx.Tuple(hx.Str(or.Variant), hx.Str(d.Store), hx.Str(d.Kind+":"+d.Store+"/"+d.Class)))
			}
			for _, p := range or.Probes {
				if p.A != p.B {
					order = append(order, hx.Tuple(hx.Str(or.Variant), hx.Str("probe"), hx.Str(p.Name)))
				}
			}
		}
		lines = append(lines, fmt.Sprintf("mkCase %s %s %s %s %s %s %s %s %s %s", status, hx.B(c.ImportPanic != ""), hx.List(pop), hx.List(diffs), hx.List(e2), hx.List(probes), hx.List(sched), hx.List(order), snapCoq(c.Snap[0]), snapCoq(c.Snap[1])))
	}
	out.WriteFile("cases.txt", strings.Join(lines, "\n")+"\n")
	out.WriteFile("pre.v", "From Coq Require Import ZArith String List.\nImport ListNotations.\nOpen Scope Z_scope.\nFrom Sekai Require Import Base.Prelude Gen.GenesisCoverage Model.Genesis Model.C12Check.\nClose Scope string_scope.\n")
	out.WriteJSON("meta.json", map[string]string{"case_type": "c12_case", "mismatch_fn": "c12_mismatches", "violation_fn": "c12_violations"})
	out.WriteJSON("cases.json", cases)
	d := map[string]int{}
	for k, v := range dist {
		d[k] = v
	}
	out.WriteJSON("dist.json", d)
}
