// c12: genesis export / re-import round trip at ABCI level on the REAL application.
// For every generated history: populate all modules (real signed transactions, msg servers, proposal
// handlers; items in several lifecycle phases), ExportAppStateAndValidators, start a fresh
// application from the export (InitChain), then observe
//   (i)   the raw key/value difference of every store, classified by store and key prefix,
//   (ii)  whether a second export (from the re-imported chain) equals the first, per module,
//   (iii) the same further blocks / transactions on both chains (probe results),
// plus abstract snapshots (roles, proposals + queues, multistaking counters) before and after, which
// the Coq models of export/import must reproduce.
package main

import (
	"bytes"
	"encoding/json"
	"flag"
	"fmt"
	"os"
	"sort"
	"reflect"
	"strings"
	"time"
	"unsafe"

	"verif/harness/abci"
	"verif/harness/cmd/gen_genesis/cov"
	"verif/harness/hx"

	sekaitypes "github.com/KiraCore/sekai/types"
	abcitypes "github.com/cometbft/cometbft/abci/types"
	simtestutil "github.com/cosmos/cosmos-sdk/testutil/sims"
	sdk "github.com/cosmos/cosmos-sdk/types"
	"github.com/cosmos/cosmos-sdk/types/module"
)

// newChainFromExport: like abci.NewChainFromExport but the new chain continues at the exported
// height (InitialHeight = last height + 1), as a network restart from an exported genesis does.
func newChainFromExport(src *abci.Chain, state []byte) (*abci.Chain, string) {
	return newChainFromExportAt(src, state, Schedule{Name: "same-time"})
}

// Schedule: how the restart is carried out relative to the export (block time T, height h): the new
// chain's genesis time is T + Later seconds, its InitialHeight h + 1 + Higher.
type Schedule struct {
	Name    string `json:"name"`
	Later   int64  `json:"later_s"`
	Higher  int64  `json:"higher_blocks"`
	LaterNs int64  `json:"later_ns,omitempty"` // instead of Later: nanoseconds (deadline boundaries)
}

func (sc Schedule) shift() time.Duration {
	if sc.LaterNs != 0 {
		return time.Duration(sc.LaterNs)
	}
	return time.Duration(sc.Later) * time.Second
}

// nextDeadlineNanos: distance from t to the earliest later deadline (0: none within a day)
func nextDeadlineNanos(t time.Time, deadlines []time.Time) int64 {
	best := int64(0)
	for _, d := range deadlines {
		if d.After(t) && d.Sub(t) < 24*time.Hour && (best == 0 || int64(d.Sub(t)) < best) {
			best = int64(d.Sub(t))
		}
	}
	return best
}

// every pending deadline of the populated states (voting / enactment ends: minutes; unjail window, claim
// expiry, unstaking period: days; UBI period: 30 days) lies before T + 35 days
var Schedules = []Schedule{
	{"same-time", 0, 0, 0},
	{"later-7s", 7, 0, 0},
	{"later-35d", 3000000, 0, 0},
	{"higher-1000", 0, 1000, 0},
	{"later-35d-higher-1000", 3000000, 1000, 0},
}

func newChainFromExportAt(src *abci.Chain, state []byte, sc Schedule) (*abci.Chain, string) {
	app, enc := abci.NewApp()
	c := &abci.Chain{App: app, Enc: enc, Accounts: src.Accounts, Validators: src.Validators, Time: src.Time.Add(sc.shift())}
	p := hx.Try(func() {
		c.App.InitChain(abcitypes.RequestInitChain{ChainId: abci.ChainID, Time: c.Time, Validators: []abcitypes.ValidatorUpdate{},
			ConsensusParams: simtestutil.DefaultConsensusParams, AppStateBytes: state, InitialHeight: src.Height + 1 + sc.Higher})
	})
	c.Height = src.Height + sc.Higher
	return c, p
}

// moduleManager reaches the application's private module manager (read-only use).
func moduleManager(app interface{}) *module.Manager {
	f := reflect.ValueOf(app).Elem().FieldByName("mm")
	return *(**module.Manager)(unsafe.Pointer(f.UnsafeAddr()))
}

func preflightExport(c *abci.Chain) (string, string) {
	mm := moduleManager(c.App)
	ctx := c.QueryCtx()
	names := make([]string, 0, len(mm.Modules))
	for n := range mm.Modules {
		names = append(names, n)
	}
	sort.Strings(names)
	for _, n := range names {
		g, ok := mm.Modules[n].(module.HasGenesis)
		if !ok {
			continue
		}
		if p := hx.Try(func() { g.ExportGenesis(ctx, c.App.AppCodec()) }); p != "" {
			return n, p
		}
	}
	return "", ""
}

type Diff struct {
	Kind  string `json:"kind"` // lost | added | changed
	Store string `json:"store"`
	Class string `json:"class"`
	N     int    `json:"n"`
	Ex    string `json:"example_key"`
}

type Probe struct {
	Name string `json:"name"`
	A    string `json:"original"`
	B    string `json:"reimported"`
}

// SchedRun: the same export re-imported under another restart schedule; both chains then get the same
// further blocks at the same (later) times and must answer alike.
type SchedRun struct {
	Schedule    Schedule `json:"schedule"`
	ReplayOK    bool     `json:"history_replay_reproduced_state"`
	ImportPanic string   `json:"import_panic,omitempty"`
	Probes      []Probe  `json:"probes"`
}

// OrderRun: the same exported genesis with the entries of every top-level record list of every module
// reversed / shuffled, imported into a fresh application: the state built and the behaviour afterwards
// must not depend on the order.
type OrderRun struct {
	Variant     string   `json:"variant"`
	Permuted    []string `json:"permuted_lists"`
	ImportPanic string   `json:"import_panic,omitempty"`
	Diffs       []Diff   `json:"store_diffs_vs_unpermuted_import"`
	Probes      []Probe  `json:"probes_unpermuted_vs_permuted"`
}

// lists whose order is kept, and why
var keepOrder = map[string]string{
	"customstaking.validators": "the validator set: its order is the order of the validator updates handed to the consensus engine",
	"bank.supply":              "sdk.Coins: must be sorted by denom to be valid",
	"genutil.gen_txs":          "transactions are applied in list order by definition",
}

// genesisListSizes: number of entries of every top-level array of objects (and of every top-level JSON map
// with object values) of every module's genesis state
func genesisListSizes(state []byte) map[string]int {
	out := map[string]int{}
	var m map[string]json.RawMessage
	if json.Unmarshal(state, &m) != nil {
		return out
	}
	for mod, raw := range m {
		var g map[string]json.RawMessage
		if json.Unmarshal(raw, &g) != nil {
			continue
		}
		for fld, v := range g {
			var arr []json.RawMessage
			if json.Unmarshal(v, &arr) == nil {
				if len(arr) > 0 {
					var probe map[string]json.RawMessage
					if json.Unmarshal(arr[0], &probe) != nil {
						continue
					}
				}
				out[mod+"."+fld] = len(arr)
			}
		}
	}
	return out
}

var genesisPairs []cov.Pair

// pairsDiffer: for every pair of same-typed GenesisState fields, whether the exported values differ
func pairsDiffer(state []byte) map[string]bool {
	out := map[string]bool{}
	var m map[string]json.RawMessage
	if json.Unmarshal(state, &m) != nil {
		return out
	}
	canon := func(raw json.RawMessage) string {
		var x interface{}
		if len(raw) == 0 || json.Unmarshal(raw, &x) != nil {
			return "null"
		}
		bz, _ := json.Marshal(x)
		return string(bz)
	}
	for _, p := range genesisPairs {
		var g map[string]json.RawMessage
		if json.Unmarshal(m[p.Key], &g) != nil {
			continue
		}
		out[p.Key+"."+p.A+"~"+p.B] = canon(g[p.A]) != canon(g[p.B])
	}
	return out
}

// permuteGenesis permutes every top-level array of objects of every module's genesis state (arrays of
// scalars and arrays nested inside records - coins, permission lists, token lists - are values, not record
// lists, and keep their order). JSON object (map) order is already arbitrary for the Go decoder.
func permuteGenesis(state []byte, variant string, rng *hx.Rng) ([]byte, []string) {
	var m map[string]json.RawMessage
	if err := json.Unmarshal(state, &m); err != nil {
		return state, nil
	}
	var done []string
	mods := make([]string, 0, len(m))
	for k := range m {
		mods = append(mods, k)
	}
	sort.Strings(mods)
	for _, mod := range mods {
		var g map[string]json.RawMessage
		if json.Unmarshal(m[mod], &g) != nil {
			continue
		}
		fields := make([]string, 0, len(g))
		for k := range g {
			fields = append(fields, k)
		}
		sort.Strings(fields)
		changed := false
		for _, fld := range fields {
			if _, keep := keepOrder[mod+"."+fld]; keep {
				continue
			}
			var arr []json.RawMessage
			if json.Unmarshal(g[fld], &arr) != nil || len(arr) < 2 {
				continue
			}
			var probe map[string]json.RawMessage
			if json.Unmarshal(arr[0], &probe) != nil { // not an array of objects
				continue
			}
			if _, d := probe["denom"]; d && len(probe) == 2 { // a Coins value
				continue
			}
			if variant == "reversed" {
				for i, j := 0, len(arr)-1; i < j; i, j = i+1, j-1 {
					arr[i], arr[j] = arr[j], arr[i]
				}
			} else {
				for i := len(arr) - 1; i > 0; i-- {
					j := rng.Intn(i + 1)
					arr[i], arr[j] = arr[j], arr[i]
				}
			}
			bz, _ := json.Marshal(arr)
			g[fld] = bz
			changed = true
			done = append(done, mod+"."+fld)
		}
		if changed {
			bz, _ := json.Marshal(g)
			m[mod] = bz
		}
	}
	out, _ := json.MarshalIndent(m, "", " ")
	return out, done
}

type Case struct {
	Index        int        `json:"index"`
	Seed         uint64     `json:"seed"`
	Features     Features   `json:"features"`
	Height       int64      `json:"height"`
	Steps        []StepLog  `json:"steps"`
	ExportPanic  string     `json:"export_panic,omitempty"`
	ExportPanicModule string `json:"export_panic_module,omitempty"`
	ImportPanic  string     `json:"import_panic_unpatched,omitempty"`
	ImportPanic2 string     `json:"import_panic_patched,omitempty"`
	ImportPanicClass string `json:"import_panic_class,omitempty"`
	Populated    [][]string `json:"populated"`
	Diffs        []Diff     `json:"diffs"`
	Export2      []string   `json:"second_export_differs_in"`
	Probes       []Probe    `json:"probes"`
	Scheduled    []SchedRun `json:"restart_schedules"`
	Deadlines    []time.Time `json:"-"`
	Orders       []OrderRun `json:"permuted_genesis_imports"`
	ListSizes    map[string]int `json:"genesis_list_sizes"`
	PairsDiffer  map[string]bool `json:"same_type_field_pairs_hold_different_values"`
	Snap         [2]Snap    `json:"snapshots"`
}

var table *cov.Result

func classify(store string, key []byte) string {
	switch store {
	case "acc", "bank", "params", "consensus":
		if len(key) == 0 {
			return "?empty"
		}
		if store == "params" { // subspace name up to '/'
			if i := bytes.IndexByte(key, '/'); i > 0 {
				return "sub:" + string(key[:i])
			}
		}
		return fmt.Sprintf("sdk:%02x", key[0])
	}
	return table.Classify(store, key)
}

// every mounted KV store (abci.StoreNames names the evidence store "evidence"; it is mounted as "customevidence")
var storeNames = func() []string {
	out := append([]string{}, abci.StoreNames...)
	for _, n := range out {
		if n == "customevidence" {
			return out
		}
	}
	return append(out, "customevidence")
}()

func dumpStores(c *abci.Chain, ctx sdk.Context) map[string][]abci.KV {
	out := c.DumpStores(ctx)
	if _, done := out["customevidence"]; done {
		return out
	}
	if key := c.App.GetKey("customevidence"); key != nil {
		it := ctx.KVStore(key).Iterator(nil, nil)
		var kvs []abci.KV
		for ; it.Valid(); it.Next() {
			kvs = append(kvs, abci.KV{K: append([]byte{}, it.Key()...), V: append([]byte{}, it.Value()...)})
		}
		it.Close()
		out["customevidence"] = kvs
	}
	return out
}

func diffStores(a, b map[string][]abci.KV) ([]Diff, [][]string) {
	type ck struct{ kind, store, class string }
	agg := map[ck]*Diff{}
	pop := map[[2]string]bool{}
	add := func(kind, store string, key []byte) {
		k := ck{kind, store, classify(store, key)}
		d := agg[k]
		if d == nil {
			d = &Diff{Kind: kind, Store: store, Class: k.class, Ex: fmt.Sprintf("%x", key)}
			if len(d.Ex) > 80 {
				d.Ex = d.Ex[:80]
			}
			agg[k] = d
		}
		d.N++
	}
	for _, store := range storeNames {
		ma := map[string][]byte{}
		for _, kv := range a[store] {
			ma[string(kv.K)] = kv.V
			pop[[2]string{store, classify(store, kv.K)}] = true
		}
		mb := map[string][]byte{}
		for _, kv := range b[store] {
			mb[string(kv.K)] = kv.V
		}
		for _, kv := range a[store] {
			if v, ok := mb[string(kv.K)]; !ok {
				add("lost", store, kv.K)
			} else if !bytes.Equal(v, kv.V) {
				add("changed", store, kv.K)
			}
		}
		for _, kv := range b[store] {
			if _, ok := ma[string(kv.K)]; !ok {
				add("added", store, kv.K)
			}
		}
	}
	var out []Diff
	for _, d := range agg {
		out = append(out, *d)
	}
	sort.Slice(out, func(i, j int) bool {
		return out[i].Kind+"|"+out[i].Store+"|"+out[i].Class < out[j].Kind+"|"+out[j].Store+"|"+out[j].Class
	})
	var ps [][]string
	for k := range pop {
		ps = append(ps, []string{k[0], k[1]})
	}
	sort.Slice(ps, func(i, j int) bool { return ps[i][0]+"|"+ps[i][1] < ps[j][0]+"|"+ps[j][1] })
	return out, ps
}

// canonical JSON (sorted keys) per module
func canonModules(state []byte) map[string]string {
	var m map[string]json.RawMessage
	if err := json.Unmarshal(state, &m); err != nil {
		return map[string]string{"?": err.Error()}
	}
	out := map[string]string{}
	for k, v := range m {
		var x interface{}
		if json.Unmarshal(v, &x) != nil {
			out[k] = string(v)
			continue
		}
		bz, _ := json.Marshal(x) // encoding/json sorts map keys
		out[k] = string(bz)
	}
	return out
}

// patchUpgradeVersion rewrites the hardcoded version string of the upgrade module's export so that
// InitGenesis accepts it (finding import-panic:upgrade/version).
func patchUpgradeVersion(state []byte) []byte {
	var m map[string]json.RawMessage
	if err := json.Unmarshal(state, &m); err != nil {
		return state
	}
	var u map[string]interface{}
	if err := json.Unmarshal(m["upgrade"], &u); err != nil {
		return state
	}
	u["version"] = sekaitypes.SekaiVersion
	bz, _ := json.Marshal(u)
	m["upgrade"] = bz
	out, _ := json.MarshalIndent(m, "", " ")
	return out
}

func runCase(idx int, seed uint64, f Features) Case {
	r := hx.NewRng(seed)
	cs := Case{Index: idx, Seed: seed, Features: f}
	c := NewOriginal(seed, f)
	w := Populate(c, f, r)
	cs.Steps = w.Log
	cs.Height = c.Height
	// pre-flight: the module manager exports every module in its own goroutine, where a panic cannot
	// be recovered; run each module's ExportGenesis sequentially first to find out which one panics
	if mod, msg := preflightExport(c); mod != "" {
		cs.ExportPanic = mod + ": " + msg
		cs.ExportPanicModule = mod
		_, cs.Populated = diffStores(dumpStores(c, c.QueryCtx()), map[string][]abci.KV{})
		return cs
	}
	state, p := c.Export()
	cs.ExportPanic = p
	if p != "" {
		cs.ExportPanicModule = "app"
		return cs
	}
	cs.ListSizes = genesisListSizes(state)
	cs.PairsDiffer = pairsDiffer(state)
	_, p1 := newChainFromExport(c, state)
	patched := state
	if strings.Contains(p1, "invalid genesis version") {
		// x/upgrade refuses its own export (regression of 0bb355b): record it, and rewrite the version so
		// that the deeper comparison can still run
		cs.ImportPanic = p1
		patched = patchUpgradeVersion(state)
	}
	c2, p2 := newChainFromExport(c, patched)
	cs.ImportPanic2 = p2
	if p2 != "" {
		cs.ImportPanicClass = "other"
		if strings.Contains(p2, "is already registered by") {
			cs.ImportPanicClass = "identity-unique-key"
		}
		_, cs.Populated = diffStores(dumpStores(c, c.QueryCtx()), map[string][]abci.KV{})
		return cs
	}
	// c2 is not committed (as after a real InitChain): its deliver state holds the imported genesis
	uncommitted[c2] = true
	da, db := dumpStores(c, c.QueryCtx()), dumpStores(c2, c2.Ctx())
	cs.Diffs, cs.Populated = diffStores(da, db)
	cs.Snap[0], cs.Snap[1] = TakeSnap(c), TakeSnap(c2)
	// second export
	// second export: from a third application initialised from the same genesis, committed
	c3, _ := newChainFromExport(c, patched)
	hx.Try(func() { c3.App.Commit() })
	state2, p3 := c3.Export()
	if p3 != "" {
		cs.Export2 = []string{"panic:" + p3}
	} else {
		m1, m2 := canonModules(state), canonModules(state2)
		for k, v := range m1 {
			if m2[k] != v {
				cs.Export2 = append(cs.Export2, k)
			}
		}
		for k := range m2 {
			if _, ok := m1[k]; !ok {
				cs.Export2 = append(cs.Export2, k)
			}
		}
		sort.Strings(cs.Export2)
	}
	// metamorphic obligation on import: permuted genesis lists build the same state and behave alike
	for vi, variant := range []string{"reversed", "shuffled"} {
		if !(allSchedules || idx == 0 || idx%2 == vi) {
			continue
		}
		run := OrderRun{Variant: variant}
		var perm []byte
		perm, run.Permuted = permuteGenesis(patched, variant, hx.NewRng(seed*7+uint64(vi)))
		bp, pp := newChainFromExport(c, perm)
		if pp != "" {
			run.ImportPanic = pp
			cs.Orders = append(cs.Orders, run)
			continue
		}
		uncommitted[bp] = true
		run.Diffs, _ = diffStores(db, dumpStores(bp, bp.Ctx()))
		bu, _ := newChainFromExport(c, patched)
		uncommitted[bu] = true
		run.Probes = RunProbes(bu, bp, f, false)
		cs.Orders = append(cs.Orders, run)
	}
	c0Time := c.Time
	if props, err := c.App.CustomGovKeeper.GetProposals(c.QueryCtx()); err == nil {
		for _, p := range props {
			cs.Deadlines = append(cs.Deadlines, p.VotingEndTime, p.EnactmentEndTime)
		}
	}
	appHash := fmt.Sprintf("%x", c.App.LastCommitID().Hash)
	cs.Probes = RunProbes(c, c2, f, false)
	// further restart schedules: the history is replayed on a fresh original chain (the first one has
	// moved on), exported, re-imported later / higher, and both get the same further blocks
	// restarts exactly at / one nanosecond after the next pending proposal deadline (voting or enactment end)
	scheds := append([]Schedule{}, Schedules...)
	if ns := nextDeadlineNanos(c0Time, cs.Deadlines); ns > 0 {
		scheds = append(scheds, Schedule{Name: "at-next-deadline", LaterNs: ns}, Schedule{Name: "next-deadline+1ns", LaterNs: ns + 1})
	}
	for si, sc := range scheds {
		if si == 0 || !(allSchedules || idx == 0 || 1+(idx%(len(scheds)-1)) == si) {
			continue
		}
		run := SchedRun{Schedule: sc}
		a := NewOriginal(seed, f)
		Populate(a, f, hx.NewRng(seed))
		// the replay must reproduce the exported state (custody records are excluded: their protobuf
		// encoding marshals a Go map in random order, a C01 finding)
		run.ReplayOK = a.Height == cs.Height
		if fmt.Sprintf("%x", a.App.LastCommitID().Hash) != appHash {
			ds, _ := diffStores(da, dumpStores(a, a.QueryCtx()))
			for _, d := range ds {
				if d.Store != "custody" {
					run.ReplayOK = false
				}
			}
		}
		st, pe := a.Export()
		if pe != "" {
			run.ImportPanic = "export: " + pe
			cs.Scheduled = append(cs.Scheduled, run)
			continue
		}
		if cs.ImportPanic != "" {
			st = patchUpgradeVersion(st)
		}
		b, pi := newChainFromExportAt(a, st, sc)
		if pi != "" {
			run.ImportPanic = pi
			cs.Scheduled = append(cs.Scheduled, run)
			continue
		}
		uncommitted[b] = true
		a.Time = b.Time // the original chain's next block is produced at the same (later) time
		run.Probes = RunProbes(a, b, f, sc.Higher != 0)
		cs.Scheduled = append(cs.Scheduled, run)
	}
	return cs
}

var allSchedules = false

func main() {
	outDir := flag.String("out", ".", "output directory")
	n := flag.Int("n", 12, "number of histories")
	verbose := flag.Bool("v", false, "print step logs and diffs")
	flag.BoolVar(&allSchedules, "all-schedules", os.Getenv("VERIF_TIER") == "thorough", "run every restart schedule for every history (default: all for history 0, one per history otherwise)")
	flag.Parse()
	repo := os.Getenv("VERIF_REPO")
	if repo == "" {
		repo = "/repo"
	}
	var err error
	table, err = cov.Analyze(repo)
	if err != nil {
		panic(err)
	}
	if genesisPairs, err = cov.GenesisPairs(repo); err != nil {
		panic(err)
	}

	seed := hx.Seed()
	r := hx.NewRng(seed)
	var cases []Case
	dist := hx.Counter{}
	for _, p := range genesisPairs {
		dist["pair:"+p.Key+"."+p.A+"~"+p.B] = 0
	}
	for i := 0; i < *n; i++ {
		f := RandomFeatures(r)
		if i == 0 {
			f = AllFeatures()
		}
		if i == 1 { // second scripted history: everything, plus an upgrade that executes before the export
			f = AllFeatures()
			f.UpgradeExecuted, f.Upgrade, f.ExtraBlocks = true, false, 3
			f.W.LongHistory, f.W.LongGap = true, 31190400 // and a year of chain time: the two supply snapshots differ
		}
		cs := runCase(i, seed*1000+uint64(i), f)
		cases = append(cases, cs)
		for _, s := range cs.Steps {
			k := "step:" + s.Name
			if strings.HasPrefix(s.Name, "tx:vote proposal") {
				k = "step:tx:vote proposal"
			}
			if s.OK {
				dist.Inc(k + ":ok")
			} else {
				dist.Inc(k + ":rejected")
			}
		}
		for _, d := range cs.Diffs {
			dist.Inc("diff:" + d.Kind + ":" + d.Store + "/" + d.Class)
		}
		for k, d := range cs.PairsDiffer {
			if d {
				dist.Inc("pair:" + k)
			}
		}
		for k, n := range cs.ListSizes {
			if n > dist["listmax:"+k] {
				dist["listmax:"+k] = n
			}
		}
		for _, pc := range cs.Populated {
			dist.Inc("class:" + pc[0] + "/" + pc[1])
		}
		if *verbose {
			fmt.Printf("== case %d height %d export panic %q import panic %q / patched %q\n", i, cs.Height, cs.ExportPanic, cs.ImportPanic, cs.ImportPanic2)
			for _, s := range cs.Steps {
				if !s.OK {
					fmt.Println("  STEP FAILED", s.Name, s.Err)
				}
			}
			for _, d := range cs.Diffs {
				fmt.Printf("  %-8s %-16s %-44s n=%d %s\n", d.Kind, d.Store, d.Class, d.N, d.Ex)
			}
			fmt.Println("  export2 differs:", cs.Export2)
			for _, p := range cs.Probes {
				m := "  "
				if p.A != p.B {
					m = "!!"
				}
				fmt.Printf("  %s probe %-32s A=%s | B=%s\n", m, p.Name, p.A, p.B)
			}
			for _, or := range cs.Orders {
				fmt.Printf("  order %-9s lists=%d import panic %q\n", or.Variant, len(or.Permuted), or.ImportPanic)
				for _, d := range or.Diffs {
					fmt.Printf("  !! order@%s %-8s %-16s %-40s n=%d %s\n", or.Variant, d.Kind, d.Store, d.Class, d.N, d.Ex)
				}
				for _, p := range or.Probes {
					if p.A != p.B {
						fmt.Printf("  !! order@%s probe %-32s A=%s | B=%s\n", or.Variant, p.Name, p.A, p.B)
					}
				}
			}
			for _, sr := range cs.Scheduled {
				fmt.Printf("  schedule %-24s replay=%v import panic %q\n", sr.Schedule.Name, sr.ReplayOK, sr.ImportPanic)
				for _, p := range sr.Probes {
					if p.A != p.B {
						fmt.Printf("  !! @%s probe %-32s A=%s | B=%s\n", sr.Schedule.Name, p.Name, p.A, p.B)
					}
				}
			}
			fmt.Printf("  populated: %v\n", cs.Populated)
		}
	}
	out := hx.Out{Dir: *outDir}
	Emit(out, cases, dist)
}
