// gen_gates: translator for C07.  Reads the working tree (go/ast) and writes coq/Gen/Gates.v:
//   msg_gates        every CheckIfAllowedPermission call inside a msg-server method of
//                    x/*/keeper/msg_server.go:  "module.Method:actor:RequestedPermission:guard"
//                    (guard = the result is tested by an if whose body returns)
//   wrapper_mismatch call sites that go through a module keeper wrapper which does NOT pass the
//                    requested permission on to gov's CheckIfAllowedPermission
//   proposal_perms   "module.Type:ProposalPermission:VotePermission" of every Content type
//   gen_errors       call sites / methods outside the translated fragment
package main

import (
	"flag"
	"fmt"
	"go/ast"
	"go/parser"
	"go/printer"
	"go/token"
	"os"
	"path/filepath"
	"sort"
	"strings"
)

var fset = token.NewFileSet()

func src(n ast.Node) string {
	var sb strings.Builder
	printer.Fprint(&sb, fset, n)
	return strings.Join(strings.Fields(sb.String()), " ")
}

func permName(e ast.Expr) string {
	switch x := e.(type) {
	case *ast.SelectorExpr:
		if strings.HasPrefix(x.Sel.Name, "Perm") {
			return x.Sel.Name
		}
	case *ast.Ident:
		if strings.HasPrefix(x.Name, "Perm") {
			return x.Name
		}
	case *ast.CallExpr: // content.ProposalPermission() / content.VotePermission()
		if s, ok := x.Fun.(*ast.SelectorExpr); ok && (s.Sel.Name == "ProposalPermission" || s.Sel.Name == "VotePermission") {
			return "dynamic:" + s.Sel.Name
		}
	}
	return ""
}

func recvName(fd *ast.FuncDecl) string {
	if fd.Recv == nil || len(fd.Recv.List) == 0 {
		return ""
	}
	t := fd.Recv.List[0].Type
	if s, ok := t.(*ast.StarExpr); ok {
		t = s.X
	}
	if id, ok := t.(*ast.Ident); ok {
		return id.Name
	}
	return ""
}

// wrapperOf: the module keeper's own CheckIfAllowedPermission(ctx, addr, perm) method, if any:
// returns "" when it passes its permission parameter through, else the constant it checks.
func wrapperOf(dir string) (found bool, constant string, errs []string) {
	files, _ := filepath.Glob(filepath.Join(dir, "*.go"))
	for _, f := range files {
		if strings.HasSuffix(f, "_test.go") {
			continue
		}
		af, err := parser.ParseFile(fset, f, nil, 0)
		if err != nil {
			errs = append(errs, err.Error())
			continue
		}
		for _, d := range af.Decls {
			fd, ok := d.(*ast.FuncDecl)
			if !ok || fd.Name.Name != "CheckIfAllowedPermission" || recvName(fd) != "Keeper" || fd.Body == nil {
				continue
			}
			found = true
			params := []string{}
			for _, p := range fd.Type.Params.List {
				for _, n := range p.Names {
					params = append(params, n.Name)
				}
			}
			if len(fd.Body.List) != 1 || len(params) != 3 {
				errs = append(errs, "wrapper shape: "+f)
				continue
			}
			ret, ok := fd.Body.List[0].(*ast.ReturnStmt)
			if !ok || len(ret.Results) != 1 {
				errs = append(errs, "wrapper shape: "+f)
				continue
			}
			call, ok := ret.Results[0].(*ast.CallExpr)
			if !ok || len(call.Args) != 4 {
				errs = append(errs, "wrapper shape: "+f)
				continue
			}
			if id, ok := call.Args[3].(*ast.Ident); ok && id.Name == params[2] {
				constant = ""
			} else if n := permName(call.Args[3]); n != "" {
				constant = n
			} else {
				errs = append(errs, "wrapper permission expression: "+src(call.Args[3]))
			}
		}
	}
	return
}

func main() {
	repo := flag.String("repo", "/repo", "repository root")
	out := flag.String("out", "Gates.v", "output file")
	flag.Parse()

	var gates, mismatches, props, errs []string
	mods, _ := filepath.Glob(filepath.Join(*repo, "x", "*"))
	sort.Strings(mods)
	for _, m := range mods {
		mod := filepath.Base(m)
		// ---- msg server gates
		ms := filepath.Join(m, "keeper", "msg_server.go")
		if _, err := os.Stat(ms); err == nil {
			af, err := parser.ParseFile(fset, ms, nil, 0)
			if err != nil {
				errs = append(errs, err.Error())
				continue
			}
			wFound, wConst, wErrs := wrapperOf(filepath.Join(m, "keeper"))
			errs = append(errs, wErrs...)
			for _, d := range af.Decls {
				fd, ok := d.(*ast.FuncDecl)
				if !ok || fd.Body == nil || !strings.EqualFold(recvName(fd), "msgserver") {
					continue
				}
				// variables assigned from a check, and whether an if using them returns
				assigned := map[string]bool{}
				type site struct {
					actor, perm, v string
					viaKeeper       bool
				}
				var sites []site
				ast.Inspect(fd.Body, func(n ast.Node) bool {
					as, ok := n.(*ast.AssignStmt)
					if ok && len(as.Rhs) == 1 {
						if call, ok := as.Rhs[0].(*ast.CallExpr); ok {
							if s := callSite(call); s != nil {
								v := ""
								if id, ok := as.Lhs[0].(*ast.Ident); ok {
									v = id.Name
									assigned[v] = true
								}
								sites = append(sites, site{s.actor, s.perm, v, s.viaKeeper})
								return false
							}
						}
					}
					if call, ok := n.(*ast.CallExpr); ok {
						if s := callSite(call); s != nil { // a check whose result is not bound to a variable
							sites = append(sites, site{s.actor, s.perm, "", s.viaKeeper})
						}
					}
					return true
				})
				guarded := map[string]bool{}
				ast.Inspect(fd.Body, func(n ast.Node) bool {
					is, ok := n.(*ast.IfStmt)
					if !ok {
						return true
					}
					hasReturn := false
					ast.Inspect(is.Body, func(m ast.Node) bool {
						if _, ok := m.(*ast.ReturnStmt); ok {
							hasReturn = true
						}
						return true
					})
					if hasReturn {
						ast.Inspect(is.Cond, func(m ast.Node) bool {
							if id, ok := m.(*ast.Ident); ok && assigned[id.Name] {
								guarded[id.Name] = true
							}
							return true
						})
					}
					return true
				})
				for _, s := range sites {
					if s.perm == "" {
						errs = append(errs, fmt.Sprintf("%s.%s: permission expression outside the fragment", mod, fd.Name.Name))
						continue
					}
					g := "unguarded"
					if s.v != "" && guarded[s.v] {
						g = "guarded"
					}
					gates = append(gates, fmt.Sprintf("%s.%s:%s:%s:%s", mod, fd.Name.Name, s.actor, s.perm, g))
					if s.viaKeeper && wFound && wConst != "" && wConst != s.perm {
						mismatches = append(mismatches, fmt.Sprintf("%s.%s:requested=%s:effective=%s", mod, fd.Name.Name, s.perm, wConst))
					}
				}
			}
		}
		// ---- Content types
		tfiles, _ := filepath.Glob(filepath.Join(m, "types", "*.go"))
		pp := map[string][2]string{}
		for _, f := range tfiles {
			if strings.HasSuffix(f, "_test.go") || strings.HasSuffix(f, ".pb.go") || strings.HasSuffix(f, ".pb.gw.go") {
				continue
			}
			af, err := parser.ParseFile(fset, f, nil, 0)
			if err != nil {
				errs = append(errs, err.Error())
				continue
			}
			for _, d := range af.Decls {
				fd, ok := d.(*ast.FuncDecl)
				if !ok || fd.Body == nil || (fd.Name.Name != "ProposalPermission" && fd.Name.Name != "VotePermission") || recvName(fd) == "" {
					continue
				}
				name := ""
				if len(fd.Body.List) == 1 {
					if ret, ok := fd.Body.List[0].(*ast.ReturnStmt); ok && len(ret.Results) == 1 {
						name = permName(ret.Results[0])
					}
				}
				if name == "" {
					errs = append(errs, fmt.Sprintf("%s.%s.%s: body outside the fragment", mod, recvName(fd), fd.Name.Name))
					continue
				}
				e := pp[recvName(fd)]
				if fd.Name.Name == "ProposalPermission" {
					e[0] = name
				} else {
					e[1] = name
				}
				pp[recvName(fd)] = e
			}
		}
		var ts []string
		for t := range pp {
			ts = append(ts, t)
		}
		sort.Strings(ts)
		for _, t := range ts {
			props = append(props, fmt.Sprintf("%s.%s:%s:%s", mod, t, pp[t][0], pp[t][1]))
		}
	}

	var sb strings.Builder
	sb.WriteString("(* GENERATED by /verif/harness/cmd/gen_gates from " + *repo + " -- do not edit *)\nFrom Sekai Require Import Base.Prelude.\n\n")
	emit := func(name, marker string, rows []string) {
		sb.WriteString("Definition " + name + " : list string := [\n")
		for i, r := range rows {
			sep := ";"
			if i == len(rows)-1 {
				sep = ""
			}
			sb.WriteString(fmt.Sprintf("  \"%s\"%s (* %s *)\n", strings.ReplaceAll(r, "\"", "'"), sep, marker))
		}
		sb.WriteString("]%string.\n\n")
	}
	emit("msg_gates", "GATE", gates)
	emit("wrapper_mismatch", "WRAPPER", mismatches)
	emit("proposal_perms", "PROPOSAL", props)
	emit("gen_errors", "ERROR", errs)
	if err := os.WriteFile(*out, []byte(sb.String()), 0o644); err != nil {
		fmt.Fprintln(os.Stderr, err)
		os.Exit(1)
	}
	fmt.Fprintf(os.Stderr, "gen_gates: %d gates, %d wrapper mismatches, %d content types, %d errors\n", len(gates), len(mismatches), len(props), len(errs))
	if len(errs) > 0 {
		for _, e := range errs {
			fmt.Fprintln(os.Stderr, "  outside fragment:", e)
		}
		os.Exit(2)
	}
}

type csite struct {
	actor, perm string
	viaKeeper   bool
}

// callSite recognises  CheckIfAllowedPermission(ctx, keeper, actor, perm)  (gov's function, 4 args)
// and  <keeper>.CheckIfAllowedPermission(ctx, actor, perm)  (a keeper method, 3 args).
func callSite(call *ast.CallExpr) *csite {
	name := ""
	qualifiedByKeeper := false
	switch f := call.Fun.(type) {
	case *ast.Ident:
		name = f.Name
	case *ast.SelectorExpr:
		name = f.Sel.Name
		if _, ok := f.X.(*ast.SelectorExpr); ok { // k.keeper.X / k.cgk.X
			qualifiedByKeeper = true
		}
	}
	if name != "CheckIfAllowedPermission" {
		return nil
	}
	switch len(call.Args) {
	case 4:
		return &csite{src(call.Args[2]), permName(call.Args[3]), false}
	case 3:
		return &csite{src(call.Args[1]), permName(call.Args[2]), qualifiedByKeeper}
	}
	return &csite{"?", "", false}
}
