// gen_gates: translator for C07.  Reads the working tree (go/ast) and writes coq/Gen/Gates.v:
//
//	msg_gates        every CheckIfAllowedPermission call inside a msg-server method of
//	                 x/*/keeper/msg_server.go:  "module.Method:actor:RequestedPermission:guard"
//	                 (guard = the result is tested by an if whose body returns)
//	wrapper_mismatch call sites that go through a module keeper wrapper which does NOT pass the
//	                 requested permission on to gov's CheckIfAllowedPermission
//	proposal_perms   "module.Type:ProposalPermission:VotePermission" of every Content type
//	gen_errors       call sites / methods outside the translated fragment
//	tree_*           variation points of the tree the model follows: effective permission of layer2's
//	                 bond waiver, whether ClaimCouncilor whitelists through AddWhitelistPermission,
//	                 whether InitGenesis re-adds role blacklists, whether the recovery rotation
//	                 iterates over a copy of the roles and deletes the old actor last
package main

import (
	"crypto/sha256"
	"encoding/hex"
	"flag"
	"fmt"
	"go/ast"
	"go/parser"
	"go/printer"
	"go/token"
	"os"
	"path/filepath"
	"sort"
	"strings"

	simapp "github.com/KiraCore/sekai/app"
	sdk "github.com/cosmos/cosmos-sdk/types"
)

var fset = token.NewFileSet()

func src(n ast.Node) string {
	var sb strings.Builder
	printer.Fprint(&sb, fset, n)
	return strings.Join(strings.Fields(sb.String()), " ")
}

func permName(e ast.Expr) string {
	switch x := e.(type) {
	case *ast.SelectorExpr:
		if strings.HasPrefix(x.Sel.Name, "Perm") {
			return x.Sel.Name
		}
	case *ast.Ident:
		if strings.HasPrefix(x.Name, "Perm") {
			return x.Name
		}
	case *ast.CallExpr: // content.ProposalPermission() / content.VotePermission()
		if s, ok := x.Fun.(*ast.SelectorExpr); ok && (s.Sel.Name == "ProposalPermission" || s.Sel.Name == "VotePermission") {
			return "dynamic:" + s.Sel.Name
		}
	}
	return ""
}

func recvName(fd *ast.FuncDecl) string {
	if fd.Recv == nil || len(fd.Recv.List) == 0 {
		return ""
	}
	t := fd.Recv.List[0].Type
	if s, ok := t.(*ast.StarExpr); ok {
		t = s.X
	}
	if id, ok := t.(*ast.Ident); ok {
		return id.Name
	}
	return ""
}

// wrapperOf: the module keeper's own CheckIfAllowedPermission(ctx, addr, perm) method, if any:
// returns "" when it passes its permission parameter through, else the constant it checks.
func wrapperOf(dir string) (found bool, constant string, errs []string) {
	files, _ := filepath.Glob(filepath.Join(dir, "*.go"))
	for _, f := range files {
		if strings.HasSuffix(f, "_test.go") {
			continue
		}
		af, err := parser.ParseFile(fset, f, nil, 0)
		if err != nil {
			errs = append(errs, err.Error())
			continue
		}
		for _, d := range af.Decls {
			fd, ok := d.(*ast.FuncDecl)
			if !ok || fd.Name.Name != "CheckIfAllowedPermission" || recvName(fd) != "Keeper" || fd.Body == nil {
				continue
			}
			found = true
			params := []string{}
			for _, p := range fd.Type.Params.List {
				for _, n := range p.Names {
					params = append(params, n.Name)
				}
			}
			if len(fd.Body.List) != 1 || len(params) != 3 {
				errs = append(errs, "wrapper shape: "+f)
				continue
			}
			ret, ok := fd.Body.List[0].(*ast.ReturnStmt)
			if !ok || len(ret.Results) != 1 {
				errs = append(errs, "wrapper shape: "+f)
				continue
			}
			call, ok := ret.Results[0].(*ast.CallExpr)
			if !ok || len(call.Args) != 4 {
				errs = append(errs, "wrapper shape: "+f)
				continue
			}
			if id, ok := call.Args[3].(*ast.Ident); ok && id.Name == params[2] {
				constant = ""
			} else if n := permName(call.Args[3]); n != "" {
				constant = n
			} else {
				errs = append(errs, "wrapper permission expression: "+src(call.Args[3]))
			}
		}
	}
	return
}

// permValues reads the PermValue constants of x/gov/types/permission.pb.go
func permValues(repo string) map[string]string {
	res := map[string]string{}
	af, err := parser.ParseFile(fset, filepath.Join(repo, "x", "gov", "types", "permission.pb.go"), nil, 0)
	if err != nil {
		return res
	}
	for _, d := range af.Decls {
		gd, ok := d.(*ast.GenDecl)
		if !ok || gd.Tok != token.CONST {
			continue
		}
		for _, sp := range gd.Specs {
			vs := sp.(*ast.ValueSpec)
			for i, n := range vs.Names {
				if strings.HasPrefix(n.Name, "Perm") && i < len(vs.Values) {
					if bl, ok := vs.Values[i].(*ast.BasicLit); ok {
						res[n.Name] = bl.Value
					}
				}
			}
		}
	}
	return res
}

func findFunc(file, recv, name string) (*ast.FuncDecl, error) {
	af, err := parser.ParseFile(fset, file, nil, 0)
	if err != nil {
		return nil, err
	}
	for _, d := range af.Decls {
		if fd, ok := d.(*ast.FuncDecl); ok && fd.Name.Name == name && fd.Body != nil && (recv == "" || strings.EqualFold(recvName(fd), recv)) {
			return fd, nil
		}
	}
	return nil, fmt.Errorf("%s: function %s not found", file, name)
}

// calls returns the calls of a method / function with the given name inside n
func calls(n ast.Node, name string) []*ast.CallExpr {
	var res []*ast.CallExpr
	ast.Inspect(n, func(m ast.Node) bool {
		if c, ok := m.(*ast.CallExpr); ok {
			switch f := c.Fun.(type) {
			case *ast.SelectorExpr:
				if f.Sel.Name == name {
					res = append(res, c)
				}
			case *ast.Ident:
				if f.Name == name {
					res = append(res, c)
				}
			}
		}
		return true
	})
	return res
}

func mentions(c *ast.CallExpr, perm string) bool {
	for _, a := range c.Args {
		if permName(a) == perm {
			return true
		}
	}
	return false
}

// rotationVariant: "fixed" when the unassign loop ranges over something else than actor.Roles and
// DeleteNetworkActor comes after it; "buggy" for the original shape; "" otherwise
func rotationVariant(fd *ast.FuncDecl) string {
	dels := calls(fd.Body, "DeleteNetworkActor")
	var loop *ast.RangeStmt
	ast.Inspect(fd.Body, func(m ast.Node) bool {
		if r, ok := m.(*ast.RangeStmt); ok && len(calls(r.Body, "UnassignRoleFromActor")) > 0 {
			loop = r
		}
		return true
	})
	if len(dels) != 1 || loop == nil {
		return ""
	}
	overActorRoles := src(loop.X) == "actor.Roles"
	if dels[0].Pos() < loop.Pos() && overActorRoles {
		return "buggy"
	}
	if dels[0].Pos() > loop.End() && !overActorRoles {
		return "fixed"
	}
	return ""
}

var permWriters = map[string]bool{"SaveNetworkActor": true, "DeleteNetworkActor": true, "AssignRoleToActor": true, "UnassignRoleFromActor": true,
	"AssignRoleToAccount": true, "UnassignRoleFromAccount": true, "SetWhitelistAddressPermKey": true, "DeleteWhitelistAddressPermKey": true,
	"AddWhitelistPermission": true, "AddBlacklistPermission": true, "RemoveWhitelistedPermission": true, "RemoveBlacklistedPermission": true,
	"WhitelistRolePermission": true, "BlacklistRolePermission": true, "RemoveWhitelistRolePermission": true, "RemoveBlacklistRolePermission": true,
	"CreateRole": true, "SetRole": true, "DeleteRole": true, "SetNextRoleId": true, "SetWhiltelistPermRoleKey": true}

// externalWriters: call sites of the permission-store writers outside x/gov/keeper/{network_actor,permission_registry}.go
func externalWriters(repo string) ([]string, []string) {
	var rows, errs []string
	filepath.Walk(filepath.Join(repo, "x"), func(path string, info os.FileInfo, err error) error {
		if err != nil || info.IsDir() || !strings.HasSuffix(path, ".go") || strings.HasSuffix(path, "_test.go") || strings.HasSuffix(path, ".pb.go") || strings.HasSuffix(path, ".pb.gw.go") {
			return nil
		}
		rel, _ := filepath.Rel(repo, path)
		if rel == "x/gov/keeper/network_actor.go" || rel == "x/gov/keeper/permission_registry.go" || strings.Contains(rel, "/client/") || strings.Contains(rel, "/teststaking/") {
			return nil
		}
		af, perr := parser.ParseFile(fset, path, nil, 0)
		if perr != nil {
			errs = append(errs, perr.Error())
			return nil
		}
		for _, d := range af.Decls {
			fd, ok := d.(*ast.FuncDecl)
			if !ok || fd.Body == nil {
				continue
			}
			counts := map[string]int{}
			ast.Inspect(fd.Body, func(n ast.Node) bool {
				if c, ok := n.(*ast.CallExpr); ok {
					if sel, ok := c.Fun.(*ast.SelectorExpr); ok && permWriters[sel.Sel.Name] {
						if _, isMsgServerMethod := sel.X.(*ast.Ident); !(isMsgServerMethod && sel.Sel.Name == "CreateRole" && false) {
							counts[sel.Sel.Name]++
						}
					}
				}
				return true
			})
			var ks []string
			for k := range counts {
				ks = append(ks, k)
			}
			sort.Strings(ks)
			for _, k := range ks {
				name := fd.Name.Name
				if r := recvName(fd); r != "" {
					name = r + "." + name
				}
				rows = append(rows, fmt.Sprintf("%s:%s:%s x%d", rel, name, k, counts[k]))
			}
		}
		return nil
	})
	sort.Strings(rows)
	return rows, errs
}

func hashNode(n ast.Node) string {
	h := sha256.Sum256([]byte(src(n)))
	return hex.EncodeToString(h[:])[:12]
}

// fingerprints of the code the model was written from
func fingerprints(repo string) ([]string, []string) {
	var rows, errs []string
	type sel struct {
		file string
		keep func(fd *ast.FuncDecl) bool
	}
	all := func(*ast.FuncDecl) bool { return true }
	named := func(names ...string) func(*ast.FuncDecl) bool {
		m := map[string]bool{}
		for _, n := range names {
			m[n] = true
		}
		return func(fd *ast.FuncDecl) bool { return m[fd.Name.Name] }
	}
	sels := []sel{
		{"x/gov/keeper/util.go", named("CheckIfAllowedPermission", "getRolePermissions")},
		{"x/gov/keeper/network_actor.go", all},
		{"x/gov/keeper/permission_registry.go", all},
		{"x/gov/types/types.go", func(fd *ast.FuncDecl) bool { return recvName(fd) == "Permissions" || fd.Name.Name == "NewPermissions" }},
		{"x/gov/types/actor.go", all},
		{"x/gov/genesis.go", named("InitGenesis", "ExportGenesis")},
		{"x/gov/keeper/msg_server.go", named("SubmitProposal", "VoteProposal", "PollCreate", "UnassignRole", "AssignRole", "CreateRole", "RemoveBlacklistRolePermission",
			"RemoveWhitelistRolePermission", "BlacklistRolePermission", "WhitelistRolePermission", "WhitelistPermissions", "RemoveWhitelistedPermissions",
			"BlacklistPermissions", "RemoveBlacklistedPermissions", "ClaimCouncilor")},
		{"x/gov/proposal_handler.go", func(fd *ast.FuncDecl) bool {
			return fd.Name.Name == "Apply" && (strings.Contains(recvName(fd), "Permission") || strings.Contains(recvName(fd), "Role"))
		}},
		{"x/gov/types/router.go", all},
		{"x/basket/keeper/keeper.go", named("CheckIfAllowedPermission")},
		{"x/layer2/keeper/keeper.go", named("CheckIfAllowedPermission")},
		{"x/collectives/keeper/keeper.go", named("CheckIfAllowedPermission")},
	}
	for _, sl := range sels {
		af, err := parser.ParseFile(fset, filepath.Join(repo, sl.file), nil, 0)
		if err != nil {
			errs = append(errs, err.Error())
			continue
		}
		n := 0
		for _, d := range af.Decls {
			if fd, ok := d.(*ast.FuncDecl); ok && fd.Body != nil && sl.keep(fd) {
				name := fd.Name.Name
				if r := recvName(fd); r != "" {
					name = r + "." + name
				}
				rows = append(rows, fmt.Sprintf("%s:%s:%s", sl.file, name, hashNode(fd)))
				n++
			}
		}
		if n == 0 {
			errs = append(errs, "fingerprint: nothing selected in "+sl.file)
		}
	}
	// the gov:network_actor block of both rotation functions
	for _, name := range []string{"RotateRecoveryAddress", "RotateValidatorByHalfRRTokenHolder"} {
		fd, err := findFunc(filepath.Join(repo, "x", "recovery", "keeper", "msg_server.go"), "msgserver", name)
		if err != nil {
			errs = append(errs, err.Error())
			continue
		}
		found := false
		ast.Inspect(fd.Body, func(m ast.Node) bool {
			if is, ok := m.(*ast.IfStmt); ok && !found && len(calls(is.Body, "DeleteNetworkActor")) > 0 {
				rows = append(rows, fmt.Sprintf("x/recovery/keeper/msg_server.go:%s/network_actor:%s", name, hashNode(is)))
				found = true
				return false
			}
			return true
		})
		if !found {
			errs = append(errs, "fingerprint: network_actor block not found in "+name)
		}
	}
	sort.Strings(rows)
	return rows, errs
}

// msgClasses: every kira.* sdk.Msg registered in the application, gated or not
func msgClasses(gates []string) []string {
	reg := simapp.MakeEncodingConfig().InterfaceRegistry
	var rows []string
	for _, url := range reg.ListImplementations(sdk.MsgInterfaceProtoName) {
		if !strings.HasPrefix(url, "/kira.") {
			continue
		}
		parts := strings.Split(strings.TrimPrefix(url, "/"), ".")
		if len(parts) < 3 {
			continue
		}
		handler := parts[1] + "." + strings.TrimPrefix(parts[len(parts)-1], "Msg") + ":"
		class := "ungated"
		for _, g := range gates {
			if strings.HasPrefix(g, handler) {
				class = "gated"
			}
		}
		rows = append(rows, strings.TrimPrefix(url, "/")+":"+class)
	}
	sort.Strings(rows)
	return rows
}

func main() {
	repo := flag.String("repo", "/repo", "repository root")
	out := flag.String("out", "Gates.v", "output file")
	flag.Parse()

	var gates, mismatches, props, errs []string
	mods, _ := filepath.Glob(filepath.Join(*repo, "x", "*"))
	sort.Strings(mods)
	for _, m := range mods {
		mod := filepath.Base(m)
		// ---- msg server gates
		ms := filepath.Join(m, "keeper", "msg_server.go")
		if _, err := os.Stat(ms); err == nil {
			af, err := parser.ParseFile(fset, ms, nil, 0)
			if err != nil {
				errs = append(errs, err.Error())
				continue
			}
			wFound, wConst, wErrs := wrapperOf(filepath.Join(m, "keeper"))
			errs = append(errs, wErrs...)
			for _, d := range af.Decls {
				fd, ok := d.(*ast.FuncDecl)
				if !ok || fd.Body == nil || !strings.EqualFold(recvName(fd), "msgserver") {
					continue
				}
				// variables assigned from a check, and whether an if using them returns
				assigned := map[string]bool{}
				type site struct {
					actor, perm, v string
					viaKeeper      bool
				}
				var sites []site
				ast.Inspect(fd.Body, func(n ast.Node) bool {
					as, ok := n.(*ast.AssignStmt)
					if ok && len(as.Rhs) == 1 {
						if call, ok := as.Rhs[0].(*ast.CallExpr); ok {
							if s := callSite(call); s != nil {
								v := ""
								if id, ok := as.Lhs[0].(*ast.Ident); ok {
									v = id.Name
									assigned[v] = true
								}
								sites = append(sites, site{s.actor, s.perm, v, s.viaKeeper})
								return false
							}
						}
					}
					if call, ok := n.(*ast.CallExpr); ok {
						if s := callSite(call); s != nil { // a check whose result is not bound to a variable
							sites = append(sites, site{s.actor, s.perm, "", s.viaKeeper})
						}
					}
					return true
				})
				guarded := map[string]bool{}
				ast.Inspect(fd.Body, func(n ast.Node) bool {
					is, ok := n.(*ast.IfStmt)
					if !ok {
						return true
					}
					hasReturn := false
					ast.Inspect(is.Body, func(m ast.Node) bool {
						if _, ok := m.(*ast.ReturnStmt); ok {
							hasReturn = true
						}
						return true
					})
					if hasReturn {
						ast.Inspect(is.Cond, func(m ast.Node) bool {
							if id, ok := m.(*ast.Ident); ok && assigned[id.Name] {
								guarded[id.Name] = true
							}
							return true
						})
					}
					return true
				})
				for _, s := range sites {
					if s.perm == "" {
						errs = append(errs, fmt.Sprintf("%s.%s: permission expression outside the fragment", mod, fd.Name.Name))
						continue
					}
					g := "unguarded"
					if s.v != "" && guarded[s.v] {
						g = "guarded"
					}
					gates = append(gates, fmt.Sprintf("%s.%s:%s:%s:%s", mod, fd.Name.Name, s.actor, s.perm, g))
					if s.viaKeeper && wFound && wConst != "" && wConst != s.perm {
						mismatches = append(mismatches, fmt.Sprintf("%s.%s:requested=%s:effective=%s", mod, fd.Name.Name, s.perm, wConst))
					}
				}
			}
		}
		// ---- Content types
		tfiles, _ := filepath.Glob(filepath.Join(m, "types", "*.go"))
		pp := map[string][2]string{}
		for _, f := range tfiles {
			if strings.HasSuffix(f, "_test.go") || strings.HasSuffix(f, ".pb.go") || strings.HasSuffix(f, ".pb.gw.go") {
				continue
			}
			af, err := parser.ParseFile(fset, f, nil, 0)
			if err != nil {
				errs = append(errs, err.Error())
				continue
			}
			for _, d := range af.Decls {
				fd, ok := d.(*ast.FuncDecl)
				if !ok || fd.Body == nil || (fd.Name.Name != "ProposalPermission" && fd.Name.Name != "VotePermission") || recvName(fd) == "" {
					continue
				}
				name := ""
				if len(fd.Body.List) == 1 {
					if ret, ok := fd.Body.List[0].(*ast.ReturnStmt); ok && len(ret.Results) == 1 {
						name = permName(ret.Results[0])
					}
				}
				if name == "" {
					errs = append(errs, fmt.Sprintf("%s.%s.%s: body outside the fragment", mod, recvName(fd), fd.Name.Name))
					continue
				}
				e := pp[recvName(fd)]
				if fd.Name.Name == "ProposalPermission" {
					e[0] = name
				} else {
					e[1] = name
				}
				pp[recvName(fd)] = e
			}
		}
		var ts []string
		for t := range pp {
			ts = append(ts, t)
		}
		sort.Strings(ts)
		for _, t := range ts {
			props = append(props, fmt.Sprintf("%s.%s:%s:%s", mod, t, pp[t][0], pp[t][1]))
		}
	}

	// ---- variation points
	pv := permValues(*repo)
	dapp := ""
	for _, g := range gates {
		if strings.HasPrefix(g, "layer2.CreateDappProposal:") {
			dapp = strings.Split(g, ":")[2]
		}
	}
	for _, m := range mismatches {
		if strings.HasPrefix(m, "layer2.CreateDappProposal:") {
			dapp = strings.TrimPrefix(strings.Split(m, ":")[2], "effective=")
		}
	}
	dappVal, ok := pv[dapp]
	if !ok {
		errs = append(errs, "layer2.CreateDappProposal: effective permission not resolved: "+dapp)
		dappVal = "0"
	}
	claimIndexed := "false"
	if fd, err := findFunc(filepath.Join(*repo, "x", "gov", "keeper", "msg_server.go"), "msgserver", "ClaimCouncilor"); err != nil {
		errs = append(errs, err.Error())
	} else {
		viaKeeper, direct := false, false
		for _, c := range calls(fd.Body, "AddWhitelistPermission") {
			viaKeeper = viaKeeper || mentions(c, "PermCreatePollProposal")
		}
		for _, c := range calls(fd.Body, "AddToWhitelist") {
			direct = direct || mentions(c, "PermCreatePollProposal")
		}
		switch {
		case viaKeeper && !direct:
			claimIndexed = "true"
		case direct && !viaKeeper && len(calls(fd.Body, "SaveNetworkActor")) == 1:
		default:
			errs = append(errs, "gov.ClaimCouncilor: whitelisting of PermCreatePollProposal outside the fragment")
		}
	}
	importBl := "false"
	if fd, err := findFunc(filepath.Join(*repo, "x", "gov", "genesis.go"), "", "InitGenesis"); err != nil {
		errs = append(errs, err.Error())
	} else {
		if len(calls(fd.Body, "WhitelistRolePermission")) != 1 || len(calls(fd.Body, "SetWhitelistAddressPermKey")) != 1 || len(calls(fd.Body, "AssignRoleToActor")) != 1 {
			errs = append(errs, "gov.InitGenesis: permission import outside the fragment")
		}
		switch len(calls(fd.Body, "BlacklistRolePermission")) {
		case 0:
		case 1:
			importBl = "true"
		default:
			errs = append(errs, "gov.InitGenesis: blacklist import outside the fragment")
		}
	}
	rotateFixed := "false"
	{
		file := filepath.Join(*repo, "x", "recovery", "keeper", "msg_server.go")
		var vs []string
		for _, name := range []string{"RotateRecoveryAddress", "RotateValidatorByHalfRRTokenHolder"} {
			fd, err := findFunc(file, "msgserver", name)
			if err != nil {
				errs = append(errs, err.Error())
				continue
			}
			vs = append(vs, rotationVariant(fd))
		}
		if len(vs) == 2 && vs[0] == vs[1] && vs[0] != "" {
			if vs[0] == "fixed" {
				rotateFixed = "true"
			}
		} else {
			errs = append(errs, fmt.Sprintf("recovery rotation: gov:network_actor part outside the fragment %v", vs))
		}
	}

	var sb strings.Builder
	sb.WriteString("(* GENERATED by /verif/harness/cmd/gen_gates from " + *repo + " -- do not edit *)\nFrom Sekai Require Import Base.Prelude.\n\n")
	emit := func(name, marker string, rows []string) {
		sb.WriteString("Definition " + name + " : list string := [\n")
		for i, r := range rows {
			sep := ";"
			if i == len(rows)-1 {
				sep = ""
			}
			sb.WriteString(fmt.Sprintf("  \"%s\"%s (* %s *)\n", strings.ReplaceAll(r, "\"", "'"), sep, marker))
		}
		sb.WriteString("]%string.\n\n")
	}
	emit("msg_gates", "GATE", gates)
	emit("wrapper_mismatch", "WRAPPER", mismatches)
	emit("proposal_perms", "PROPOSAL", props)
	writers, werrs := externalWriters(*repo)
	fps, ferrs := fingerprints(*repo)
	errs = append(errs, werrs...)
	errs = append(errs, ferrs...)
	emit("msg_classes", "MSG", msgClasses(gates))
	emit("external_writers", "WRITER", writers)
	emit("fingerprints", "FINGERPRINT", fps)
	emit("gen_errors", "ERROR", errs)
	sb.WriteString(fmt.Sprintf("Definition tree_dapp_perm : Z := %s. (* TREE dapp=%s *)\n", dappVal, dappVal))
	sb.WriteString(fmt.Sprintf("Definition tree_claim_indexed : bool := %s. (* TREE claim_indexed=%s *)\n", claimIndexed, claimIndexed))
	sb.WriteString(fmt.Sprintf("Definition tree_import_role_bl : bool := %s. (* TREE import_role_bl=%s *)\n", importBl, importBl))
	sb.WriteString(fmt.Sprintf("Definition tree_rotate_fixed : bool := %s. (* TREE rotate_fixed=%s *)\n", rotateFixed, rotateFixed))
	if err := os.WriteFile(*out, []byte(sb.String()), 0o644); err != nil {
		fmt.Fprintln(os.Stderr, err)
		os.Exit(1)
	}
	fmt.Fprintf(os.Stderr, "gen_gates: %d gates, %d wrapper mismatches, %d content types, %d errors; dapp=%s claim_indexed=%s import_role_bl=%s rotate_fixed=%s\n", len(gates), len(mismatches), len(props), len(errs), dappVal, claimIndexed, importBl, rotateFixed)
	if len(errs) > 0 {
		for _, e := range errs {
			fmt.Fprintln(os.Stderr, "  outside fragment:", e)
		}
		os.Exit(2)
	}
}

type csite struct {
	actor, perm string
	viaKeeper   bool
}

// callSite recognises  CheckIfAllowedPermission(ctx, keeper, actor, perm)  (gov's function, 4 args)
// and  <keeper>.CheckIfAllowedPermission(ctx, actor, perm)  (a keeper method, 3 args).
func callSite(call *ast.CallExpr) *csite {
	name := ""
	qualifiedByKeeper := false
	switch f := call.Fun.(type) {
	case *ast.Ident:
		name = f.Name
	case *ast.SelectorExpr:
		name = f.Sel.Name
		if _, ok := f.X.(*ast.SelectorExpr); ok { // k.keeper.X / k.cgk.X
			qualifiedByKeeper = true
		}
	}
	if name != "CheckIfAllowedPermission" {
		return nil
	}
	switch len(call.Args) {
	case 4:
		return &csite{src(call.Args[2]), permName(call.Args[3]), false}
	case 3:
		return &csite{src(call.Args[1]), permName(call.Args[2]), qualifiedByKeeper}
	}
	return &csite{"?", "", false}
}
