// gen_govhandlers: translator (go/ast) for the pieces of x/gov whose exact control flow the C08
// model depends on and that are small enough to be re-read on every run:
//
//   - SetProposalDurationsProposalHandler.Apply (x/gov/proposal_handler.go): what the loop does when
//     keeper.SetProposalDuration fails (return the error, or swallow it with `return nil`);
//   - ProposalRouter.ApplyProposal (x/gov/types/router.go): the handler runs on ctx.CacheContext()
//     and the cache is written only when the handler returned nil.
//
//   - processProposal (x/gov/abci.go): the branch taken on an IsQuorum error (panic / quorum not reached)
//     and whether a dynamic-voter proposal rebuilds availableVoters from its allowed addresses.
//
// Output: coq/Gen/GovHandlers.v (definitions only).  Exit 2 on any other shape.
package main

import (
	"bytes"
	"flag"
	"fmt"
	"go/ast"
	"go/parser"
	"go/printer"
	"go/token"
	"os"
	"path/filepath"
	"sort"
	"strings"
)

var fset = token.NewFileSet()

func die(f string, a ...interface{}) {
	fmt.Fprintf(os.Stderr, "gen_govhandlers: UNSUPPORTED: "+f+"\n", a...)
	os.Exit(2)
}

func src(n ast.Node) string {
	var b bytes.Buffer
	printer.Fprint(&b, fset, n)
	return strings.Join(strings.Fields(b.String()), " ")
}

func method(file *ast.File, recv, name string) *ast.FuncDecl {
	for _, d := range file.Decls {
		fd, ok := d.(*ast.FuncDecl)
		if !ok || fd.Name.Name != name || fd.Recv == nil || len(fd.Recv.List) != 1 {
			continue
		}
		t := fd.Recv.List[0].Type
		if s, ok := t.(*ast.StarExpr); ok {
			t = s.X
		}
		if id, ok := t.(*ast.Ident); ok && id.Name == recv {
			return fd
		}
	}
	die("method %s.%s not found", recv, name)
	return nil
}

func main() {
	repo := flag.String("repo", "/repo", "repository root")
	out := flag.String("out", "GovHandlers.v", "output file")
	flag.Parse()

	// ---- SetProposalDurationsProposalHandler.Apply
	f, err := parser.ParseFile(fset, filepath.Join(*repo, "x/gov/proposal_handler.go"), nil, 0)
	if err != nil {
		die("%v", err)
	}
	fd := method(f, "SetProposalDurationsProposalHandler", "Apply")
	b := fd.Body.List
	if len(b) != 3 {
		die("durations handler: %d statements, expected 3", len(b))
	}
	if s := src(b[0]); s != "p := proposal.(*types.SetProposalDurationsProposal)" {
		die("durations handler: first statement %q", s)
	}
	rs, ok := b[1].(*ast.RangeStmt)
	if !ok || src(rs.Key) != "i" || src(rs.Value) != "pt" || src(rs.X) != "p.TypeofProposals" || len(rs.Body.List) != 2 {
		die("durations handler: loop %q", src(b[1]))
	}
	if s := src(rs.Body.List[0]); s != "err := c.keeper.SetProposalDuration(ctx, pt, p.ProposalDurations[i])" {
		die("durations handler: loop body %q", s)
	}
	ifs, ok := rs.Body.List[1].(*ast.IfStmt)
	if !ok || ifs.Init != nil || ifs.Else != nil || src(ifs.Cond) != "err != nil" || len(ifs.Body.List) != 1 {
		die("durations handler: error branch %q", src(rs.Body.List[1]))
	}
	returned := false
	switch s := src(ifs.Body.List[0]); s {
	case "return nil":
	case "return err":
		returned = true
	default:
		die("durations handler: error branch returns %q", s)
	}
	if s := src(b[2]); s != "return nil" {
		die("durations handler: last statement %q", s)
	}

	// ---- ProposalRouter.ApplyProposal
	g, err := parser.ParseFile(fset, filepath.Join(*repo, "x/gov/types/router.go"), nil, 0)
	if err != nil {
		die("%v", err)
	}
	ap := method(g, "ProposalRouter", "ApplyProposal")
	want := []string{
		`h, ok := r.routes[proposal.ProposalType()]`,
		`if !ok { panic("invalid proposal type") }`,
		`cachedCtx, writeCache := ctx.CacheContext()`,
		`err := h.Apply(cachedCtx, proposalID, proposal, slash)`,
		`if err == nil { writeCache() } else { fmt.Println("error applying proposal:", err) }`,
		`return err`,
	}
	if len(ap.Body.List) != len(want) {
		die("ApplyProposal: %d statements, expected %d", len(ap.Body.List), len(want))
	}
	for i, w := range want {
		if s := src(ap.Body.List[i]); s != w {
			die("ApplyProposal: statement %d is %q, expected %q", i, s, w)
		}
	}

	// ---- processProposal (x/gov/abci.go): the branch taken when types.IsQuorum returns an error, and
	// whether a dynamic-voter proposal rebuilds availableVoters (the veto-capable set) from its allowed addresses
	h, err := parser.ParseFile(fset, filepath.Join(*repo, "x/gov/abci.go"), nil, 0)
	if err != nil {
		die("%v", err)
	}
	var pp *ast.FuncDecl
	for _, d := range h.Decls {
		if fd, ok := d.(*ast.FuncDecl); ok && fd.Recv == nil && fd.Name.Name == "processProposal" {
			pp = fd
		}
	}
	if pp == nil {
		die("processProposal not found")
	}
	quorumPanics, quorumSeen := false, false
	dynVeto, dynSeen := false, false
	for i, st := range pp.Body.List {
		if as, ok := st.(*ast.AssignStmt); ok && strings.HasPrefix(src(as), "isQuorum, err := types.IsQuorum(quorum, uint64(numVotes), uint64(totalVoters))") {
			if i+1 >= len(pp.Body.List) {
				die("processProposal: nothing after IsQuorum")
			}
			ifs, ok := pp.Body.List[i+1].(*ast.IfStmt)
			if !ok || src(ifs.Cond) != "err != nil" || ifs.Else != nil || len(ifs.Body.List) == 0 {
				die("processProposal: IsQuorum error branch %q", src(pp.Body.List[i+1]))
			}
			quorumSeen = true
			body := ifs.Body.List
			first, last := src(body[0]), src(body[len(body)-1])
			switch {
			case len(body) == 1 && strings.HasPrefix(first, "panic("):
				quorumPanics = true
			case last == "isQuorum = false" && !strings.Contains(src(ifs.Body), "panic(") && !strings.Contains(src(ifs.Body), "return"):
				quorumPanics = false
			default:
				die("processProposal: IsQuorum error branch %q", src(ifs.Body))
			}
		}
		if ifs, ok := st.(*ast.IfStmt); ok && src(ifs.Cond) == "content.VotePermission() == types.PermZero" && strings.Contains(src(ifs.Body), "totalVoters") {
			dynSeen = true
			b := src(ifs.Body)
			oldShape := "{ router := k.GetProposalRouter() totalVoters = len(router.AllowedAddressesDynamicProposal(ctx, content)) if totalVoters == 0 { totalVoters = 1 } }"
			newShape := "{ router := k.GetProposalRouter() allowedAddresses := router.AllowedAddressesDynamicProposal(ctx, content) totalVoters = len(allowedAddresses) if totalVoters == 0 { totalVoters = 1 } availableVoters = nil for _, allowed := range allowedAddresses { addr, err := sdk.AccAddressFromBech32(allowed) if err != nil { continue } if actor, found := k.GetNetworkActorByAddress(ctx, addr); found { availableVoters = append(availableVoters, actor) } } }"
			switch b {
			case oldShape:
			case newShape:
				dynVeto = true
			default:
				die("processProposal: dynamic-voter block %q", b)
			}
		}
	}
	if !quorumSeen || !dynSeen {
		die("processProposal: IsQuorum call or dynamic-voter block not found")
	}

	// ---- every call site (non-test code under x/ and app/) of a gov keeper method that writes or deletes
	// proposals, votes, queue entries or the proposal counter
	writerNames := map[string]bool{"SaveVote": true, "DeleteVote": true, "SaveProposal": true, "AddToActiveProposals": true,
		"RemoveActiveProposal": true, "AddToEnactmentProposals": true, "RemoveEnactmentProposal": true, "SetNextProposalID": true,
		"GetNextProposalIDAndIncrement": true, "CreateAndSaveProposalWithContent": true}
	var writers []string
	for _, root := range []string{"x", "app"} {
		filepath.Walk(filepath.Join(*repo, root), func(path string, info os.FileInfo, err error) error {
			if err != nil || info.IsDir() || !strings.HasSuffix(path, ".go") || strings.HasSuffix(path, "_test.go") || strings.HasSuffix(path, ".pb.go") || strings.HasSuffix(path, ".pb.gw.go") {
				return nil
			}
			f, perr := parser.ParseFile(fset, path, nil, 0)
			if perr != nil {
				die("%v", perr)
			}
			rel, _ := filepath.Rel(*repo, path)
			for _, d := range f.Decls {
				fd, ok := d.(*ast.FuncDecl)
				if !ok || fd.Body == nil {
					continue
				}
				ast.Inspect(fd.Body, func(n ast.Node) bool {
					if ce, ok := n.(*ast.CallExpr); ok {
						if se, ok := ce.Fun.(*ast.SelectorExpr); ok && writerNames[se.Sel.Name] {
							writers = append(writers, fmt.Sprintf("%s:%s:%s", filepath.ToSlash(rel), fd.Name.Name, se.Sel.Name))
						}
					}
					return true
				})
			}
			return nil
		})
	}
	sort.Strings(writers)

	var o strings.Builder
	o.WriteString("(* GENERATED by /verif/harness/cmd/gen_govhandlers from x/gov/proposal_handler.go and x/gov/types/router.go -- do not edit *)\n")
	o.WriteString("From Sekai Require Import Base.Prelude.\n")
	o.WriteString("(* SetProposalDurationsProposalHandler.Apply: does the loop return the error of keeper.SetProposalDuration? *)\n")
	fmt.Fprintf(&o, "Definition durations_error_returned : bool := %v.\n", returned)
	o.WriteString("(* ProposalRouter.ApplyProposal has the shape: cache context; Apply; write the cache iff err == nil; return err *)\n")
	o.WriteString("Definition router_apply_on_cache_written_iff_ok : bool := true.\n")
	o.WriteString("(* processProposal: does an error of types.IsQuorum panic (true) or count as quorum not reached (false)? *)\n")
	fmt.Fprintf(&o, "Definition quorum_error_panics_flag : bool := %v.\n", quorumPanics)
	o.WriteString("(* processProposal: are the veto-capable voters of a dynamic-voter proposal taken from its allowed addresses? *)\n")
	fmt.Fprintf(&o, "Definition dynamic_veto_from_allowed : bool := %v.\n", dynVeto)
	o.WriteString("(* every call site of a gov keeper method that writes proposals, votes, queues or the proposal counter: file:function:callee *)\n")
	o.WriteString("Definition lifecycle_writers : list string := [\n")
	for i, w := range writers {
		sep := ";"
		if i == len(writers)-1 {
			sep = ""
		}
		fmt.Fprintf(&o, "  %q%s\n", w, sep)
	}
	o.WriteString("]%string.\n")
	if err := os.WriteFile(*out, []byte(o.String()), 0o644); err != nil {
		die("%v", err)
	}
}
