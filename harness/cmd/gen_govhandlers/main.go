// gen_govhandlers: translator (go/ast) for the pieces of x/gov whose exact control flow the C08
// model depends on and that are small enough to be re-read on every run:
//
//   - SetProposalDurationsProposalHandler.Apply (x/gov/proposal_handler.go): what the loop does when
//     keeper.SetProposalDuration fails (return the error, or swallow it with `return nil`);
//   - ProposalRouter.ApplyProposal (x/gov/types/router.go): the handler runs on ctx.CacheContext()
//     and the cache is written only when the handler returned nil.
//
//   - processProposal (x/gov/abci.go): the branch taken on an IsQuorum error (panic / quorum not reached)
//     and whether a dynamic-voter proposal rebuilds availableVoters from its allowed addresses.
//
// Output: coq/Gen/GovHandlers.v (definitions only).  Exit 2 on any other shape.
package main

import (
	"bytes"
	"flag"
	"fmt"
	"go/ast"
	"go/parser"
	"go/printer"
	"go/token"
	"os"
	"path/filepath"
	"sort"
	"strings"
)

var fset = token.NewFileSet()

func die(f string, a ...interface{}) {
	fmt.Fprintf(os.Stderr, "gen_govhandlers: UNSUPPORTED: "+f+"\n", a...)
	os.Exit(2)
}

func src(n ast.Node) string {
	var b bytes.Buffer
	printer.Fprint(&b, fset, n)
	return strings.Join(strings.Fields(b.String()), " ")
}

func method(file *ast.File, recv, name string) *ast.FuncDecl {
	for _, d := range file.Decls {
		fd, ok := d.(*ast.FuncDecl)
		if !ok || fd.Name.Name != name || fd.Recv == nil || len(fd.Recv.List) != 1 {
			continue
		}
		t := fd.Recv.List[0].Type
		if s, ok := t.(*ast.StarExpr); ok {
			t = s.X
		}
		if id, ok := t.(*ast.Ident); ok && id.Name == recv {
			return fd
		}
	}
	die("method %s.%s not found", recv, name)
	return nil
}

func main() {
	repo := flag.String("repo", "/repo", "repository root")
	out := flag.String("out", "GovHandlers.v", "output file")
	flag.Parse()

	// ---- SetProposalDurationsProposalHandler.Apply
	f, err := parser.ParseFile(fset, filepath.Join(*repo, "x/gov/proposal_handler.go"), nil, 0)
	if err != nil {
		die("%v", err)
	}
	fd := method(f, "SetProposalDurationsProposalHandler", "Apply")
	b := fd.Body.List
	if len(b) != 3 {
		die("durations handler: %d statements, expected 3", len(b))
	}
	if s := src(b[0]); s != "p := proposal.(*types.SetProposalDurationsProposal)" {
		die("durations handler: first statement %q", s)
	}
	rs, ok := b[1].(*ast.RangeStmt)
	if !ok || src(rs.Key) != "i" || src(rs.Value) != "pt" || src(rs.X) != "p.TypeofProposals" || len(rs.Body.List) != 2 {
		die("durations handler: loop %q", src(b[1]))
	}
	if s := src(rs.Body.List[0]); s != "err := c.keeper.SetProposalDuration(ctx, pt, p.ProposalDurations[i])" {
		die("durations handler: loop body %q", s)
	}
	ifs, ok := rs.Body.List[1].(*ast.IfStmt)
	if !ok || ifs.Init != nil || ifs.Else != nil || src(ifs.Cond) != "err != nil" || len(ifs.Body.List) != 1 {
		die("durations handler: error branch %q", src(rs.Body.List[1]))
	}
	returned := false
	switch s := src(ifs.Body.List[0]); s {
	case "return nil":
	case "return err":
		returned = true
	default:
		die("durations handler: error branch returns %q", s)
	}
	if s := src(b[2]); s != "return nil" {
		die("durations handler: last statement %q", s)
	}

	// ---- ProposalRouter.ApplyProposal
	g, err := parser.ParseFile(fset, filepath.Join(*repo, "x/gov/types/router.go"), nil, 0)
	if err != nil {
		die("%v", err)
	}
	ap := method(g, "ProposalRouter", "ApplyProposal")
	want := []string{
		`h, ok := r.routes[proposal.ProposalType()]`,
		`if !ok { panic("invalid proposal type") }`,
		`cachedCtx, writeCache := ctx.CacheContext()`,
		`err := h.Apply(cachedCtx, proposalID, proposal, slash)`,
		`if err == nil { writeCache() } else { fmt.Println("error applying proposal:", err) }`,
		`return err`,
	}
	if len(ap.Body.List) != len(want) {
		die("ApplyProposal: %d statements, expected %d", len(ap.Body.List), len(want))
	}
	for i, w := range want {
		if s := src(ap.Body.List[i]); s != w {
			die("ApplyProposal: statement %d is %q, expected %q", i, s, w)
		}
	}

	// ---- processProposal (x/gov/abci.go): the branch taken when types.IsQuorum returns an error, and
	// whether a dynamic-voter proposal rebuilds availableVoters (the veto-capable set) from its allowed addresses
	h, err := parser.ParseFile(fset, filepath.Join(*repo, "x/gov/abci.go"), nil, 0)
	if err != nil {
		die("%v", err)
	}
	var pp *ast.FuncDecl
	for _, d := range h.Decls {
		if fd, ok := d.(*ast.FuncDecl); ok && fd.Recv == nil && fd.Name.Name == "processProposal" {
			pp = fd
		}
	}
	if pp == nil {
		die("processProposal not found")
	}
	quorumPanics, quorumSeen := false, false
	dynVeto, dynSeen := false, false
	for i, st := range pp.Body.List {
		if as, ok := st.(*ast.AssignStmt); ok && strings.HasPrefix(src(as), "isQuorum, err := types.IsQuorum(quorum, uint64(numVotes), uint64(totalVoters))") {
			if i+1 >= len(pp.Body.List) {
				die("processProposal: nothing after IsQuorum")
			}
			ifs, ok := pp.Body.List[i+1].(*ast.IfStmt)
			if !ok || src(ifs.Cond) != "err != nil" || ifs.Else != nil || len(ifs.Body.List) == 0 {
				die("processProposal: IsQuorum error branch %q", src(pp.Body.List[i+1]))
			}
			quorumSeen = true
			body := ifs.Body.List
			first, last := src(body[0]), src(body[len(body)-1])
			switch {
			case len(body) == 1 && strings.HasPrefix(first, "panic("):
				quorumPanics = true
			case last == "isQuorum = false" && !strings.Contains(src(ifs.Body), "panic(") && !strings.Contains(src(ifs.Body), "return"):
				quorumPanics = false
			default:
				die("processProposal: IsQuorum error branch %q", src(ifs.Body))
			}
		}
		if ifs, ok := st.(*ast.IfStmt); ok && src(ifs.Cond) == "content.VotePermission() == types.PermZero" && strings.Contains(src(ifs.Body), "totalVoters") {
			dynSeen = true
			b := src(ifs.Body)
			oldShape := "{ router := k.GetProposalRouter() totalVoters = len(router.AllowedAddressesDynamicProposal(ctx, content)) if totalVoters == 0 { totalVoters = 1 } }"
			newShape := "{ router := k.GetProposalRouter() allowedAddresses := router.AllowedAddressesDynamicProposal(ctx, content) totalVoters = len(allowedAddresses) if totalVoters == 0 { totalVoters = 1 } availableVoters = nil for _, allowed := range allowedAddresses { addr, err := sdk.AccAddressFromBech32(allowed) if err != nil { continue } if actor, found := k.GetNetworkActorByAddress(ctx, addr); found { availableVoters = append(availableVoters, actor) } } }"
			switch b {
			case oldShape:
			case newShape:
				dynVeto = true
			default:
				die("processProposal: dynamic-voter block %q", b)
			}
		}
	}
	if !quorumSeen || !dynSeen {
		die("processProposal: IsQuorum call or dynamic-voter block not found")
	}

	// ---- every call site (non-test code under x/ and app/) of a gov keeper method that writes or deletes
	// proposals, votes, queue entries or the proposal counter
	writerNames := map[string]bool{"SaveVote": true, "DeleteVote": true, "SaveProposal": true, "AddToActiveProposals": true,
		"RemoveActiveProposal": true, "AddToEnactmentProposals": true, "RemoveEnactmentProposal": true, "SetNextProposalID": true,
		"GetNextProposalIDAndIncrement": true, "CreateAndSaveProposalWithContent": true}
	var writers []string
	for _, root := range []string{"x", "app"} {
		filepath.Walk(filepath.Join(*repo, root), func(path string, info os.FileInfo, err error) error {
			if err != nil || info.IsDir() || !strings.HasSuffix(path, ".go") || strings.HasSuffix(path, "_test.go") || strings.HasSuffix(path, ".pb.go") || strings.HasSuffix(path, ".pb.gw.go") {
				return nil
			}
			f, perr := parser.ParseFile(fset, path, nil, 0)
			if perr != nil {
				die("%v", perr)
			}
			rel, _ := filepath.Rel(*repo, path)
			for _, d := range f.Decls {
				fd, ok := d.(*ast.FuncDecl)
				if !ok || fd.Body == nil {
					continue
				}
				ast.Inspect(fd.Body, func(n ast.Node) bool {
					if ce, ok := n.(*ast.CallExpr); ok {
						if se, ok := ce.Fun.(*ast.SelectorExpr); ok && writerNames[se.Sel.Name] {
							writers = append(writers, fmt.Sprintf("%s:%s:%s", filepath.ToSlash(rel), fd.Name.Name, se.Sel.Name))
						}
					}
					return true
				})
			}
			return nil
		})
	}
	sort.Strings(writers)

	shapes := handlerShapes(*repo)

	var o strings.Builder
	o.WriteString("(* GENERATED by /verif/harness/cmd/gen_govhandlers from x/gov/proposal_handler.go and x/gov/types/router.go -- do not edit *)\n")
	o.WriteString("From Sekai Require Import Base.Prelude.\n")
	o.WriteString("(* SetProposalDurationsProposalHandler.Apply: does the loop return the error of keeper.SetProposalDuration? *)\n")
	fmt.Fprintf(&o, "Definition durations_error_returned : bool := %v.\n", returned)
	o.WriteString("(* ProposalRouter.ApplyProposal has the shape: cache context; Apply; write the cache iff err == nil; return err *)\n")
	o.WriteString("Definition router_apply_on_cache_written_iff_ok : bool := true.\n")
	o.WriteString("(* processProposal: does an error of types.IsQuorum panic (true) or count as quorum not reached (false)? *)\n")
	fmt.Fprintf(&o, "Definition quorum_error_panics_flag : bool := %v.\n", quorumPanics)
	o.WriteString("(* processProposal: are the veto-capable voters of a dynamic-voter proposal taken from its allowed addresses? *)\n")
	fmt.Fprintf(&o, "Definition dynamic_veto_from_allowed : bool := %v.\n", dynVeto)
	o.WriteString("(* every call site of a gov keeper method that writes proposals, votes, queues or the proposal counter: file:function:callee *)\n")
	o.WriteString("Definition lifecycle_writers : list string := [\n")
	for i, w := range writers {
		sep := ";"
		if i == len(writers)-1 {
			sep = ""
		}
		fmt.Fprintf(&o, "  %s%s\n", coqStr(w), sep)
	}
	o.WriteString("]%string.\n")
	o.WriteString("(* error-handling shape of the Apply method of EVERY handler registered in app.go's proposal router:\n   swallowed = an `if err != nil` block that neither returns a non-nil error nor panics; blank = a call result assigned to _ in last position;\n   unchecked = an error-returning function called as a statement.  Any entry means Apply can report success after a failed step. *)\n")
	o.WriteString("Definition handler_error_shapes : list (string * list string) := [\n")
	for i, h := range shapes {
		sep := ";"
		if i == len(shapes)-1 {
			sep = ""
		}
		var fs []string
		for _, f := range h.findings {
			fs = append(fs, coqStr(f))
		}
		fmt.Fprintf(&o, "  (%s, [%s])%s\n", coqStr(h.name), strings.Join(fs, "; "), sep)
	}
	o.WriteString("]%string.\n")
	o.WriteString("(* dynamic-voter handlers: what the methods that give gov the quorum / voting period / enactment delay return *)\n")
	o.WriteString("Definition dynamic_param_sources : list (string * list string) := [\n")
	first := true
	for _, h := range shapes {
		if len(h.dyn) == 0 {
			continue
		}
		if !first {
			o.WriteString(";\n")
		}
		first = false
		var fs []string
		for _, f := range h.dyn {
			fs = append(fs, coqStr(f))
		}
		fmt.Fprintf(&o, "  (%s, [%s])", coqStr(h.name), strings.Join(fs, "; "))
	}
	o.WriteString("\n]%string.\n")
	if err := os.WriteFile(*out, []byte(o.String()), 0o644); err != nil {
		die("%v", err)
	}
}

// ---------------------------------------------------------------- error-handling shapes of all registered handlers

type shape struct {
	name     string
	findings []string
	dyn      []string // dynamic-voter handlers: what Quorum / VotePeriod / VoteEnactment return at the end
}

func parseDir(dir string) []*ast.File {
	var fs []*ast.File
	ents, err := os.ReadDir(dir)
	if err != nil {
		die("%v", err)
	}
	for _, e := range ents {
		n := e.Name()
		if e.IsDir() || !strings.HasSuffix(n, ".go") || strings.HasSuffix(n, "_test.go") {
			continue
		}
		f, err := parser.ParseFile(fset, filepath.Join(dir, n), nil, 0)
		if err != nil {
			die("%v", err)
		}
		fs = append(fs, f)
	}
	return fs
}

func returnsError(ft *ast.FuncType) bool {
	if ft.Results == nil || len(ft.Results.List) == 0 {
		return false
	}
	last := ft.Results.List[len(ft.Results.List)-1].Type
	id, ok := last.(*ast.Ident)
	return ok && id.Name == "error"
}

func handlerShapes(repo string) []shape {
	// names of functions / interface methods under x/ that return an error in last position
	errFuncs := map[string]bool{}
	filepath.Walk(filepath.Join(repo, "x"), func(path string, info os.FileInfo, err error) error {
		if err != nil || info.IsDir() || !strings.HasSuffix(path, ".go") || strings.HasSuffix(path, "_test.go") || strings.HasSuffix(path, ".pb.go") || strings.HasSuffix(path, ".pb.gw.go") {
			return nil
		}
		f, perr := parser.ParseFile(fset, path, nil, 0)
		if perr != nil {
			die("%v", perr)
		}
		ast.Inspect(f, func(n ast.Node) bool {
			switch x := n.(type) {
			case *ast.FuncDecl:
				if returnsError(x.Type) {
					errFuncs[x.Name.Name] = true
				}
			case *ast.InterfaceType:
				for _, m := range x.Methods.List {
					if ft, ok := m.Type.(*ast.FuncType); ok && len(m.Names) == 1 && returnsError(ft) {
						errFuncs[m.Names[0].Name] = true
					}
				}
			}
			return true
		})
		return nil
	})

	appf, err := parser.ParseFile(fset, filepath.Join(repo, "app/app.go"), nil, 0)
	if err != nil {
		die("%v", err)
	}
	imports := map[string]string{} // alias -> import path
	for _, im := range appf.Imports {
		path := strings.Trim(im.Path.Value, "\"")
		alias := path[strings.LastIndex(path, "/")+1:]
		if im.Name != nil {
			alias = im.Name.Name
		}
		imports[alias] = path
	}
	var ctors [][2]string // (alias, constructor)
	ast.Inspect(appf, func(n ast.Node) bool {
		ce, ok := n.(*ast.CallExpr)
		if !ok {
			return true
		}
		se, ok := ce.Fun.(*ast.SelectorExpr)
		if !ok || se.Sel.Name != "NewProposalRouter" || len(ce.Args) != 1 {
			return true
		}
		cl, ok := ce.Args[0].(*ast.CompositeLit)
		if !ok {
			die("app.go: NewProposalRouter argument is not a composite literal")
		}
		for _, el := range cl.Elts {
			c, ok := el.(*ast.CallExpr)
			if !ok {
				die("app.go: router element %q", src(el))
			}
			s, ok := c.Fun.(*ast.SelectorExpr)
			if !ok {
				die("app.go: router element %q", src(el))
			}
			ctors = append(ctors, [2]string{src(s.X), s.Sel.Name})
		}
		return false
	})
	if len(ctors) == 0 {
		die("app.go: no handlers found in NewProposalRouter")
	}
	const prefix = "github.com/KiraCore/sekai/"
	var out []shape
	for _, c := range ctors {
		path, ok := imports[c[0]]
		if !ok || !strings.HasPrefix(path, prefix) {
			die("app.go: handler package %q", c[0])
		}
		files := parseDir(filepath.Join(repo, strings.TrimPrefix(path, prefix)))
		typ := ""
		for _, f := range files {
			for _, d := range f.Decls {
				if fd, ok := d.(*ast.FuncDecl); ok && fd.Recv == nil && fd.Name.Name == c[1] && fd.Type.Results != nil && len(fd.Type.Results.List) == 1 {
					t := fd.Type.Results.List[0].Type
					if st, ok := t.(*ast.StarExpr); ok {
						t = st.X
					}
					typ = src(t)
				}
			}
		}
		if typ == "" {
			die("constructor %s.%s not found", c[0], c[1])
		}
		var apply *ast.FuncDecl
		for _, f := range files {
			for _, d := range f.Decls {
				fd, ok := d.(*ast.FuncDecl)
				if !ok || fd.Name.Name != "Apply" || fd.Recv == nil || len(fd.Recv.List) != 1 {
					continue
				}
				t := fd.Recv.List[0].Type
				if st, ok := t.(*ast.StarExpr); ok {
					t = st.X
				}
				if src(t) == typ {
					apply = fd
				}
			}
		}
		if apply == nil {
			die("Apply of %s not found", typ)
		}
		sh := shape{name: strings.TrimPrefix(path, prefix) + "." + typ}
		ast.Inspect(apply.Body, func(n ast.Node) bool {
			switch x := n.(type) {
			case *ast.IfStmt:
				cond := src(x.Cond)
				if strings.Contains(strings.ToLower(cond), "err") && strings.Contains(cond, "!= nil") {
					ok := false
					ast.Inspect(x.Body, func(m ast.Node) bool {
						switch y := m.(type) {
						case *ast.ReturnStmt:
							if len(y.Results) > 0 && src(y.Results[len(y.Results)-1]) != "nil" {
								ok = true
							}
						case *ast.CallExpr:
							if id, isId := y.Fun.(*ast.Ident); isId && id.Name == "panic" {
								ok = true
							}
						}
						return true
					})
					if !ok {
						b := src(x.Body)
						if len(b) > 70 {
							b = b[:70]
						}
						sh.findings = append(sh.findings, "swallowed: if "+cond+" "+b)
					}
				}
			case *ast.AssignStmt:
				if len(x.Rhs) == 1 {
					if _, isCall := x.Rhs[0].(*ast.CallExpr); isCall {
						if id, ok := x.Lhs[len(x.Lhs)-1].(*ast.Ident); ok && id.Name == "_" {
							sh.findings = append(sh.findings, "blank: "+src(x))
						}
					}
				}
			case *ast.ExprStmt:
				if ce, ok := x.X.(*ast.CallExpr); ok {
					name := ""
					switch f := ce.Fun.(type) {
					case *ast.SelectorExpr:
						name = f.Sel.Name
					case *ast.Ident:
						name = f.Name
					}
					if errFuncs[name] {
						sh.findings = append(sh.findings, "unchecked: "+src(ce.Fun))
					}
				}
			}
			return true
		})
		// dynamic-voter methods: the expression returned last by Quorum / VotePeriod / VoteEnactment
		for _, mname := range []string{"Quorum", "VotePeriod", "VoteEnactment"} {
			for _, f := range files {
				for _, d := range f.Decls {
					fd, ok := d.(*ast.FuncDecl)
					if !ok || fd.Name.Name != mname || fd.Recv == nil || len(fd.Recv.List) != 1 || fd.Body == nil || len(fd.Body.List) == 0 {
						continue
					}
					t := fd.Recv.List[0].Type
					if st, ok := t.(*ast.StarExpr); ok {
						t = st.X
					}
					if src(t) != typ {
						continue
					}
					rs, ok := fd.Body.List[len(fd.Body.List)-1].(*ast.ReturnStmt)
					if !ok || len(rs.Results) != 1 {
						die("%s.%s: last statement is not a single return", typ, mname)
					}
					sh.dyn = append(sh.dyn, mname+" returns "+src(rs.Results[0]))
				}
			}
		}
		out = append(out, sh)
	}
	return out
}

// coqStr: a Coq string literal (printable ASCII only; quotes doubled)
func coqStr(s string) string {
	var b strings.Builder
	b.WriteByte('"')
	for i := 0; i < len(s); i++ {
		switch c := s[i]; {
		case c == '"':
			b.WriteString("\"\"")
		case c >= 32 && c <= 126:
			b.WriteByte(c)
		default:
			b.WriteByte('?')
		}
	}
	b.WriteByte('"')
	return b.String()
}
