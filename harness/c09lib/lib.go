// Package c09lib: helpers shared by the C09 and C14 harnesses (owned by C09/C14): named test
// accounts, configuration (token registry, freeze lists, fee properties, execution fees, validator
// count, poor-network list) applied to the real keepers, message descriptors built into real
// sdk.Msgs, signed transactions, canonical observers (balance deltas, classified store diff) and
// the Coq emitters for all of them.
package c09lib

import (
	"crypto/ecdsa"
	"encoding/hex"
	"math/big"
	"fmt"
	"sort"
	"strings"

	"verif/harness/hx"

	simapp "github.com/KiraCore/sekai/app"
	customante "github.com/KiraCore/sekai/app/ante"
	appparams "github.com/KiraCore/sekai/app/params"
	custodytypes "github.com/KiraCore/sekai/x/custody/types"
	"github.com/KiraCore/sekai/x/gov"
	"github.com/KiraCore/sekai/x/tokens"
	feetypes "github.com/KiraCore/sekai/x/feeprocessing/types"
	govtypes "github.com/KiraCore/sekai/x/gov/types"
	stakingtypes "github.com/KiraCore/sekai/x/staking/types"
	tokenstypes "github.com/KiraCore/sekai/x/tokens/types"
	"github.com/cosmos/cosmos-sdk/client"
	clienttx "github.com/cosmos/cosmos-sdk/client/tx"
	"github.com/cosmos/cosmos-sdk/crypto/keys/ed25519"
	"github.com/cosmos/cosmos-sdk/crypto/keys/secp256k1"
	cryptotypes "github.com/cosmos/cosmos-sdk/crypto/types"
	"github.com/cosmos/cosmos-sdk/store/prefix"
	"github.com/cosmos/cosmos-sdk/store/rootmulti"
	storetypes "github.com/cosmos/cosmos-sdk/store/types"
	sdk "github.com/cosmos/cosmos-sdk/types"
	"github.com/cosmos/cosmos-sdk/types/tx/signing"
	"github.com/cosmos/cosmos-sdk/x/auth/ante"
	"github.com/ethereum/go-ethereum/common"
	ethtypes "github.com/ethereum/go-ethereum/core/types"
	ethcrypto "github.com/ethereum/go-ethereum/crypto"
	"github.com/ethereum/go-ethereum/rlp"
	xauthsigning "github.com/cosmos/cosmos-sdk/x/auth/signing"
	authtypes "github.com/cosmos/cosmos-sdk/x/auth/types"
	banktypes "github.com/cosmos/cosmos-sdk/x/bank/types"
	minttypes "github.com/cosmos/cosmos-sdk/x/mint/types"
)

const Collector = "fee_collector"

// Denoms used by the generators; "ufoo" is never registered in the token registry by default.
// Denominations are CASE SENSITIVE: IbcDenom (ibc/<upper-case hex>) and MixDenom (mixed case) are valid per
// sdk.ValidateDenom and differ from their lower-cased spellings.  (Sorted bytewise, as sdk.Coins are.)
const IbcDenom = "ibc/27394FB092D2ECCD"
const MixDenom = "uMixEd"

// LookAlikes: bank denominations that differ from a registered one ONLY IN CASE and are never
// registered, blacklisted or whitelisted under that spelling by default; the accounts hold them.
var LookAlikes = []string{"FROZEN", "UBTC", "UKEX", "ibc/27394fb092d2eccd", "umixed"}

var Denoms = []string{"FROZEN", "UBTC", "UKEX", "frozen", IbcDenom, "ibc/27394fb092d2eccd", "uMixEd", "ubtc", "ufoo", "ukex", "umixed", "xeth"}

type Acc struct {
	Name string
	Priv cryptotypes.PrivKey
	Addr sdk.AccAddress
	Num  uint64
	Eth  bool              // address = the key's Ethereum address (signs raw Ethereum transactions)
	EC   *ecdsa.PrivateKey // for Eth accounts
}

const EthChainID = 8789

type Env struct {
	App     *simapp.SekaiApp
	TxCfg   client.TxConfig
	Ante    sdk.AnteHandler
	Accs    []*Acc
	ByAddr  map[string]string // raw address bytes -> name
	CollAdr sdk.AccAddress
	Native  string
}

// NewEnv creates the application and nAcc funded accounts (a0..), written into ctx's store.
func NewEnv(nAcc int) (*Env, sdk.Context) {
	app := hx.NewApp()
	ctx := hx.Ctx(app, 1, 1700000000)
	enc := simapp.MakeEncodingConfig()
	e := &Env{App: app, TxCfg: enc.TxConfig, ByAddr: map[string]string{}, Native: appparams.DefaultDenom}
	e.Ante = customante.NewAnteHandler(app.CustomStakingKeeper, app.CustomGovKeeper, app.TokensKeeper, app.FeeProcessingKeeper,
		app.AccountKeeper, app.BankKeeper, app.CustodyKeeper, nil, nil, ante.DefaultSigVerificationGasConsumer,
		enc.TxConfig.SignModeHandler(), nil, app.InterfaceRegistry())
	app.AccountKeeper.SetParams(ctx, authtypes.DefaultParams())
	e.CollAdr = app.AccountKeeper.GetModuleAddress(authtypes.FeeCollectorName)
	// make sure the module account object exists
	app.AccountKeeper.GetModuleAccount(ctx, authtypes.FeeCollectorName)
	e.ByAddr[string(e.CollAdr)] = Collector
	for i := 0; i < nAcc; i++ {
		priv := secp256k1.GenPrivKeyFromSecret([]byte(fmt.Sprintf("c09-account-%d", i)))
		addr := sdk.AccAddress(priv.PubKey().Address())
		acc := app.AccountKeeper.NewAccountWithAddress(ctx, addr)
		app.AccountKeeper.SetAccount(ctx, acc)
		a := &Acc{Name: fmt.Sprintf("a%d", i), Priv: priv, Addr: addr, Num: acc.GetAccountNumber()}
		e.Accs = append(e.Accs, a)
		e.ByAddr[string(addr)] = a.Name
	}
	// two Ethereum-style accounts e0, e1: the account address is the key's Ethereum address
	for i := 0; i < 2; i++ {
		priv := secp256k1.GenPrivKeyFromSecret([]byte(fmt.Sprintf("c09-eth-account-%d", i)))
		ec, err := ethcrypto.ToECDSA(priv.Key)
		if err != nil {
			panic(err)
		}
		addr := sdk.AccAddress(ethcrypto.PubkeyToAddress(ec.PublicKey).Bytes())
		acc := app.AccountKeeper.NewAccountWithAddress(ctx, addr)
		app.AccountKeeper.SetAccount(ctx, acc)
		a := &Acc{Name: fmt.Sprintf("e%d", i), Priv: priv, Addr: addr, Num: acc.GetAccountNumber(), Eth: true, EC: ec}
		e.Accs = append(e.Accs, a)
		e.ByAddr[string(addr)] = a.Name
	}
	// g0: an administrator holding the permissions to change the fee table / fee properties and to register tokens by message
	{
		priv := secp256k1.GenPrivKeyFromSecret([]byte("c09-admin-0"))
		addr := sdk.AccAddress(priv.PubKey().Address())
		acc := app.AccountKeeper.NewAccountWithAddress(ctx, addr)
		app.AccountKeeper.SetAccount(ctx, acc)
		a := &Acc{Name: "g0", Priv: priv, Addr: addr, Num: acc.GetAccountNumber()}
		e.Accs = append(e.Accs, a)
		e.ByAddr[string(addr)] = a.Name
		actor := govtypes.NewDefaultActor(addr)
		for _, perm := range []govtypes.PermValue{govtypes.PermChangeTxFee, govtypes.PermUpsertTokenInfo} {
			if err := app.CustomGovKeeper.AddWhitelistPermission(ctx, actor, perm); err != nil {
				panic(err)
			}
		}
	}
	return e, ctx
}

// RawEth: a signed legacy Ethereum transaction (EIP-155, chain EthChainID) sending value wei to `to`.
func RawEth(k *ecdsa.PrivateKey, nonce uint64, to common.Address, value *big.Int) []byte {
	inner := &ethtypes.LegacyTx{Nonce: nonce, To: &to, Value: value, Gas: 21000, GasPrice: big.NewInt(1)}
	tx, err := ethtypes.SignNewTx(k, ethtypes.NewEIP155Signer(big.NewInt(EthChainID)), inner)
	if err != nil {
		panic(err)
	}
	bz, err := rlp.EncodeToBytes(tx)
	if err != nil {
		panic(err)
	}
	return bz
}

// Stranger returns a deterministic address that has no account yet.
func (e *Env) Stranger(i int) (string, sdk.AccAddress) {
	priv := secp256k1.GenPrivKeyFromSecret([]byte(fmt.Sprintf("c09-stranger-%d", i)))
	addr := sdk.AccAddress(priv.PubKey().Address())
	name := fmt.Sprintf("s%d", i)
	e.ByAddr[string(addr)] = name
	return name, addr
}

func (e *Env) Fund(ctx sdk.Context, addr sdk.AccAddress, coins sdk.Coins) {
	if err := e.App.BankKeeper.MintCoins(ctx, minttypes.ModuleName, coins); err != nil {
		panic(err)
	}
	if err := e.App.BankKeeper.SendCoinsFromModuleToAccount(ctx, minttypes.ModuleName, addr, coins); err != nil {
		panic(err)
	}
}

// FundCollector mints coins into the fee collector module account.
func (e *Env) FundCollector(ctx sdk.Context, coins sdk.Coins) {
	if coins.IsZero() {
		return
	}
	if err := e.App.BankKeeper.MintCoins(ctx, minttypes.ModuleName, coins); err != nil {
		panic(err)
	}
	if err := e.App.BankKeeper.SendCoinsFromModuleToModule(ctx, minttypes.ModuleName, authtypes.FeeCollectorName, coins); err != nil {
		panic(err)
	}
}

func (e *Env) NameOf(addr []byte) string {
	if n, ok := e.ByAddr[string(addr)]; ok {
		return n
	}
	return "?" + hex.EncodeToString(addr)
}

func (e *Env) AddrOf(name string) sdk.AccAddress {
	if name == Collector {
		return e.CollAdr
	}
	for _, a := range e.Accs {
		if a.Name == name {
			return a.Addr
		}
	}
	for k, v := range e.ByAddr {
		if v == name {
			return sdk.AccAddress(k)
		}
	}
	panic("unknown account " + name)
}

// ---------------------------------------------------------------- configuration

type Tok struct {
	Denom      string
	Rate       sdk.Dec
	FeeEnabled bool
}
type ExecFee struct {
	Type      string
	Execution uint64
	Failure   uint64
}
type Cfg struct {
	Tokens   []Tok
	Black    []string
	White    []string
	EnBlack  bool
	EnWhite  bool
	Foreign  bool
	MinFee   uint64
	MaxFee   uint64
	Exec     []ExecFee
	NVals    int
	MinVals  uint64
	PoorMsgs []string
	MaxSend  uint64
	Custody  []Cust
	MinRew   uint64
	ViaGov   bool // token infos, freeze lists, execution fees and the allowed-message list are written through the REAL proposal handlers
}

// Cust: custody record of an account (UsePassword / UseWhiteList / UseLimits off).
// Custodians < 0: no custodians record at all.
type Cust struct {
	Name       string
	Enabled    bool
	Custodians int
}

// Apply writes cfg into the real keepers through ctx.  Returns an error when the network
// properties are refused by the keeper's validation.
func (e *Env) Apply(ctx sdk.Context, c *Cfg) error {
	app := e.App
	for _, ti := range app.TokensKeeper.GetAllTokenInfos(ctx) {
		if err := app.TokensKeeper.DeleteTokenInfo(ctx, ti.Denom); err != nil {
			return err
		}
	}
	for _, t := range c.Tokens {
		if c.ViaGov {
			// sometimes the token exists already with other values (update path of the handler), sometimes not (create path)
			if len(t.Denom)%2 == 0 {
				pre := tokenstypes.NewTokenInfo(t.Denom, "adr20", t.Rate.Add(sdk.OneDec()), !t.FeeEnabled, sdk.ZeroInt(), sdk.ZeroInt(), sdk.NewDecWithPrec(10, 2), sdk.OneInt(), false, false,
					strings.ToUpper(t.Denom), t.Denom, "", 6, "", "", "", 0, sdk.ZeroInt(), "", false, "", "")
				if err := app.TokensKeeper.UpsertTokenInfo(ctx, pre); err != nil {
					return err
				}
			}
			h := tokens.NewApplyUpsertTokenInfosProposalHandler(app.TokensKeeper)
			if err := h.Apply(ctx, 1, &tokenstypes.ProposalUpsertTokenInfo{Denom: t.Denom, TokenType: "adr20", FeeRate: t.Rate, FeeEnabled: t.FeeEnabled, Supply: sdk.ZeroInt(), SupplyCap: sdk.ZeroInt(),
				StakeCap: sdk.NewDecWithPrec(10, 2), StakeMin: sdk.OneInt(), Symbol: strings.ToUpper(t.Denom), Name: t.Denom, Decimals: 6, MintingFee: sdk.ZeroInt()}, sdk.ZeroDec()); err != nil {
				return err
			}
			continue
		}
		info := tokenstypes.NewTokenInfo(t.Denom, "adr20", t.Rate, t.FeeEnabled, sdk.ZeroInt(), sdk.ZeroInt(), sdk.NewDecWithPrec(10, 2), sdk.OneInt(), false, false,
			strings.ToUpper(t.Denom), t.Denom, "", 6, "", "", "", 0, sdk.ZeroInt(), "", false, "", "")
		if err := app.TokensKeeper.UpsertTokenInfo(ctx, info); err != nil {
			return err
		}
	}
	if c.ViaGov {
		app.TokensKeeper.SetTokenBlackWhites(ctx, tokenstypes.TokensWhiteBlack{})
		h := tokens.NewApplyWhiteBlackChangeProposalHandler(app.TokensKeeper)
		if err := h.Apply(ctx, 2, &tokenstypes.ProposalTokensWhiteBlackChange{IsBlacklist: true, IsAdd: true, Tokens: append([]string{}, c.Black...)}, sdk.ZeroDec()); err != nil {
			return err
		}
		if err := h.Apply(ctx, 3, &tokenstypes.ProposalTokensWhiteBlackChange{IsBlacklist: false, IsAdd: true, Tokens: append([]string{}, c.White...)}, sdk.ZeroDec()); err != nil {
			return err
		}
	} else {
		app.TokensKeeper.SetTokenBlackWhites(ctx, tokenstypes.TokensWhiteBlack{Whitelisted: c.White, Blacklisted: c.Black})
	}
	p := app.CustomGovKeeper.GetNetworkProperties(ctx)
	p.EnableTokenBlacklist = c.EnBlack
	p.EnableTokenWhitelist = c.EnWhite
	p.EnableForeignFeePayments = c.Foreign
	p.MinTxFee = c.MinFee
	p.MaxTxFee = c.MaxFee
	p.MinValidators = c.MinVals
	p.PoorNetworkMaxBankSend = c.MaxSend
	p.MinCustodyReward = c.MinRew
	if err := app.CustomGovKeeper.SetNetworkProperties(ctx, p); err != nil {
		return err
	}
	// execution fees: clear, then set
	st := prefix.NewStore(ctx.KVStore(app.GetKey(govtypes.ModuleName)), govtypes.KeyPrefixExecutionFee)
	var keys [][]byte
	it := st.Iterator(nil, nil)
	for ; it.Valid(); it.Next() {
		keys = append(keys, append([]byte{}, it.Key()...))
	}
	it.Close()
	for _, k := range keys {
		st.Delete(k)
	}
	if c.ViaGov {
		var fees []govtypes.ExecutionFee
		for _, f := range c.Exec {
			fees = append(fees, govtypes.ExecutionFee{TransactionType: f.Type, ExecutionFee: f.Execution, FailureFee: f.Failure})
		}
		if err := gov.NewApplySetExecutionFeesProposalHandler(app.CustomGovKeeper).Apply(ctx, 4, &govtypes.ProposalSetExecutionFees{ExecutionFees: fees}, sdk.ZeroDec()); err != nil {
			return err
		}
		if err := gov.NewApplySetPoorNetworkMessagesProposalHandler(app.CustomGovKeeper).Apply(ctx, 5, &govtypes.SetPoorNetworkMessagesProposal{Messages: c.PoorMsgs}, sdk.ZeroDec()); err != nil {
			return err
		}
	} else {
		for _, f := range c.Exec {
			app.CustomGovKeeper.SetExecutionFee(ctx, govtypes.ExecutionFee{TransactionType: f.Type, ExecutionFee: f.Execution, FailureFee: f.Failure})
		}
		app.CustomGovKeeper.SavePoorNetworkMessages(ctx, &govtypes.AllowedMessages{Messages: c.PoorMsgs})
	}
	// custody records: clear those of the named accounts, then set
	for _, a := range e.Accs {
		app.CustodyKeeper.DropCustodyRecord(ctx, a.Addr)
		app.CustodyKeeper.DropCustodyCustodiansByAddress(ctx, a.Addr)
		app.CustodyKeeper.DropCustodyPool(ctx, a.Addr)
	}
	for _, cu := range c.Custody {
		addr := e.AddrOf(cu.Name)
		app.CustodyKeeper.SetCustodyRecord(ctx, custodytypes.CustodyRecord{Address: addr, CustodySettings: &custodytypes.CustodySettings{CustodyEnabled: cu.Enabled}})
		if cu.Custodians >= 0 {
			m := map[string]bool{}
			for i := 0; i < cu.Custodians; i++ {
				m[sdk.AccAddress(fmt.Sprintf("custodian___________%d", i)).String()] = true
			}
			app.CustodyKeeper.AddToCustodyCustodians(ctx, custodytypes.CustodyCustodiansRecord{Address: addr, CustodyCustodians: &custodytypes.CustodyCustodianList{Addresses: m}})
		}
	}
	// validators: the genesis has one; add NVals-1 more
	have := len(app.CustomStakingKeeper.GetValidatorSet(ctx))
	for i := have; i < c.NVals; i++ {
		pk := ed25519.GenPrivKeyFromSecret([]byte(fmt.Sprintf("c09-val-%d", i))).PubKey()
		v, err := stakingtypes.NewValidator(sdk.ValAddress(pk.Address()), pk)
		if err != nil {
			return err
		}
		app.CustomStakingKeeper.AddValidator(ctx, v)
	}
	// GHOST validator count: the distinct validators known to the harness (those present before, all distinct, plus
	// the distinct ones just added) -- not re-read from the store, which operations under test may corrupt
	if c.NVals < have {
		c.NVals = have
	}
	return nil
}

func strList(xs []string) string {
	ys := make([]string, len(xs))
	for i, x := range xs {
		ys[i] = hx.Str(x)
	}
	return hx.List(ys)
}

func CoinsCoq(cs []sdk.Coin) string {
	xs := make([]string, len(cs))
	for i, c := range cs {
		xs[i] = hx.Pair(hx.Str(c.Denom), hx.ZInt(c.Amount))
	}
	return hx.List(xs)
}

// Coq: a term of type fcfg
func (e *Env) CfgCoq(c *Cfg) string {
	var ts, ex []string
	for _, t := range c.Tokens {
		ts = append(ts, fmt.Sprintf("mkToken %s %s %s", hx.Str(t.Denom), hx.ZBig(t.Rate.BigInt()), hx.B(t.FeeEnabled)))
	}
	for _, f := range c.Exec {
		ex = append(ex, hx.Pair(hx.Str(f.Type), hx.Pair(hx.ZU(f.Execution), hx.ZU(f.Failure))))
	}
	filt := fmt.Sprintf("(mkFilt %s (mkBW %s %s) %s %s %d %s %s %s)", hx.Str(e.Native), strList(c.Black), strList(c.White),
		hx.B(c.EnBlack), hx.B(c.EnWhite), c.NVals, hx.ZU(c.MinVals), strList(c.PoorMsgs), hx.ZU(c.MaxSend))
	var cu []string
	for _, k := range c.Custody {
		n := "None"
		if k.Custodians >= 0 {
			n = fmt.Sprintf("(Some %d)", k.Custodians)
		}
		cu = append(cu, hx.Pair(hx.Str(k.Name), fmt.Sprintf("mkCust %s %s", hx.B(k.Enabled), n)))
	}
	return fmt.Sprintf("(mkCfg %s %s %s %s %s %s %s %s)", filt, hx.List(ts), hx.B(c.Foreign), hx.ZU(c.MinFee), hx.ZU(c.MaxFee), hx.List(ex), hx.List(cu), hx.ZU(c.MinRew))
}

func (c *Cfg) JSON() map[string]interface{} {
	var ts []string
	for _, t := range c.Tokens {
		ts = append(ts, fmt.Sprintf("%s rate=%s fee_enabled=%v", t.Denom, t.Rate.String(), t.FeeEnabled))
	}
	var ex []string
	for _, f := range c.Exec {
		ex = append(ex, fmt.Sprintf("%s exec=%d fail=%d", f.Type, f.Execution, f.Failure))
	}
	return map[string]interface{}{"tokens": ts, "blacklist": c.Black, "whitelist": c.White, "enable_blacklist": c.EnBlack,
		"enable_whitelist": c.EnWhite, "foreign_fees": c.Foreign, "min_tx_fee": fmt.Sprint(c.MinFee), "max_tx_fee": fmt.Sprint(c.MaxFee),
		"execution_fees": ex, "validators": c.NVals, "min_validators": fmt.Sprint(c.MinVals), "poor_network_msgs": c.PoorMsgs,
		"poor_network_max_bank_send": fmt.Sprint(c.MaxSend), "custody": c.Custody, "min_custody_reward": fmt.Sprint(c.MinRew), "written_through_proposal_handlers": c.ViaGov}
}

// ---------------------------------------------------------------- messages

type Out struct {
	To  string
	Amt sdk.Coins
}
type M struct {
	Kind   string // send | multisend | custody_send | other
	From   string
	To     string
	Amt    sdk.Coins
	Outs   []Out
	Reward sdk.Coins
	Ty     string // for other
	Fails  bool
	Mark   string
	EthAmt int64  // for eth: native amount (value = EthAmt * 10^12 + EthRem wei)
	EthRem int64
	Nonce  uint64 // for eth: nonce of the raw transaction (= signed sequence)
	Forged bool   // for eth: the raw transaction is signed by a key that is not the sender's
	W      *Write // for other: the configuration this message writes when its handler succeeds
}

// Write: configuration written by gov MsgSetExecutionFee / MsgSetNetworkProperties / tokens MsgUpsertTokenInfo.
type Write struct {
	Kind    string // exec | fees | token
	Ty      string
	E, F    uint64
	Min     uint64
	Max     uint64
	Foreign bool
	Denom   string
	Rate    sdk.Dec
	Enabled bool
}

func (w Write) Coq() string {
	switch w.Kind {
	case "exec":
		return fmt.Sprintf("WExec %s %d %d", hx.Str(w.Ty), w.E, w.F)
	case "fees":
		return fmt.Sprintf("WFees %d %d %s", w.Min, w.Max, hx.B(w.Foreign))
	default:
		return fmt.Sprintf("WToken %s %s %s", hx.Str(w.Denom), hx.ZBig(w.Rate.BigInt()), hx.B(w.Enabled))
	}
}

func (m M) Type() string {
	if m.Kind == "other" {
		return m.Ty
	}
	if m.Kind == "eth" {
		return "ethereum_tx"
	}
	return m.Kind
}

func (e *Env) AccOf(name string) *Acc {
	for _, a := range e.Accs {
		if a.Name == name {
			return a
		}
	}
	return nil
}

func (e *Env) Build(m M) sdk.Msg {
	from := e.AddrOf(m.From)
	switch m.Kind {
	case "send":
		return &banktypes.MsgSend{FromAddress: from.String(), ToAddress: e.AddrOf(m.To).String(), Amount: m.Amt}
	case "multisend":
		var outs []banktypes.Output
		for _, o := range m.Outs {
			outs = append(outs, banktypes.Output{Address: e.AddrOf(o.To).String(), Coins: o.Amt})
		}
		return &banktypes.MsgMultiSend{Inputs: []banktypes.Input{{Address: from.String(), Coins: m.Amt}}, Outputs: outs}
	case "eth":
		a := e.AccOf(m.From)
		val := new(big.Int).Add(new(big.Int).Mul(big.NewInt(m.EthAmt), big.NewInt(1000_000_000_000)), big.NewInt(m.EthRem))
		key := a.EC
		if m.Forged {
			fk := secp256k1.GenPrivKeyFromSecret([]byte("c09-forger"))
			key, _ = ethcrypto.ToECDSA(fk.Key)
		}
		data := RawEth(key, m.Nonce, common.BytesToAddress(e.AddrOf(m.To)), val)
		var etx ethtypes.Transaction
		hash := ""
		if rlp.DecodeBytes(data, &etx) == nil {
			hash = etx.Hash().Hex()
		}
		return &tokenstypes.MsgEthereumTx{TxType: "NativeSend", Sender: a.Addr.String(), Hash: hash, Data: data}
	case "custody_send":
		return &custodytypes.MsgSend{FromAddress: from.String(), ToAddress: e.AddrOf(m.To).String(), Amount: m.Amt, Password: "", Reward: m.Reward}
	case "other":
		switch m.Ty {
		case "register_identity_records":
			return govtypes.NewMsgRegisterIdentityRecords(from, []govtypes.IdentityInfoEntry{{Key: m.Mark, Info: "v"}})
		case "set_network_properties":
			p := e.App.CustomGovKeeper.GetNetworkProperties(hx.Ctx(e.App, 1, 1700000000))
			if m.W != nil {
				p.MinTxFee, p.MaxTxFee, p.EnableForeignFeePayments = m.W.Min, m.W.Max, m.W.Foreign
			}
			return govtypes.NewMsgSetNetworkProperties(from, p)
		case "set_execution_fee":
			if m.W != nil {
				return govtypes.NewMsgSetExecutionFee(m.W.Ty, m.W.E, m.W.F, 0, 0, from)
			}
			return govtypes.NewMsgSetExecutionFee("send", 7, 3, 0, 0, from)
		case "upsert_token_info":
			if m.W != nil {
				return tokenstypes.NewMsgUpsertTokenInfo(from, m.W.Denom, "adr20", m.W.Rate, m.W.Enabled, sdk.ZeroInt(), sdk.ZeroInt(), sdk.NewDecWithPrec(10, 2), sdk.OneInt(), false, false,
					strings.ToUpper(m.W.Denom), m.W.Denom, "", 6, "", "", "", 0, sdk.ZeroInt(), "", false, "", "")
			}
			return tokenstypes.NewMsgUpsertTokenInfo(from, "ubar", "adr20", sdk.NewDec(2), true, sdk.ZeroInt(), sdk.ZeroInt(), sdk.NewDecWithPrec(10, 2), sdk.OneInt(), false, false,
				"BAR", "bar", "", 6, "", "", "", 0, sdk.ZeroInt(), "", false, "", "")
		}
	}
	panic("cannot build message " + m.Kind + "/" + m.Ty)
}

func (m M) Coq() string {
	switch m.Kind {
	case "send":
		return fmt.Sprintf("MSend %s %s %s", hx.Str(m.From), hx.Str(m.To), CoinsCoq(m.Amt))
	case "multisend":
		var outs []string
		for _, o := range m.Outs {
			outs = append(outs, hx.Pair(hx.Str(o.To), CoinsCoq(o.Amt)))
		}
		return fmt.Sprintf("MMulti %s %s %s", hx.Str(m.From), CoinsCoq(m.Amt), hx.List(outs))
	case "custody_send":
		return fmt.Sprintf("MCustody %s %s %s %s", hx.Str(m.From), hx.Str(m.To), CoinsCoq(m.Amt), CoinsCoq(m.Reward))
	case "eth":
		return fmt.Sprintf("MEth %s %s %d", hx.Str(m.From), hx.Str(m.To), m.EthAmt)
	default:
		return fmt.Sprintf("MOther %s [%s] %s %s", hx.Str(m.Ty), hx.Str(m.From), hx.B(m.Fails), hx.Str(m.Mark))
	}
}

func (m M) JSON() map[string]interface{} {
	j := map[string]interface{}{"type": m.Type(), "from": m.From}
	switch m.Kind {
	case "send", "custody_send":
		j["to"] = m.To
		j["amount"] = sdk.Coins(m.Amt).String()
		if m.Kind == "custody_send" {
			j["reward"] = sdk.Coins(m.Reward).String()
		}
	case "eth":
		j["to"] = m.To
		j["native_amount"] = m.EthAmt
		j["wei_remainder"] = m.EthRem
		j["raw_tx_nonce"] = m.Nonce
	case "multisend":
		j["input"] = sdk.Coins(m.Amt).String()
		var outs []string
		for _, o := range m.Outs {
			outs = append(outs, o.To+":"+o.Amt.String())
		}
		j["outputs"] = outs
	default:
		j["handler_fails_by_construction"] = m.Fails
		j["key"] = m.Mark
		if m.W != nil {
			j["writes_configuration"] = m.W.Coq()
		}
	}
	return j
}

// Signers of a message list in order of first appearance (one signer per message here).
func Signers(ms []M) []string {
	var out []string
	seen := map[string]bool{}
	for _, m := range ms {
		if !seen[m.From] {
			seen[m.From] = true
			out = append(out, m.From)
		}
	}
	return out
}

// ---------------------------------------------------------------- transactions

type TxSpec struct {
	Fee   []sdk.Coin // raw, possibly not canonical
	Msgs  []M
	Seqs  []uint64 // sequence each signer signs with
	SigOK bool     // false: the first signature is made over a different chain id
	Payer string   // explicit fee payer ("" = none)
	NoGas bool     // gas limit 0
	Grant bool     // a fee granter is named
}

// SignersOf: message signers in order of first appearance, then the explicit fee payer.
func SignersOf(t TxSpec) []string {
	out := Signers(t.Msgs)
	if t.Payer != "" {
		for _, s := range out {
			if s == t.Payer {
				return out
			}
		}
		out = append(out, t.Payer)
	}
	return out
}

func (t TxSpec) Coq() string {
	ms := make([]string, len(t.Msgs))
	for i, m := range t.Msgs {
		ms[i] = m.Coq()
	}
	sq := make([]string, len(t.Seqs))
	for i, s := range t.Seqs {
		sq[i] = hx.ZU(s)
	}
	gas := 200000
	if t.NoGas {
		gas = 0
	}
	return fmt.Sprintf("(mkTx %s %s %s %s %s %d %s)", CoinsCoq(t.Fee), hx.List(ms), hx.List(sq), hx.B(t.SigOK), hx.Str(t.Payer), gas, hx.B(t.Grant))
}

func (t TxSpec) JSON() map[string]interface{} {
	var ms []interface{}
	for _, m := range t.Msgs {
		ms = append(ms, m.JSON())
	}
	fee := make([]string, len(t.Fee))
	for i, c := range t.Fee {
		fee[i] = c.Amount.String() + c.Denom
	}
	return map[string]interface{}{"fee": fee, "msgs": ms, "signed_sequences": t.Seqs, "signature_valid": t.SigOK, "fee_payer": t.Payer, "zero_gas": t.NoGas, "fee_granter_set": t.Grant}
}

// BuildTx signs t with the signers' keys (SIGN_MODE_DIRECT), chain id chainID.
func (e *Env) BuildTx(t TxSpec, chainID string) (xauthsigning.Tx, []byte, error) {
	b := e.TxCfg.NewTxBuilder()
	var msgs []sdk.Msg
	sgn := SignersOf(t)
	for _, m := range t.Msgs {
		if m.Kind == "eth" { // the raw transaction's nonce is the sequence its signer signs with
			for i, n := range sgn {
				if n == m.From && i < len(t.Seqs) {
					m.Nonce = t.Seqs[i]
					if i == 0 && !t.SigOK {
						m.Forged = true
					}
				}
			}
		}
		msgs = append(msgs, e.Build(m))
	}
	if err := b.SetMsgs(msgs...); err != nil {
		return nil, nil, err
	}
	b.SetFeeAmount(t.Fee)
	b.SetGasLimit(200000)
	if t.NoGas {
		b.SetGasLimit(0)
	}
	if t.Payer != "" {
		b.SetFeePayer(e.AddrOf(t.Payer))
	}
	if t.Grant {
		b.SetFeeGranter(e.Accs[0].Addr)
	}
	names := SignersOf(t)
	var accs []*Acc
	for _, n := range names {
		for _, a := range e.Accs {
			if a.Name == n {
				accs = append(accs, a)
			}
		}
	}
	if len(accs) != len(names) || len(t.Seqs) != len(names) {
		return nil, nil, fmt.Errorf("signers/sequences mismatch")
	}
	mode := e.TxCfg.SignModeHandler().DefaultMode()
	var sigs []signing.SignatureV2
	for i, a := range accs {
		sigs = append(sigs, signing.SignatureV2{PubKey: a.Priv.PubKey(), Data: &signing.SingleSignatureData{SignMode: mode}, Sequence: t.Seqs[i]})
	}
	if err := b.SetSignatures(sigs...); err != nil {
		return nil, nil, err
	}
	sigs = nil
	for i, a := range accs {
		cid := chainID
		if !t.SigOK && i == 0 {
			cid = chainID + "-forged"
		}
		if a.Eth {
			// the raw Ethereum transaction inside the message is the authentication; the slot carries filler
			sigs = append(sigs, signing.SignatureV2{PubKey: a.Priv.PubKey(), Data: &signing.SingleSignatureData{SignMode: mode, Signature: make([]byte, 65)}, Sequence: t.Seqs[i]})
			continue
		}
		sd := xauthsigning.SignerData{ChainID: cid, AccountNumber: a.Num, Sequence: t.Seqs[i]}
		s, err := clienttx.SignWithPrivKey(mode, sd, b, a.Priv, e.TxCfg, t.Seqs[i])
		if err != nil {
			return nil, nil, err
		}
		sigs = append(sigs, s)
	}
	if err := b.SetSignatures(sigs...); err != nil {
		return nil, nil, err
	}
	bz, err := e.TxCfg.TxEncoder()(b.GetTx())
	if err != nil {
		return nil, nil, err
	}
	return b.GetTx(), bz, nil
}

// ---------------------------------------------------------------- observers

type Snapshot struct {
	Bal   map[string]sdk.Coins // account name -> balances
	Store map[string]string    // store/hexkey -> hex value
}

func (e *Env) Balances(ctx sdk.Context, names []string) map[string]sdk.Coins {
	out := map[string]sdk.Coins{}
	for _, n := range names {
		out[n] = e.App.BankKeeper.GetAllBalances(ctx, e.AddrOf(n))
	}
	return out
}

func (e *Env) StoreKeys() map[string]storetypes.StoreKey {
	rs := e.App.CommitMultiStore().(*rootmulti.Store)
	out := map[string]storetypes.StoreKey{}
	for n, k := range rs.StoreKeysByName() {
		if _, ok := k.(*storetypes.KVStoreKey); ok {
			out[n] = k
		}
	}
	return out
}

func (e *Env) Dump(ctx sdk.Context) map[string]string {
	out := map[string]string{}
	for n, k := range e.StoreKeys() {
		it := ctx.MultiStore().GetKVStore(k).Iterator(nil, nil)
		for ; it.Valid(); it.Next() {
			out[n+"/"+hex.EncodeToString(it.Key())] = hex.EncodeToString(it.Value())
		}
		it.Close()
	}
	return out
}

// DiffClasses: the keys that differ between two dumps, classified as (kind, who, what) triples.
func (e *Env) DiffClasses(a, b map[string]string) [][3]string {
	set := map[[3]string]bool{}
	add := func(k string) {
		set[e.classify(k)] = true
	}
	for k, v := range a {
		if w, ok := b[k]; !ok || w != v {
			add(k)
		}
	}
	for k := range b {
		if _, ok := a[k]; !ok {
			add(k)
		}
	}
	var out [][3]string
	for c := range set {
		out = append(out, c)
	}
	sort.Slice(out, func(i, j int) bool {
		for x := 0; x < 3; x++ {
			if out[i][x] != out[j][x] {
				return out[i][x] < out[j][x]
			}
		}
		return false
	})
	return out
}

func (e *Env) classify(k string) [3]string {
	i := strings.Index(k, "/")
	store, hk := k[:i], k[i+1:]
	key, _ := hex.DecodeString(hk)
	other := func() [3]string {
		p := hk
		if len(p) > 8 {
			p = p[:8]
		}
		return [3]string{"other", store, p}
	}
	switch store {
	case banktypes.StoreKey:
		if len(key) > 2 && key[0] == 0x02 { // BalancesPrefix | len | addr | denom
			n := int(key[1])
			if len(key) >= 2+n {
				return [3]string{"bal", e.NameOf(key[2 : 2+n]), string(key[2+n:])}
			}
		}
		if len(key) > 1 && key[0] == 0x03 { // DenomAddressPrefix | denom | 0 | len | addr
			j := strings.IndexByte(string(key[1:]), 0)
			if j >= 0 && len(key) > 1+j+2 {
				return [3]string{"bal", e.NameOf(key[1+j+2:]), string(key[1 : 1+j])}
			}
		}
		if len(key) > 1 && key[0] == 0x00 {
			return [3]string{"supply", "", string(key[1:])}
		}
		return other()
	case authtypes.StoreKey:
		if len(key) > 1 && key[0] == 0x01 {
			return [3]string{"acct", e.NameOf(key[1:]), ""}
		}
		if strings.HasPrefix(string(key), "globalAccountNumber") {
			return [3]string{"acctnum", "", ""}
		}
		if strings.HasPrefix(string(key), "accountNumber") {
			return [3]string{"acctnum", "", ""}
		}
		return other()
	case feetypes.ModuleName:
		if string(key) == string(feetypes.KeyExecutionStatus) {
			return [3]string{"exec", "", ""}
		}
		if strings.HasPrefix(string(key), string(feetypes.KeyFeePaymentHistory)) {
			return [3]string{"hist", e.NameOf(key[len(feetypes.KeyFeePaymentHistory):]), ""}
		}
		return other()
	case custodytypes.StoreKey:
		if strings.HasPrefix(string(key), custodytypes.PrefixKeyCustodyLimitsStatus) {
			return [3]string{"custody_limit", "", ""}
		}
		return other()
	}
	return other()
}

func DiffCoq(d [][3]string) string {
	xs := make([]string, len(d))
	for i, t := range d {
		xs[i] = hx.Tuple(hx.Str(t[0]), hx.Str(t[1]), hx.Str(t[2]))
	}
	return hx.List(xs)
}

// Deltas: non-zero balance differences per (account, denom), sorted.
func Deltas(before, after map[string]sdk.Coins) [][3]string {
	var out [][3]string
	var names []string
	for n := range before {
		names = append(names, n)
	}
	sort.Strings(names)
	for _, n := range names {
		ds := map[string]bool{}
		for _, c := range before[n] {
			ds[c.Denom] = true
		}
		for _, c := range after[n] {
			ds[c.Denom] = true
		}
		var dl []string
		for d := range ds {
			dl = append(dl, d)
		}
		sort.Strings(dl)
		for _, d := range dl {
			x := after[n].AmountOf(d).Sub(before[n].AmountOf(d))
			if !x.IsZero() {
				out = append(out, [3]string{n, d, x.String()})
			}
		}
	}
	return out
}

func DeltasCoq(d [][3]string) string {
	xs := make([]string, len(d))
	for i, t := range d {
		z := t[2]
		if strings.HasPrefix(z, "-") {
			z = "(" + z + ")"
		}
		xs[i] = hx.Pair(hx.Pair(hx.Str(t[0]), hx.Str(t[1])), z)
	}
	return hx.List(xs)
}

// BalsCoq: all balances of the named accounts as ((account, denom), amount) bindings.
func BalsCoq(b map[string]sdk.Coins) string {
	var names []string
	for n := range b {
		names = append(names, n)
	}
	sort.Strings(names)
	var xs []string
	for _, n := range names {
		for _, c := range b[n] {
			xs = append(xs, hx.Pair(hx.Pair(hx.Str(n), hx.Str(c.Denom)), hx.ZInt(c.Amount)))
		}
	}
	return hx.List(xs)
}

// AcctsCoq: (name, (sequence, has pubkey)) for the named accounts that exist.
func (e *Env) AcctsCoq(ctx sdk.Context, names []string) string {
	var xs []string
	for _, n := range names {
		a := e.App.AccountKeeper.GetAccount(ctx, e.AddrOf(n))
		if a == nil {
			continue
		}
		xs = append(xs, hx.Pair(hx.Str(n), hx.Pair(hx.ZU(a.GetSequence()), hx.B(a.GetPubKey() != nil))))
	}
	return hx.List(xs)
}

// ExecsCoq: the feeprocessing execution-status list as (type, payer name, success).
func (e *Env) ExecsCoq(ctx sdk.Context) string {
	var xs []string
	for _, x := range e.App.FeeProcessingKeeper.GetExecutionsStatus(ctx) {
		xs = append(xs, hx.Tuple(hx.Str(x.MsgType), hx.Str(e.NameOf(x.FeePayer)), hx.B(x.Success)))
	}
	return hx.List(xs)
}

// HistsCoq: fee payment history of the named accounts (non-empty ones).
func (e *Env) HistsCoq(ctx sdk.Context, names []string) string {
	var xs []string
	for _, n := range names {
		h := e.App.FeeProcessingKeeper.GetSenderCoinsHistory(ctx, e.AddrOf(n))
		if len(h) > 0 {
			xs = append(xs, hx.Pair(hx.Str(n), CoinsCoq(h)))
		}
	}
	return hx.List(xs)
}

// MarksPresent: which of the keys written by "other" messages exist in the gov identity registry.
func (e *Env) MarksPresent(ctx sdk.Context, ms []M) []string {
	var out []string
	for _, m := range ms {
		if m.Kind == "other" && m.Mark != "" {
			if e.App.CustomGovKeeper.GetIdentityRecordIdByAddressKey(ctx, e.AddrOf(m.From), m.Mark) != 0 {
				out = append(out, m.Mark)
			}
		}
	}
	return out
}

func StrListCoq(xs []string) string { return strList(xs) }

// ---------------------------------------------------------------- coin sets

// CoinSet: 1..3 coins mixing native / foreign / frozen-prone denominations (the set `must`, when
// given, is always part of it).  The native amount is steered to limit-1 / limit / limit+1.
// Mostly canonical (sorted, distinct); sometimes left reversed or with a duplicated denomination
// (Msg.ValidateBasic must refuse those).
func CoinSet(r *hx.Rng, limit uint64, must string) sdk.Coins {
	n := 1
	switch x := r.Intn(100); {
	case x >= 80:
		n = 3
	case x >= 45:
		n = 2
	}
	chosen := map[string]bool{}
	if must != "" {
		chosen[must] = true
	}
	for len(chosen) < n {
		chosen[Denoms[r.Intn(len(Denoms))]] = true
	}
	var ds []string
	for d := range chosen {
		ds = append(ds, d)
	}
	sort.Strings(ds)
	var cs sdk.Coins
	for _, d := range ds {
		amt := int64(1 + r.Intn(2000))
		if d == "ukex" && r.Chance(70) {
			amt = int64(limit) + int64(r.Intn(3)) - 1
			if amt <= 0 {
				amt = 1
			}
		}
		cs = append(cs, sdk.NewInt64Coin(d, amt))
	}
	switch x := r.Intn(100); {
	case x < 5 && len(cs) > 1: // reversed: not canonical
		for i, j := 0, len(cs)-1; i < j; i, j = i+1, j-1 {
			cs[i], cs[j] = cs[j], cs[i]
		}
	case x < 8: // duplicated denomination
		cs = append(cs, cs[len(cs)-1])
	}
	return cs
}

// SplitOutputs distributes a canonical coin set over 1..3 recipients (every output non-empty, the
// outputs sum to the input); a non-canonical set goes to one recipient unchanged.
func SplitOutputs(r *hx.Rng, cs sdk.Coins, people []string) []Out {
	if !cs.IsValid() {
		return []Out{{To: people[r.Intn(len(people))], Amt: cs}}
	}
	k := 1 + r.Intn(3)
	outs := make([]sdk.Coins, k)
	for _, c := range cs {
		i := r.Intn(k)
		if c.Amount.GT(sdk.OneInt()) && k > 1 && r.Bool() {
			h := c.Amount.QuoRaw(2)
			j := (i + 1) % k
			outs[i] = outs[i].Add(sdk.NewCoin(c.Denom, h))
			outs[j] = outs[j].Add(sdk.NewCoin(c.Denom, c.Amount.Sub(h)))
		} else {
			outs[i] = outs[i].Add(c)
		}
	}
	var res []Out
	for _, o := range outs {
		if !o.IsZero() {
			res = append(res, Out{To: people[r.Intn(len(people))], Amt: o})
		}
	}
	return res
}

// ---------------------------------------------------------------- the shared freeze-configuration sweep

// FreezeCase: one corner of {blacklist switch, whitelist switch} x {blacklist: empty / the token /
// another token / both} x {whitelist: the same four} x {token: native, foreign fee-enabled, foreign
// not fee-enabled}.  Used by every clause of C09 and C14 (send, multi-send, custody send, Ethereum
// native send, fee coin).
type FreezeCase struct {
	Cfg   *Cfg
	Token string
	Fee   sdk.Coin // a fee in Token whose value is 150..500 at the registered rate
	Tag   string
}

func FreezeSweep(base func() *Cfg) []FreezeCase {
	var out []FreezeCase
	other := "frozen"
	mk := func(v int, tok string, flip bool) []string {
		switch v {
		case 1:
			return []string{tok}
		case 2:
			return []string{other}
		case 3:
			if flip {
				return []string{tok, other}
			}
			return []string{other, tok}
		}
		return nil
	}
	for sw := 0; sw < 4; sw++ {
		for bl := 0; bl < 4; bl++ {
			for wl := 0; wl < 4; wl++ {
				for ti, tok := range []string{"ukex", "ubtc", "xeth", IbcDenom, MixDenom, "UBTC", "UKEX", "FROZEN"} {
					c := base()
					c.Tokens = []Tok{{"ukex", sdk.NewDec(1), true}, {"ubtc", sdk.NewDec(10), true}, {"xeth", sdk.NewDecWithPrec(1, 1), false}, {"frozen", sdk.NewDecWithPrec(1, 1), true},
						{IbcDenom, sdk.NewDec(2), true}, {MixDenom, sdk.NewDecWithPrec(5, 1), false}}
					c.EnBlack, c.EnWhite = sw&1 != 0, sw&2 != 0
					c.Black, c.White = mk(bl, tok, (bl+wl)%2 == 0), mk(wl, tok, (bl+wl)%2 == 1)
					c.Foreign = true
					c.ViaGov = (sw+bl+wl+ti)%3 == 0 || tok == IbcDenom || tok == MixDenom // case-sensitive denoms always go through the proposal handlers
					fee := sdk.NewInt64Coin("ukex", 150)
					switch tok {
					case IbcDenom:
						fee = sdk.NewInt64Coin(IbcDenom, 100)
					case MixDenom:
						fee = sdk.NewInt64Coin(MixDenom, 400)
					case "UBTC": // unregistered look-alike of the fee-enabled ubtc (rate 10)
						fee = sdk.NewInt64Coin("UBTC", 20)
					case "UKEX": // unregistered look-alike of the native token
						fee = sdk.NewInt64Coin("UKEX", 150)
					case "FROZEN": // unregistered look-alike of the blacklistable token "frozen" (the sweep's other list entry)
						fee = sdk.NewInt64Coin("FROZEN", 3000)
					case "ubtc":
						fee = sdk.NewInt64Coin("ubtc", 20)
					case "xeth":
						fee = sdk.NewInt64Coin("xeth", 3000)
					}
					out = append(out, FreezeCase{Cfg: c, Token: tok, Fee: fee,
						Tag: fmt.Sprintf("freeze-sweep:black_on=%v:white_on=%v:blacklist=%d:whitelist=%d:%s", c.EnBlack, c.EnWhite, bl, wl, tok)})
				}
			}
		}
	}
	return out
}

// ---------------------------------------------------------------- the denominations one case is about

// Rel collects the denominations a case touches (fee, message coins, observed changes, the native
// token); balances and balance comparisons are emitted for these only.
type Rel map[string]bool

func NewRel() Rel { return Rel{"ukex": true} }
func (r Rel) AddCoins(cs []sdk.Coin) {
	for _, c := range cs {
		r[c.Denom] = true
	}
}
func (r Rel) AddTx(t TxSpec) {
	r.AddCoins(t.Fee)
	for _, m := range t.Msgs {
		r.AddCoins(m.Amt)
		r.AddCoins(m.Reward)
		for _, o := range m.Outs {
			r.AddCoins(o.Amt)
		}
	}
}
func (r Rel) AddDeltas(d [][3]string) {
	for _, x := range d {
		r[x[1]] = true
	}
}
func (r Rel) List() []string {
	var out []string
	for d := range r {
		out = append(out, d)
	}
	sort.Strings(out)
	return out
}

// BalsCoqFor: like BalsCoq, restricted to the denominations of rel.
func BalsCoqFor(b map[string]sdk.Coins, rel Rel) string {
	f := map[string]sdk.Coins{}
	for n, cs := range b {
		for _, c := range cs {
			if rel[c.Denom] {
				f[n] = append(f[n], c)
			}
		}
		if _, ok := f[n]; !ok {
			f[n] = sdk.Coins{}
		}
	}
	return BalsCoq(f)
}
