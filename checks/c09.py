"""C09 -- fees: charged exactly as declared, within bounds; failed work leaves no trace.
Hand-written Coq model of the ante chain / runTx layering / fee return (Model/Fees.v), tied to the
tree by Gen/AnteChain.v (translator) and an ABCI-level differential run of the real application;
spec checker (Model/C09Check.v) evaluated in Coq on the real observations."""
import json, os

FILES = ["Base/Prelude.v", "Base/Dec.v", "Model/Filters.v", "Model/Fees.v", "Gen/AnteChain.v", "Model/C09Check.v",
         "Proofs/Filters.v", "Proofs/Fees.v"]


def observe(R, n, seed=None):
    env = {"VERIF_SEED": str(seed)} if seed is not None else None
    out = R.harness("c09", ["-n", n], env=env, outdir=os.path.join(R.work, "c09_%s" % (seed if seed is not None else "main")))
    if not out:
        return None
    res = R.coq_cases(out, label="C09 correspondence")
    if res is None:
        return None
    mism, viol, total = res
    cases = json.load(open(os.path.join(out, "cases.json")))
    return out, mism, viol, total, cases


def report(R, viol, cases):
    for idx, clauses in viol:
        for cl in clauses:
            R.violation(cl, "real application violates clause %s on %s" % (cl, json.dumps(cases[idx])[:6000]), cases[idx])


def ghost_ledger_over_blocks(R, cases):
    """Cumulative ledger over the whole ABCI run, kept by the check itself (never read from the
    application's stored payment history): per payer and denomination, what was paid as fees by
    admitted transactions vs. what end-of-block returns credited.  refunds <= payments, always."""
    import re
    paid, recv = {}, {}
    for c in cases:
        if c.get("kind") != "block":
            continue
        for t in c["txs"]:
            if t["class"] in (0, 2, 4):
                tx = t["tx"]
                payer = tx.get("fee_payer") or tx["msgs"][0]["from"]
                for coin in tx["fee"]:
                    m = re.match(r"(-?\d+)(.*)$", coin)
                    if m and int(m.group(1)) > 0:
                        paid[(payer, m.group(2))] = paid.get((payer, m.group(2)), 0) + int(m.group(1))
        for who, denom, x in (c.get("end_block_deltas") or []):
            if who != "fee_collector" and int(x) > 0:
                recv[(who, denom)] = recv.get((who, denom), 0) + int(x)
                if recv[(who, denom)] > paid.get((who, denom), 0):
                    R.violation("refund_le_paid:cumulative-over-blocks",
                                "by height %s account %s has been returned %d%s in total but paid only %d%s in fees" % (c.get("height"), who, recv[(who, denom)], denom, paid.get((who, denom), 0), denom), c)
                    return


def run(R):
    R.trusted += ["translator harness/cmd/gen_ante (go/ast over app/ante/ante.go, app/app.go: decorator order, loop shapes, keeper handed to the fee deduction, post handler)",
                  "cosmos-sdk baseapp runTx cache layering, x/auth DeductFeeDecorator, x/bank SendCoins are MODELLED (Model/Fees.v run_tx, deduct, bank_send) and validated by the ABCI-level differential run, not verified",
                  "sdk.Dec Mul/Add model (Base/Dec.v), uint64 wrap and int64 casts (Base/Prelude.v)",
                  "no axioms: every theorem of Properties/C09.v is closed under the global context"]
    R.assume += ["signatures: crypto is an input of the model (t_sig_ok); the harness makes real secp256k1 signatures and forges some",
                 "custody records of signers have UsePassword / UseWhiteList / UseLimits off (the custody arms for bank send / custody send and the nil-custodians panic are modelled); explicit fee payer, zero gas and a named fee granter are modelled and driven",
                 "message handlers other than bank send / multi-send / custody send / Ethereum native send are represented by their outcome (fails / writes one key)",
                 "token rates are non-negative (MsgUpsertTokenInfo requires a positive rate)"]
    R.gen("gen_ante", "AnteChain.v")
    try:
        import lib.vlib as _v
    except Exception:
        import vlib as _v
    try:
        g = open(os.path.join(_v.COQ, "Gen", "AnteChain.v")).read()
        wired = "gen_wired : bool := true" in g
        post = "gen_post_handler_installed : bool := true" in g
        R.coverage["wiring"] = {"fee_deduction_uses_feeprocessing_keeper": wired, "post_handler_installed": post,
                                "refund_path": "live: refunds are exercised by the differential run and bounded by C09_refunds_le_payments_over_histories" if wired
                                else "dead: C09_refund_path_dead_when_unwired / C09_end_block_returns_nothing_when_unwired apply (no payment history is ever recorded)"}
    except Exception as ex:
        R.note("cannot read wiring", ex)
    R.coq_files(FILES)
    R.coq_property()
    R.audit()
    if R.tier == "thorough" and hasattr(R, "coqchk"):
        R.coqchk()
    n = 150 if R.tier == "quick" else 2500
    obs = observe(R, n)
    total = 0
    if obs:
        out, mism, viol, total, cases = obs
        R.oblige("correspondence: model = real application (DeliverTx class, balance deltas, signer accounts, execution list, marks, end-block, pay-back) on %d cases" % total,
                 not mism, "first mismatching cases: " + json.dumps([cases[i] for i in mism[:3]])[:6000])
        report(R, viol, cases)
        ghost_ledger_over_blocks(R, cases)
        R.samples = [cases[0], cases[len(cases) // 3], cases[-1]]
        dist = json.load(open(os.path.join(out, "dist.json")))
        ntx = sum(v for k, v in dist["by_kind"].items() if k.startswith("tx:class"))
        R.coverage.update({"traces_validated_against_impl": total, "input_distribution": dist, "transactions_delivered": ntx,
                           "rule": "a case is one block (random token registry / fee properties / execution-fee table / custody records, 1-3 signed transactions incl. Ethereum native sends, explicit fee payers, zero gas, with a failing message at a random position), one pay-back call over a random payment history, or one whole payment/refund/execution/block-end history of 2-3 payers on the real feeprocessing keeper judged by the checker's own ghost ledger"})
    if R.broken and not R.violations:
        for s in range(100, 104):
            o2 = observe(R, 1200, seed=R.seed + s)
            if o2:
                _, _, viol2, t2, cases2 = o2
                total += t2
                report(R, viol2, cases2)
                if viol2 and R.violations:
                    break
    R.finish(level="proof", technique="Coq proof over a hand-written model of the ante chain, runTx layering and fee return; translator for the chain shape; ABCI-level differential run; spec checker vm_computed on real observations",
             extra={"evaluations": total})
