"""C13 -- monetary policy bounds.  Hand-written Coq model of block inflation (x/distributor), UBI
(x/ubi), the token registry (x/tokens) and the layer2 mint/burn messages + proofs over whole
histories; mint/burn call-site table regenerated from the source tree (gen_mintburn); differential
run of the real keepers / msg servers / proposal handlers / block handlers against the model and
against a Coq spec checker evaluated on the real observations."""
import json, os

FILES = ["Base/Prelude.v", "Base/Dec.v", "Model/Monetary.v", "Model/C13Check.v", "Gen/MintBurn.v", "Proofs/Monetary.v", "Proofs/MonetarySound.v"]
U64 = 1 << 64
YEAR = 31556952


def observe(R, n, seed=None):
    env = {"VERIF_SEED": str(seed)} if seed is not None else None
    out = R.harness("c13", ["-n", n], env=env, outdir=os.path.join(R.work, "c13_%s" % (seed if seed is not None else "main")))
    if not out:
        return None
    res = R.coq_cases(out, label="C13 correspondence")
    if res is None:
        return None
    mism, viol, total = res
    cases = json.load(open(os.path.join(out, "cases.json")))
    return out, mism, viol, total, cases


def sig_of(case, clause):
    """signature = clause : operation kind : the distinguishing feature of the failing input"""
    name, step = clause.split("@")
    step = int(step)
    op = case["ops"][step]
    a, kind = op.get("args", {}), op["kind"]
    feat = "-"
    if name == "origin":
        feat = a.get("denom", "-")
        if feat == "ukex":
            feat = "native"
    elif name == "ubi_cap":
        recs = (op.get("obs") or {}).get("records") or []
        wrap = any(u["amount"] * YEAR >= U64 for u in recs) or sum(u["amount"] * YEAR // u["period"] for u in recs if u["period"]) >= U64
        feat = "u64-wrap" if wrap else "no-wrap"
    elif name == "ubi_payout":
        recs = (op.get("obs") or {}).get("ubi_records_before") or []
        feat = "period-wrap" if any(u["last"] + u["period"] >= U64 for u in recs) else "no-wrap"
    elif name == "owner_cap":
        cap, before = int(a.get("cap", "0")), int(a.get("cap_before", "0"))
        feat = "negative-cap" if cap < 0 else ("zero-cap" if cap == 0 else ("raised" if cap > before else "other"))
    elif name == "cap_hist" and kind != "mint_issue_x2_one_tx":
        d = a.get("denom")
        neg = any(o["kind"] == "upsert_msg" and o["res"] == "ok" and o["args"].get("denom") == d and int(o["args"].get("cap", "0")) < 0
                  for o in case["ops"][:step])
        feat = "after-negative-cap" if neg else "other"
    elif name in ("cap", "cap_hist") and kind == "mint_issue_x2_one_tx":
        feat = "sum-of-two-mints"
    elif name in ("reg_tracks", "cap", "reject", "gate", "owner_only"):
        feat = a.get("denom", "-") if kind != "block" else "native"
        if feat == "ukex":
            feat = "native"
    elif name.startswith("genesis_"):
        feat = "round-trip"
    elif name in ("ubi_gate", "ubi_mints"):
        recs = (op.get("obs") or {}).get("ubi_records_before") or []
        mints = (op.get("obs") or {}).get("ubi_mints_in_order") or []
        feat = "%d-mints-of-%d-records" % (len(mints), len(recs))
    elif name in ("infl_target", "annual_gate", "snapshot"):
        feat = "dt%s" % ("-long" if a.get("dt", 0) > 2592000 else "-short")
    return "%s:%s:%s" % (name, kind, feat), step


def report(R, cases, viol):
    unparsed = [idx for idx, clauses in viol if not clauses]
    if unparsed:  # a flagged history whose clause names could not be read back must never pass silently
        R.oblige("spec checker output readable (clause names of flagged histories)", False, "histories %s flagged without clause names" % unparsed[:10])
    for idx, clauses in viol:
        for c in clauses:
            sig, step = sig_of(cases[idx], c)
            case = cases[idx]
            R.violation(sig, "real code violates clause %s at step %d (%s) of history %d [%s]: %s" % (
                c.split("@")[0], step, case["ops"][step]["kind"], idx, case["kind"], json.dumps(case["ops"][step])[:600]),
                {"history": idx, "kind": case["kind"], "init": case["init"], "failing_step": step, "ops": case["ops"][:step + 1]})


def run(R):
    R.trusted += ["hand-written model coq/Model/Monetary.v of AllocateTokens / InflationPossible / distributor EndBlocker snapshots / ubi proposal handler + EndBlocker + ProcessUBIRecord / tokens keeper + msg server + proposal handler / layer2 MintIssueTx + MintBurnTx, tied to the code by the differential run",
                  "Base/Dec.v model of sdk.Dec Mul/Quo/MulInt/TruncateInt (banker's rounding, 315-bit overflow panic), Base/Prelude.v wrap64 / as_int64",
                  "translator harness/cmd/gen_mintburn (go/ast; call sites x.MintCoins / x.BurnCoins with 3 arguments, keeper resolved from struct field declarations; five guard shapes matched as normalised source text against the two shapes the model knows, anything else is a translator error); the reviewed classification table sanctioned_sites in Proofs/Monetary.v",
                  "no axioms: every theorem of Properties/C13.v is closed under the global context"]
    R.assume += ["KV store / protobuf round trips are faithful (observed through the keepers' getters in the differential run)",
                 "sdk.Int values stay below 2^256 (no Int overflow panic modelled); balances of module accounts are not modelled",
                 "transaction / proposal atomicity: a rejected or panicking operation leaves no trace (the harness runs every operation on a cache context and commits on success only)",
                 "block = distributor BeginBlocker, ubi EndBlocker, distributor EndBlocker (the only block handlers that mint the native token: C13_mint_sites_sanctioned); proposer unknown to x/staking, so reward distribution moves no supply",
                 "initial state: the genesis UBI record alone (6,087,375 per year) exceeds the default UbiHardcap 6,000,000 and ubi InitGenesis does not validate it; the property constrains acceptance, so the check does not flag the initial state -- it reports it in coverage.initial_state, and C13_ubi_over_cap_rejects states what follows (nothing more is accepted until the cap is raised or a record removed)",
                 "burns: registry BurnCoins keeps recorded - bank supply constant (C13_registry_supply_tracks_mints covers OBurn); the two multistaking share-token burns go to the bank directly (C13_mint_sites_sanctioned: burns_bypassing_registry), so the recorded supply of v<id>/ share tokens is only an upper bound of their bank supply -- growth still equals registry mints",
                 "annual gate read as: no minting in a block that STARTS with growth >= maxann * monthIndex / 12 + 2e-18 over the year-start snapshot (monthIndex not capped at 12, as in the code)",
                 "inflation bound read with ceiling: target <= snapshot + ceil(snapshot * rate * dt / period); the floor form is refuted by half-even rounding (C13_inflation_le_floor_target_refuted)"]
    R.gen("gen_mintburn", "MintBurn.v")
    R.coq_files(FILES)
    R.coq_property()
    R.audit()
    if R.tier == "thorough" and hasattr(R, "coqchk"):
        R.coqchk()
    n = 300 if R.tier == "quick" else 4000
    obs = observe(R, n)
    total = 0
    if obs:
        out, mism, viol, total, cases = obs
        nops = sum(len(c["ops"]) for c in cases)
        R.oblige("correspondence: model = real block handlers / proposal handlers / msg servers on %d histories (%d operations)" % (total, nops), not mism,
                 "first mismatching histories: " + json.dumps([cases[i] for i in mism[:2]])[:6000])
        report(R, cases, viol)
        R.samples = [{"history": c["index"], "kind": c["kind"], "init": c["init"], "ops": c["ops"][:3]} for c in (cases[0], cases[2], cases[len(cases) // 2])]
        dist = json.load(open(os.path.join(out, "dist.json")))
        R.coverage.update({"traces_validated_against_impl": total, "operations": nops, "initial_state": dist.get("initial_state"),
                           "input_distribution": json.load(open(os.path.join(out, "dist.json")))})
    # a broken proof / translator / correspondence without a concrete failing input: widen the search
    if R.broken and not [v for v in R.violations]:
        for s in range(100, 103):
            o2 = observe(R, 1500, seed=R.seed + s)
            if o2:
                _, _, viol2, t2, cases2 = o2
                total += t2
                report(R, cases2, viol2)
                if viol2:
                    break
    elif R.broken:
        # known findings are present in every run; look for a NEW failing input behind the broken obligation
        import vlib  # noqa
        known = {f["sig"] for f in vlib.known_findings()["finding"] if f["property"] == R.pid}
        if all(v["sig"] in known for v in R.violations):
            for s in range(100, 103):
                o2 = observe(R, 1500, seed=R.seed + s)
                if o2:
                    _, _, viol2, t2, cases2 = o2
                    total += t2
                    before = len(R.violations)
                    report(R, cases2, viol2)
                    if any(v["sig"] not in known for v in R.violations[before:]):
                        break
    R.finish(level="proof", technique="Coq proof over a hand-written model of inflation / UBI / token registry (induction over operation histories) + translator-regenerated mint/burn call-site table + differential run of the real keepers, msg servers, proposal and block handlers; spec checker vm_computed on real observations",
             extra={"evaluations": total})
