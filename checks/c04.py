"""C04 -- supply is conserved and every module can pay what it owes.
Coq ledger + module books model with invariants over arbitrary histories; translator-generated
table of every MintCoins/BurnCoins call site and of maccPerms; ABCI-level monitor of the real
application whose observations are evaluated in Coq (ledger replay of the bank events, modelled
module operations, spec checker)."""
import json, os, re, shutil

FILES = ["Base/Prelude.v", "Base/Dec.v", "Gen/MintBurnSites.v", "Model/LedgerInv.v", "Model/C04Check.v", "Proofs/LedgerInv.v"]


def observe(R, n, blocks=8, ops=6, seed=None, tag="main"):
    env = {"VERIF_SEED": str(seed)} if seed is not None else None
    out = R.harness("c04", ["-n", n, "-blocks", blocks, "-ops", ops], env=env, outdir=os.path.join(R.work, "c04_%s" % tag))
    if not out:
        return None
    res = eval_sharded(R, out)
    if res is None:
        return None
    mism, viol, total = res
    cases = json.load(open(os.path.join(out, "cases.json")))
    return out, mism, viol, total, cases


def eval_sharded(R, out, per=6, workers=12):
    """One case is a whole history (hundreds of observations), so the histories are split into
    groups of `per` and each group is evaluated by R.coq_cases in its own directory, in parallel."""
    from concurrent.futures import ThreadPoolExecutor
    lines = [l for l in open(os.path.join(out, "cases.txt")) if l.strip()]
    groups = [(i, lines[i:i + per]) for i in range(0, len(lines), per)]
    dirs = []
    for off, chunk in groups:
        d = os.path.join(out, "g%03d" % off)
        os.makedirs(d, exist_ok=True)
        for f in ("pre.v", "meta.json"):
            shutil.copyfile(os.path.join(out, f), os.path.join(d, f))
        open(os.path.join(d, "cases.txt"), "w").write("".join(chunk))
        dirs.append((off, d))
    with ThreadPoolExecutor(max_workers=workers) as ex:
        results = list(ex.map(lambda od: (od[0], R.coq_cases(od[1], label="C04 observations (histories %d..)" % od[0])), dirs))
    if any(r is None for _, r in results):
        return None
    mism, viol, total = [], [], 0
    for off, (m, v, n) in results:
        mism += [off + i for i in m]
        viol += [(off + i, cl) for i, cl in v]
        total += n
    return sorted(mism), sorted(viol), total


def mismatch_steps(R, out, idx, cases):
    """Diagnostics for a correspondence mismatch: which steps of history idx disagree (evaluated in Coq)."""
    try:
        line = [l for l in open(os.path.join(out, "cases.txt")) if l.strip()][idx].strip()
        d = os.path.join(out, "diag")
        os.makedirs(d, exist_ok=True)
        open(os.path.join(d, "Diag.v"), "w").write(open(os.path.join(out, "pre.v")).read() +
            "\nDefinition c : c04_case := %s.\nDefinition D := Eval vm_compute in (mismatch_steps c).\nPrint D.\n" % line)
        import subprocess, vlib
        o = subprocess.run(["timeout", "300", "coqc", "-Q", vlib.COQ, "Sekai", "Diag.v"],
                           cwd=d, stdout=subprocess.PIPE, stderr=subprocess.STDOUT, text=True).stdout
        res = []
        for n, l, m in re.findall(r"\((\d+)%nat, (true|false), (true|false)\)", " ".join(o.split())):
            st = cases[idx]["steps"][int(n)]
            res.append({"step": int(n), "ledger_replay_ok": l == "true", "model_op_ok": m == "true", "kind": st["kind"], "status": st["status"], "args": st["args"], "model": st["model"], "changed": st["changed"]})
        return res or o[-1500:]
    except Exception as e:  # diagnostics only
        return "diagnostics failed: %r" % e


def culprit(case, clause):
    """the step at which the clause was raised: clauses end in ':<operation kind>'"""
    kind = clause.rsplit(":", 1)[-1]
    steps = [s for s in case["steps"] if s["kind"] == kind]
    return {"history": case["name"], "seed": case.get("seed"), "clause": clause, "accounts": case["accounts"], "denoms": case["denoms"],
            "steps_of_that_kind": steps[:6], "all_steps": [{k: s[k] for k in ("kind", "status", "args", "height")} for s in case["steps"]],
            "replay": case.get("replay")}


def report(R, viol, cases):
    for idx, clauses in viol:
        for cl in clauses:
            # signature = the clause itself: <what>:<module>:<denom class>:<operation kind that caused it>
            R.violation(cl, "real application violates %s in history %s" % (cl, cases[idx]["name"]), culprit(cases[idx], cl))


def run(R):
    R.trusted += ["translator harness/cmd/gen_mintburn4 (go/ast: every MintCoins/BurnCoins call expression in non-test files of x/ and app/, module argument resolved through imports and package-level string declarations; maccPerms literal of app/app.go)",
                  "harness/abci driver and harness/cmd/c04 observers (balances via IterateAllBalances, supply via IterateTotalSupply, module records via the keepers' own getters, bank events of each step)",
                  "no axioms: every theorem of Properties/C04.v is closed under the global context"]
    R.assume += ["bank module (cosmos-sdk v0.47.6) is modelled as journals of deltas with send/mint/burn primitives; validated on every run by replaying the bank events of each real step in the model",
                 "module operations are modelled as atomic effect lists; amounts that depend on unmodelled arithmetic (basket rates, spending-pool rates, collectives portions) are parameters of the model operations",
                 "AllocateTokens / fee refunds are modelled as paying only out of fees not already owed (guard of FcPayout/MsAllocate); the real reward path is driven by calling IncreasePoolRewards / SlashStakingPool on the deliver state",
                 "genesis export / re-import inside histories: balances, supply and every module record must round-trip, except the record classes the genesis does not carry at all (layer2 dApp bonds, collectives bonds/donations: C12's known findings), pinned in Model/C04Check.v not_exported_kinds",
                 "address rotation (both x/recovery messages) is driven but not modelled: judged by the ledger replay and the state clauses only",
                 "package-level `var ModuleName = \"...\"` declarations are taken as constants by the translator"]
    R.gen("gen_mintburn4", "MintBurnSites.v")
    R.coq_files(FILES)
    R.coq_property()
    R.audit()
    quick = R.tier == "quick"
    n, blocks, ops = (60, 8, 6) if quick else (600, 12, 8)
    total_hist, total_steps = 0, 0
    obs = observe(R, n, blocks, ops)
    if obs:
        out, mism, viol, total, cases = obs
        total_hist += total
        total_steps += sum(len(c["steps"]) for c in cases)
        R.oblige("correspondence: ledger model replays the bank events of every real step, and the modelled module operations reproduce the real balances/supply/records, on %d histories" % total,
                 not mism, "first mismatching histories: " + json.dumps([cases[i]["name"] for i in mism[:5]]) +
                 ((" ; disagreeing steps of the first: " + json.dumps(mismatch_steps(R, out, mism[0], cases))[:2500]) if mism else ""))
        if mism:
            R.note("mismatching history", cases[mism[0]]["name"], "steps:", json.dumps(mismatch_steps(R, out, mism[0], cases))[:4000])
        report(R, viol, cases)
        mid = cases[len(cases) // 2]
        R.samples = [{"history": c["name"], "steps": len(c["steps"]), "first_ops": [s["kind"] + ":" + s["status"] for s in c["steps"][14:26]]} for c in (cases[0], mid, cases[-1])]
        agg = {}
        for c in cases:
            for k, v in (c.get("ops") or {}).items():
                agg.setdefault(k.rsplit(":", 1)[0], [0, 0, 0])
                agg[k.rsplit(":", 1)[0]][0 if k.endswith(":ok") else 1] += v
        for c in cases:
            for kind in {k.rsplit(":", 1)[0] for k in (c.get("ops") or {})}:
                agg[kind][2] += 1
        R.coverage.update({"traces_validated_against_impl": total, "steps_observed": total_steps,
                           "operations_by_kind": {k: {"ok": v[0], "failed": v[1], "histories_exercising": v[2]} for k, v in sorted(agg.items())},
                           "per_history_operations": {c["name"]: c.get("ops") for c in cases},
                           "input_distribution": json.load(open(os.path.join(out, "dist.json")))})
    # a broken proof / translator / correspondence: widen the search for a concrete failing input
    if R.broken:
        import vlib
        known = {f["sig"] for f in vlib.known_findings()["finding"] if f["property"] == R.pid}
        if not [v for v in R.violations if v["sig"] not in known]:
            for s in range(100, 103):
                o2 = observe(R, 60, 12, 8, seed=R.seed + s, tag="wide%d" % s)
                if o2:
                    _, _, viol2, t2, cases2 = o2
                    total_hist += t2
                    report(R, viol2, cases2)
                    if [v for v in R.violations if v["sig"] not in known]:
                        break
    R.finish(level="proof",
             technique="Coq proof (invariants over arbitrary histories of a ledger + module-books model) + translator-generated mint/burn site table + ABCI-level monitor of the real application evaluated in Coq (event replay, modelled operations, spec checker)",
             extra={"evaluations": total_hist})


def replay(R, path):
    """Prints the recorded failing history and re-runs the monitor on the current tree."""
    data = json.load(open(path))
    print(json.dumps(data, indent=1)[:6000])
    if data.get("violations"):
        o = observe(R, 14)
        if o:
            _, mism, viol, total, cases = o
            want = {v["sig"] for v in data["violations"]}
            hit = sorted({cl for _, cls in viol for cl in cls if cl in want})
            print("replayed on the current tree: recorded signatures still violated: %s" % hit)
