"""C14 -- frozen tokens cannot move; a weak network accepts only allowed messages.
Coq model of the freeze predicate and the two message filters with the loop shape regenerated
from app/ante/ante.go (Gen/AnteChain.v); real ante handler + message handlers run over message
type x position x freeze settings x validator counts; spec checker evaluated in Coq."""
import json, os

FILES = ["Base/Prelude.v", "Base/Dec.v", "Model/Filters.v", "Model/Fees.v", "Gen/AnteChain.v", "Gen/TransferSites.v", "Model/C09Check.v",
         "Model/C14Check.v", "Proofs/Filters.v", "Proofs/Fees.v", "Proofs/C14Transfers.v"]


def observe(R, n, seed=None):
    env = {"VERIF_SEED": str(seed)} if seed is not None else None
    out = R.harness("c14", ["-n", n], env=env, outdir=os.path.join(R.work, "c14_%s" % (seed if seed is not None else "main")))
    if not out:
        return None
    res = R.coq_cases(out, label="C14 correspondence")
    if res is None:
        return None
    mism, viol, total = res
    cases = json.load(open(os.path.join(out, "cases.json")))
    return out, mism, viol, total, cases


def report(R, viol, cases):
    for idx, clauses in viol:
        for cl in clauses:
            R.violation(cl, "real ante handler violates clause %s on %s" % (cl, json.dumps(cases[idx])[:6000]), cases[idx])


def run(R):
    R.trusted += ["translator harness/cmd/gen_ante (go/ast over app/ante/ante.go: decorator order, `return next` inside the message loops, message types inspected by the freeze filter)",
                  "translator harness/cmd/gen_transfers (go/ast over x/*/keeper: every bank SendCoins call, handler, message type via Type() and types/Msg.go, origin of the coins by a syntactic rule); the reviewed table in Proofs/C14Transfers.v is hand-classified",
                  "driven transfer paths: bank MsgSend, bank MsgMultiSend, custody MsgSend (with and without custody settings), tokens MsgEthereumTx NativeSend (raw EIP-155 transactions from Ethereum-style accounts); custody release / ethereum Relay / recovery rotation / collectives are in the table but not driven",
                  "fee admission / deduction / signature decorators modelled in Model/Fees.v and validated by the differential run",
                  "no axioms: every theorem of Properties/C14.v is closed under the global context"]
    R.assume += ["the freeze lists are configured directly for most cases and, in the governance cases, changed through the REAL TokensWhiteBlackChange proposal handler (Apply) before the transaction; voting / enactment of the proposal is C08's matter; removal ('fast remove') is modelled and validated differentially, its set-level lemma is not proved",
                 "'another account' = user-to-user transfers (bank send / multi-send, custody send without custody settings); deposits into module escrow are not checked",
                 "custody records of signers have UsePassword / UseWhiteList / UseLimits off; crypto is an input of the model"]
    R.gen("gen_ante", "AnteChain.v")
    R.gen("gen_transfers", "TransferSites.v")
    R.coq_files(FILES)
    R.coq_property()
    R.audit()
    if R.tier == "thorough" and hasattr(R, "coqchk"):
        R.coqchk()
    n = 400 if R.tier == "quick" else 8000
    obs = observe(R, n)
    total = 0
    if obs:
        out, mism, viol, total, cases = obs
        R.oblige("correspondence: model = real ante handler + handlers (class, balance deltas, signer accounts, execution list) on %d transactions" % total,
                 not mism, "first mismatching cases: " + json.dumps([cases[i] for i in mism[:3]])[:6000])
        report(R, viol, cases)
        R.samples = [cases[0], cases[len(cases) // 2], cases[-1]]
        R.coverage.update({"traces_validated_against_impl": total, "input_distribution": json.load(open(os.path.join(out, "dist.json"))),
                           "rule": "a case is one signed transaction (1-3 messages of 7 kinds) through the real ante handler under a random freeze / whitelist / validator-count / allowed-list configuration; systematic sweeps: kind x position x denomination x weak/healthy; coin sets of 1-3 denominations; shared freeze-configuration sweep (switches x both lists empty/token/other/both x native/foreign fee-enabled/foreign not fee-enabled x send/multi-send/custody send/eth/fee); validator count at minimum-1/minimum/minimum+1; configuration written through the real proposal handlers in a third of the cases; add/remove x blacklist/whitelist proposals with already-listed + new tokens in every order, duplicates, native token, empty list"})
    if R.broken and not R.violations:
        for s in range(100, 104):
            o2 = observe(R, 3000, seed=R.seed + s)
            if o2:
                _, _, viol2, t2, cases2 = o2
                total += t2
                report(R, viol2, cases2)
                if viol2 and R.violations:
                    break
    R.finish(level="proof", technique="Coq proof over a model of the freeze predicate and message filters parameterised by the loop shape regenerated from ante.go; differential run of the real ante handler; spec checker vm_computed on real observations",
             extra={"evaluations": total})
