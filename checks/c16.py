"""C16 -- identity registry. Hand-written Coq model (Model/Identity.v) + proofs over all operation
histories (Proofs/Identity.v), tied to /repo by a differential run of the real gov / staking /
recovery msg servers on multi-party histories; the decidable spec checker (Model/C16Check.v) is
evaluated inside Coq on the REAL observations."""
import json, os

FILES = ["Base/Prelude.v", "Base/Dec.v", "Model/NetPropsLib.v", "Model/Identity.v", "Model/C16Check.v", "Proofs/Identity.v", "Proofs/IdentityOwner.v"]


# ---------------------------------------------------------------- pinned source (LESSONS.md 2 and 6)
# The model was written for one shape of these functions; any edit to them (or a new function in
# identity_registrar.go, or a new call site outside it that writes the identity stores) is a broken
# obligation until the change has been reviewed against the model and the pins renewed with
#   python3 -c "import sys; sys.path[:0]=['/verif','/verif/lib']; import checks.c16 as c; c.repin()"
PINFILE = os.environ.get("C16_PINFILE") or os.path.join(os.path.dirname(os.path.abspath(__file__)), "c16_pins.json")   # C16_PINFILE: pins of a reviewed candidate tree
PINNED = {
    "x/gov/keeper/identity_registrar.go": None,      # None = every function of the file
    "x/gov/keeper/keeper.go": ["Keeper.EnsureUniqueKeys", "Keeper.EnsureOldUniqueKeysNotRemoved"],
    "x/gov/keeper/msg_server.go": ["msgServer.RegisterIdentityRecords", "msgServer.DeleteIdentityRecords", "msgServer.RequestIdentityRecordsVerify",
                                   "msgServer.HandleIdentityRecordsVerifyRequest", "msgServer.CancelIdentityRecordsVerifyRequest",
                                   "msgServer.ClaimCouncilor", "msgServer.SetNetworkProperties"],
    "x/gov/proposal_handler.go": ["ApplySetNetworkPropertyProposalHandler.Apply"],
    "x/gov/types/msg.go": ["MsgRegisterIdentityRecords.ValidateBasic", "MsgDeleteIdentityRecords.ValidateBasic", "MsgRequestIdentityRecordsVerify.ValidateBasic",
                           "MsgHandleIdentityRecordsVerifyRequest.ValidateBasic", "MsgCancelIdentityRecordsVerifyRequest.ValidateBasic"],
    "x/staking/keeper/msg_server.go": ["msgServer.ClaimValidator"],
    "x/recovery/keeper/msg_server.go": ["msgServer.RotateRecoveryAddress", "msgServer.RotateValidatorByHalfRRTokenHolder"],
}
WRITERS = r"\b(SetIdentityRecord|DeleteIdentityRecordById|SetIdentityRecordsVerifyRequest|DeleteIdRecordsVerifyRequest|RegisterIdentityRecords|DeleteIdentityRecords|SetLastIdentityRecordId|SetLastIdRecordVerifyRequestId|RequestIdentityRecordsVerify|HandleIdentityRecordsVerifyRequest|CancelIdentityRecordsVerifyRequest)\("


def go_funcs(text):
    """name (receiver-qualified) -> normalised source text of every top-level func"""
    import re
    res = {}
    for m in re.finditer(r"^func\s*(\(([^)]*)\))?\s*([A-Za-z_0-9]+)\s*\(", text, re.M):
        recv = ""
        if m.group(2):
            recv = m.group(2).split()[-1].lstrip("*") + "."
        i = text.index("{", m.end())
        # skip to the body: the first '{' at parenthesis depth 0 after the signature
        depth, j = 0, m.end() - 1
        while True:
            c = text[j]
            if c == "(":
                depth += 1
            elif c == ")":
                depth -= 1
            elif c == "{" and depth == 0:
                break
            j += 1
        k, d = j, 0
        while True:
            c = text[k]
            if c == "{":
                d += 1
            elif c == "}":
                d -= 1
                if d == 0:
                    break
            k += 1
        res[recv + m.group(3)] = " ".join(text[m.start():k + 1].split())
    return res


def compute_pins(repo):
    import hashlib, re, subprocess
    pins = {}
    for f, names in PINNED.items():
        funcs = go_funcs(open(os.path.join(repo, f), errors="replace").read())
        for n in (sorted(funcs) if names is None else names):
            pins["%s:%s" % (f, n)] = hashlib.sha256(funcs.get(n, "<missing>").encode()).hexdigest()[:16]
    sites = {}
    for root, _, files in os.walk(os.path.join(repo, "x")):
        for fn in files:
            if not fn.endswith(".go") or fn.endswith("_test.go") or fn.endswith(".pb.go") or fn.endswith(".pb.gw.go"):
                continue
            path = os.path.join(root, fn)
            rel = os.path.relpath(path, repo)
            if rel == "x/gov/keeper/identity_registrar.go" or "/client/" in rel or rel.endswith("expected_keepers.go"):
                continue
            for m in re.finditer(WRITERS, open(path, errors="replace").read()):
                key = "%s:%s" % (rel, m.group(1))
                sites[key] = sites.get(key, 0) + 1
    for k, v in sites.items():
        pins["callsite:" + k] = str(v)
    return pins


def repin(repo="/repo"):
    json.dump(compute_pins(repo), open(PINFILE, "w"), indent=1, sort_keys=True)
    print("pinned", PINFILE)


def check_pins(R):
    import vlib
    try:
        want = json.load(open(PINFILE))
    except Exception as e:
        return R.oblige("pinned source of the modelled functions and of the external writers of the identity stores", False, "cannot read %s: %s" % (PINFILE, e))
    have = compute_pins(vlib.REPO)
    diff = sorted(k for k in set(want) | set(have) if want.get(k) != have.get(k))
    return R.oblige("pinned source: %d modelled functions / call sites unchanged since the model was reviewed" % len(want), not diff,
                    "changed, new or missing: " + ", ".join(diff[:12]))


def observe(R, n, seed=None, ops=None):
    env = {"VERIF_SEED": str(seed)} if seed is not None else None
    args = ["-n", n] + (["-ops", ops] if ops else [])
    out = R.harness("c16", args, env=env, outdir=os.path.join(R.work, "c16_%s" % (seed if seed is not None else "main")))
    if not out:
        return None
    res = R.coq_cases(out, label="C16 correspondence", timeout=3000)
    if res is None:
        return None
    mism, viol, total = res
    cases = json.load(open(os.path.join(out, "cases.json")))
    return out, mism, viol, total, cases


def report(R, viol, cases):
    # one violation per (clause@operation-kind | clause:defect-footprint) and history
    for idx, clauses in viol:
        for cl in clauses:
            R.violation(cl, "real code violates clause %s in history #%d (shape %s, cfg %d): %s"
                        % (cl, idx, cases[idx]["shape"], cases[idx]["cfg"], json.dumps(cases[idx]["ops"])[:1500]), cases[idx])


def run(R):
    R.trusted += ["hand-written model Model/Identity.v of identity_registrar.go, the identity message ValidateBasic, ClaimCouncilor, ClaimValidator, the UniqueIdentityKeys write paths and the identity/balance/actor part of RotateRecoveryAddress; validated on every run by the differential run (results ok/rejected/panic, all records, raw address index, all requests, unique-key list, balances after every operation)",
                  "transaction atomicity (an error or panic discards the message's writes) is reproduced by the harness with one cached store per message, as baseapp does",
                  "request indexes by requester / approver are modelled as derived from the request store (kept consistent by SetIdentityRecordsVerifyRequest / DeleteIdRecordsVerifyRequest); iteration while deleting in the cachekv store is exercised by the differential run, not modelled",
                  "three model flags are PROBED on the tree under test by the harness and passed to the model: del_fix (DeleteIdentityRecordById removes the address+key index entry), msg_guard (MsgSetNetworkProperties applies the EnsureUniqueKeys guards), rot_check (rotations refuse a target that already holds identity records); the theorems are stated per flag value",
                  "the modelled Go functions and the call sites outside identity_registrar.go that write the identity stores are pinned by fingerprint (checks/c16_pins.json); an edit is a broken obligation until reviewed",
                  "genesis export/import of the gov module in the middle of a history is modelled as re-building the address+key index from the records in id order (what InitGenesis does through SetIdentityRecord), assuming no uniqueness conflict among stored records; clause 'genesis' demands that the round trip changes nothing observable",
                  "no axioms: every theorem of Properties/C16.v is closed under the global context"]
    R.assume += ["addresses are abstract integers (bech32 is a bijection); record and request ids stay far below 2^64",
                 "parties hold only the denominations ukex and utip; the rotation fee payer is a separate account",
                 "ClaimValidator only creates a pending validator, so no party is an active validator (GetValidatorByMoniker never finds one)",
                 "ASCII keys and values (strings.ToLower / len modelled on ASCII)",
                 "history-level 'only owners edit' / 'edit cancels requests' theorems assume rotations go to addresses that hold no identity records (rot_guarded); the code checks that the target has no account, and an address without account cannot have signed a registration"]
    check_pins(R)
    R.coq_files(FILES)
    R.coq_property()
    R.audit()
    n = 400 if R.tier == "quick" else 2000
    obs = observe(R, n, ops=24 if R.tier == "quick" else 32)
    total = hist = 0
    if obs:
        out, mism, viol, hist, cases = obs
        dist = json.load(open(os.path.join(out, "dist.json")))
        total = dist["operations"]
        R.oblige("correspondence: model = real msg servers on %d histories / %d operations (result, records, index, requests, unique keys, balances after every operation)" % (hist, total),
                 not mism, "first mismatching histories: " + json.dumps([cases[i] for i in mism[:2]])[:3000])
        report(R, viol, cases)
        R.samples = [cases[0]["ops"][:6], cases[len(cases) // 2]["ops"][:4]]
        R.coverage.update({"traces_validated_against_impl": hist, "operations": total, "input_distribution": dist})
    # a broken proof / correspondence: widen the search for a concrete failing input
    import vlib
    known = {f["sig"] for f in vlib.known_findings()["finding"] if f["property"] == R.pid}
    if R.broken and not [v for v in R.violations if v["sig"] not in known]:
        for s in range(100, 104):
            o2 = observe(R, 1500, seed=R.seed + s, ops=36)
            if o2:
                _, _, viol2, t2, cases2 = o2
                hist += t2
                report(R, viol2, cases2)
                if viol2:
                    break
    R.finish(level="proof", technique="Coq proofs (invariants by induction over operation histories) on a hand-written model + differential run of the real msg servers; spec checker vm_computed on real observations",
             extra={"evaluations": total, "histories": hist})
