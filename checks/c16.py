"""C16 -- identity registry. Hand-written Coq model (Model/Identity.v) + proofs over all operation
histories (Proofs/Identity.v), tied to /repo by a differential run of the real gov / staking /
recovery msg servers on multi-party histories; the decidable spec checker (Model/C16Check.v) is
evaluated inside Coq on the REAL observations."""
import json, os

FILES = ["Base/Prelude.v", "Base/Dec.v", "Model/NetPropsLib.v", "Model/Identity.v", "Model/C16Check.v", "Proofs/Identity.v", "Proofs/IdentityOwner.v"]


def observe(R, n, seed=None, ops=None):
    env = {"VERIF_SEED": str(seed)} if seed is not None else None
    args = ["-n", n] + (["-ops", ops] if ops else [])
    out = R.harness("c16", args, env=env, outdir=os.path.join(R.work, "c16_%s" % (seed if seed is not None else "main")))
    if not out:
        return None
    res = R.coq_cases(out, label="C16 correspondence")
    if res is None:
        return None
    mism, viol, total = res
    cases = json.load(open(os.path.join(out, "cases.json")))
    return out, mism, viol, total, cases


def report(R, viol, cases):
    # one violation per (clause@operation-kind | clause:defect-footprint) and history
    for idx, clauses in viol:
        for cl in clauses:
            R.violation(cl, "real code violates clause %s in history #%d (shape %s, cfg %d): %s"
                        % (cl, idx, cases[idx]["shape"], cases[idx]["cfg"], json.dumps(cases[idx]["ops"])[:1500]), cases[idx])


def run(R):
    R.trusted += ["hand-written model Model/Identity.v of identity_registrar.go, the identity message ValidateBasic, ClaimCouncilor, ClaimValidator, the UniqueIdentityKeys write paths and the identity/balance/actor part of RotateRecoveryAddress; validated on every run by the differential run (results ok/rejected/panic, all records, raw address index, all requests, unique-key list, balances after every operation)",
                  "transaction atomicity (an error or panic discards the message's writes) is reproduced by the harness with one cached store per message, as baseapp does",
                  "request indexes by requester / approver are modelled as derived from the request store (kept consistent by SetIdentityRecordsVerifyRequest / DeleteIdRecordsVerifyRequest); iteration while deleting in the cachekv store is exercised by the differential run, not modelled",
                  "two model flags are PROBED on the tree under test by the harness and passed to the model: del_fix (DeleteIdentityRecordById removes the address+key index entry) and msg_guard (MsgSetNetworkProperties applies the EnsureUniqueKeys guards); the theorems are stated per flag value",
                  "no axioms: every theorem of Properties/C16.v is closed under the global context"]
    R.assume += ["addresses are abstract integers (bech32 is a bijection); record and request ids stay far below 2^64",
                 "parties hold only the denominations ukex and utip; the rotation fee payer is a separate account",
                 "ClaimValidator only creates a pending validator, so no party is an active validator (GetValidatorByMoniker never finds one)",
                 "ASCII keys and values (strings.ToLower / len modelled on ASCII)",
                 "history-level 'only owners edit' / 'edit cancels requests' theorems assume rotations go to addresses that hold no identity records (rot_guarded); the code checks that the target has no account, and an address without account cannot have signed a registration"]
    R.coq_files(FILES)
    R.coq_property()
    R.audit()
    n = 400 if R.tier == "quick" else 5000
    obs = observe(R, n, ops=24 if R.tier == "quick" else 32)
    total = hist = 0
    if obs:
        out, mism, viol, hist, cases = obs
        dist = json.load(open(os.path.join(out, "dist.json")))
        total = dist["operations"]
        R.oblige("correspondence: model = real msg servers on %d histories / %d operations (result, records, index, requests, unique keys, balances after every operation)" % (hist, total),
                 not mism, "first mismatching histories: " + json.dumps([cases[i] for i in mism[:2]])[:3000])
        report(R, viol, cases)
        R.samples = [cases[0]["ops"][:6], cases[len(cases) // 2]["ops"][:4]]
        R.coverage.update({"traces_validated_against_impl": hist, "operations": total, "input_distribution": dist})
    # a broken proof / correspondence: widen the search for a concrete failing input
    import vlib
    known = {f["sig"] for f in vlib.known_findings()["finding"] if f["property"] == R.pid}
    if R.broken and not [v for v in R.violations if v["sig"] not in known]:
        for s in range(100, 104):
            o2 = observe(R, 1500, seed=R.seed + s, ops=36)
            if o2:
                _, _, viol2, t2, cases2 = o2
                hist += t2
                report(R, viol2, cases2)
                if viol2:
                    break
    R.finish(level="proof", technique="Coq proofs (invariants by induction over operation histories) on a hand-written model + differential run of the real msg servers; spec checker vm_computed on real observations",
             extra={"evaluations": total, "histories": hist})
