"""C11 -- baskets: books match the bank, backing, mint/burn/swap value preservation, limits, caps,
switches.  Hand-written model (Model/Basket.v) + proofs + differential run of the real basket msg
server / proposal handlers / hooks / end blocker on multi-holder histories; spec checker evaluated in
Coq on the real observations.  The model is parametric in four repaired places (burn reads the supply
before burning / EditBasket keeps the amount (68b9c08) / pool-upsert hook skips (853c45f) / CreateBasket stores amount zero); the harness probes which
variant the tree implements."""
import json, os

FILES = ["Base/Prelude.v", "Base/Dec.v", "Model/Basket.v", "Model/C11Check.v", "Proofs/Basket.v"]


def REPO_PATH():
    return os.environ.get("VERIF_REPO", "/repo")


def feature(case, clause):
    """distinguishing feature of the first step of the history that belongs to the clause's operation kind"""
    return clause


# who may write the basket store / basket books: pinned, so that a new writer (another module, a new
# handler) breaks an obligation until it is put into the harness alphabet and the model
PINNED_EXTERNAL = sorted([
    "app/app.go: baskettypes.ModuleName: {authtypes.Minter, authtypes.Burner},",
    "app/app.go: BasketKeeper basketkeeper.Keeper",
    "app/app.go: baskettypes.ModuleName,",
    "app/app.go: app.BasketKeeper = basketkeeper.NewKeeper(",
    "app/app.go: keys[baskettypes.ModuleName], appCodec,",
    "app/app.go: slashingtypes.NewMultiSlashingHooks(app.BasketKeeper.Hooks()),",
    "app/app.go: multistakingtypes.NewMultiStakingHooks(app.BasketKeeper.Hooks()),",
    "app/app.go: basket.NewApplyCreateBasketProposalHandler(app.BasketKeeper),",
    "app/app.go: basket.NewApplyEditBasketProposalHandler(app.BasketKeeper),",
    "app/app.go: basket.NewApplyBasketWithdrawSurplusProposalHandler(app.BasketKeeper),",
    "app/app.go: basket.NewAppModule(app.BasketKeeper, app.CustomGovKeeper),",
    "app/app.go: paramsKeeper.Subspace(baskettypes.ModuleName)",
])
PINNED_STORE_WRITERS = sorted(["SetLastBasketId", "SetBasket", "DeleteBasket", "SetMintAmount", "SetBurnAmount", "SetSwapAmount",
                               "ClearOldMintAmounts", "ClearOldBurnAmounts", "ClearOldSwapAmounts"])
PINNED_BOOK_WRITERS = sorted(["CreateBasket", "EditBasket", "MintBasketToken", "BurnBasketToken", "BasketSwap", "BasketWithdrawSurplus",
                              "AfterSlashStakingPool", "AfterSlashProposalRaise", "DisableBasketDeposits", "DisableBasketWithdraws",
                              "DisableBasketSwaps", "InitGenesis"])


def writers(repo):
    import re, glob
    ext = set()
    for f in glob.glob(os.path.join(repo, "**", "*.go"), recursive=True):
        rel = os.path.relpath(f, repo)
        if rel.endswith("_test.go") or rel.startswith("x/basket/"):
            continue
        for ln in open(f, errors="replace"):
            if re.search(r"BasketKeeper|basketkeeper\.|baskettypes\.|basket\.New", ln):
                ext.add(rel + ": " + " ".join(ln.split()))
    store, books = set(), set()
    for f in glob.glob(os.path.join(repo, "x", "basket", "**", "*.go"), recursive=True):
        if f.endswith("_test.go") or f.endswith(".pb.go") or f.endswith(".pb.gw.go") or "/client/" in f:
            continue
        src = open(f, errors="replace").read()
        for m in re.finditer(r"^func (?:\([^)]*\) )?(\w+)\(.*?^}", src, re.M | re.S):
            body = m.group(0)
            if re.search(r"store\.(Set|Delete)\(", body):
                store.add(m.group(1))
            if re.search(r"\.SetBasket\(", body):
                books.add(m.group(1))
    return sorted(ext), sorted(store), sorted(books)


def observe(R, n, seed=None):
    env = {"VERIF_SEED": str(seed)} if seed is not None else None
    out = R.harness("c11", ["-n", n], env=env, outdir=os.path.join(R.work, "c11_%s" % (seed if seed is not None else "main")))
    if not out:
        return None
    res = R.coq_cases(out, label="C11 correspondence")
    if res is None:
        return None
    mism, viol, total = res
    cases = json.load(open(os.path.join(out, "cases.json")))
    meta = json.load(open(os.path.join(out, "meta.json")))
    dist = json.load(open(os.path.join(out, "dist.json")))
    return out, mism, viol, total, cases, meta, dist


def report(R, viol, cases, seen):
    for idx, clauses in viol:
        for cl in clauses:
            if cl in seen:
                continue
            seen.add(cl)
            c = cases[idx]
            short = {"kind": c["kind"], "denoms": c["denoms"], "init": c["init"], "steps": c["steps"]}
            R.violation(cl, "real code violates clause %s in history #%d (%s, %d steps)" % (cl, idx, c["kind"], len(c["steps"])), short)


def run(R):
    R.trusted += ["hand-written model coq/Model/Basket.v of x/basket (mint, burn, swap, limits, caps, edit, hooks) and of the bank calls it makes, validated on every run by the differential run (status, stored basket record, supply, all balances after every operation)",
                  "Base/Dec.v model of sdk.Dec Mul/Quo/TruncateInt (rounding lemmas proved in Proofs/Basket.v)",
                  "the harness emulates baseapp's transaction atomicity (cache context written back only on success)",
                  "no axioms: every theorem of Properties/C11.v is closed under the global context"]
    R.assume += ["amounts stay far below the 256-bit / 315-bit limits of sdk.Int / sdk.Dec (overflow panics of Dec are modelled, those of Int are not)",
                 "underlying denominations are unique in a basket (CreateBasket/EditBasket reject duplicates; modelled) and weights are positive in generated configurations",
                 "block times are unix nanoseconds (sub-second parts, several messages per block time); limits periods stay below 2^33 s",
                 "holders act on basket 1; the other baskets (ids 2..) are funded through the real msg server before the history starts and are afterwards touched only by the create / withdraw-surplus proposals; the staking-reward claim at the end of BasketWithdrawSurplus is modelled for rewards the harness makes pending for the module account (x/multistaking IncreaseDelegatorRewards + funded fee collector)",
                 "genesis round trip = ExportGenesis, wipe of the module store, InitGenesis of the basket module only (bank state kept)",
                 "the spec checker's own record of accepted actions forgets, at an observed end block, what lies further back than the period then in force"]
    ext, store, books = writers(REPO_PATH())
    R.oblige("pinned writers: references to the basket keeper outside x/basket", ext == PINNED_EXTERNAL, "now: %s" % json.dumps(ext))
    R.oblige("pinned writers: functions writing the basket store", store == PINNED_STORE_WRITERS, "now: %s" % json.dumps(store))
    R.oblige("pinned writers: functions storing a basket record", books == PINNED_BOOK_WRITERS, "now: %s" % json.dumps(books))
    R.coq_files(FILES)
    R.coq_property()
    R.audit()
    n = 280 if R.tier == "quick" else 4000
    obs = observe(R, n)
    total = 0
    seen = set()
    if obs:
        out, mism, viol, total, cases, meta, dist = obs
        R.oblige("correspondence: model (variant burn_pre=%s edit_keep=%s upsert_skip=%s create_zero=%s) = real msg server / proposal handlers / hooks on %d histories, %d steps"
                 % (meta.get("burn_reads_supply_before"), meta.get("edit_keeps_amount"), meta.get("upsert_hook_skips"), meta.get("create_stores_zero_amount"), total, dist.get("steps", 0)), not mism,
                 "first mismatching histories: " + json.dumps([cases[i] for i in mism[:2]])[:6000])
        report(R, viol, cases, seen)
        R.samples = [cases[0]["steps"][:3], cases[len(cases) // 2]["steps"][:2]]
        R.coverage.update({"traces_validated_against_impl": total, "steps_validated_against_impl": dist.get("steps", 0), "input_distribution": dist})
    # a broken proof / correspondence: widen the search for a concrete failing input
    if R.broken and not R.violations:
        for s in range(100, 103):
            o2 = observe(R, 1500, seed=R.seed + s)
            if o2:
                _, _, viol2, t2, cases2, _, _ = o2
                total += t2
                report(R, viol2, cases2, seen)
                if R.violations:
                    break
    R.finish(level="proof", technique="Coq proofs (invariants over histories by induction over the operation list) over a hand-written model of x/basket, parametric in four repairs probed on the tree, + differential run of the real msg server, proposal handlers, hooks and end blocker on multi-holder histories; spec checker vm_computed on the real observations",
             extra={"evaluations": total})
