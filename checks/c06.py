"""C06 -- no reachable state or block can halt the chain (PARTIAL).
Translator gen_panics (panic-capable sites of begin/end-block code -> Gen/PanicSites.v, accounted for by a
pinned audit), Coq models of the panicking steps + theorems / _refuted witnesses, ABCI-level run of the
REAL application (witnesses, recipe generators per site, random block histories); the spec checker is
evaluated in Coq on the real observations."""
import json, os

FILES = ["Base/Prelude.v", "Base/Dec.v", "Gen/PanicSites.v", "Model/Halt.v", "Model/C06Check.v", "Proofs/Halt.v"]


def observe(R, n, seed=None, nopoll=False):
    env = {"VERIF_SEED": str(seed)} if seed is not None else None
    args = ["-n", n] + (["-nopoll"] if nopoll else [])
    out = R.harness("c06", args, env=env, outdir=os.path.join(R.work, "c06_%s" % (seed if seed is not None else "main")))
    if not out:
        return None
    res = R.coq_cases(out, label="C06 correspondence")
    if res is None:
        return None
    mism, viol, total = res
    cases = json.load(open(os.path.join(out, "cases.json")))
    return out, mism, viol, total, cases


def slim(case):
    """what a human needs to re-run the case: recipe kind + parameters + readable op log + the failing block"""
    c = {k: case.get(k) for k in ("kind", "witness", "adversarial", "params", "ops", "site")}
    hist = case.get("history") or []
    c["failing_block"] = case.get("block") or next((b for b in hist if any((b.get(p) or {}).get("msg") for p in ("begin", "end", "commit"))), None)
    if case.get("kind") == "random":
        c["history"] = hist
    c["how"] = "harness/cmd/c06: the recipe run<Kind>(params) of recipes.go / witnesses.go / recipeRandom(chain_seed) replays it"
    return c


def report(R, viol, cases, seen):
    for idx, clauses in viol:
        for cl in clauses:
            sig = cl  # panic:<phase>:<first sekai frame under the panic>:<message class>
            seen[sig] = seen.get(sig, 0) + 1
            if seen[sig] == 1:
                blk = slim(cases[idx])
                msg = ""
                fb = blk.get("failing_block") or {}
                for ph in ("begin", "end", "commit"):
                    if (fb.get(ph) or {}).get("msg"):
                        msg = fb[ph]["msg"].strip()
                R.violation(sig, "a panic escaped %s of the real application (%s); history kind=%s ops=%s" % (
                    cl.split(":")[1], msg[:160], cases[idx].get("kind"), json.dumps(cases[idx].get("ops"))[:1500]), blk)


def run(R):
    R.trusted += [
        "translator harness/cmd/gen_panics (go/ast, syntactic: explicit panic, Must*, Quo/Div/Mod and integer / % with a non-literal divisor, .Sub, coin constructors, unchecked type assertions, non-literal index; static calls followed by name to a fixpoint (also through the expected-keeper interfaces) below abci.go / module.go Begin/EndBlock / proposal handlers); map-of-pointer and nil-result dereferences are NOT listed",
        "the audit reasons pinned in Properties/C06.v (audit_table) are reviewed claims, not theorems; a new site (function, kind or one more of a kind) breaks C06_panic_sites_accounted, and a CHANGED function containing any listed site, audited or covered by a model (fingerprint of its comment/whitespace-normalised declaration, pinned next to the reason; trees with the pending fix patches applied are pinned too) breaks C06_audited_functions_unchanged and triggers the widened search",
        "verdicts resting on an invariant kept by other modules: gen_panics lists every function that calls a writer method of ANOTHER module (e.g. the x/recovery rotation blocks rewriting gov actors / permission indexes); each is pinned by fingerprint (C06_foreign_writers_unchanged), a new or changed one is a broken obligation",
        "tree-read flags of gen_panics (spend_endblock_guarded, gov_*_quorum_error_panics, withdraw/claim_sub_unchecked, ubi_amount_cast_int64) select the model branch; they are syntactic patterns, validated by the ABCI-level correspondence",
        "harness/cmd/c06 observers: recover() around BeginBlock/DeliverTx/EndBlock/Commit, panic site = first github.com/KiraCore/sekai frame under the panic, message class table in drive.go",
        "no axioms: every theorem of Properties/C06.v is closed under the global context",
    ]
    R.assume += [
        "PARTIAL: panics inside cosmos-sdk / CometBFT / IAVL / the Go runtime (out of memory) are outside the model; DeliverTx panics recovered by baseapp (failed tx) are not violations",
        "models cover: gov quorum (processProposal/processPoll), spending EndBlocker, Withdraw/Distribution enactment, ApplyProposal/dry-run filter, staking validator-set updates, fee-collector payouts and the per-denom reward credit, UBI mint, upgrade halt; collectives, layer2, basket, slashing/evidence, recovery and the reward path are driven by dedicated ABCI histories (every vote pattern run past the enactment end, dApp bootstrap, slash proposal, address rotation, staking and recovery-token rewards over many blocks, the upgrade plan with validators in every status and vote, network properties driven to 0 / max by proposals between blocks, genesis export + re-import followed by the hooks, block times with nanosecond parts) and the site audit, without a Coq model of their own",
        "amounts < 2^190, weights < 2^150, voters < 2^64 (the 315-bit Dec overflow is excluded by these bounds)",
        "the harness delivers commit votes for the genesis validators only; validator-set consistency with CometBFT is C05's",
    ]
    R.gen("gen_panics", "PanicSites.v")
    R.coq_files(FILES)
    R.coq_property()
    R.audit()
    n = 130 if R.tier == "quick" else 2500
    obs = observe(R, n)
    total = 0
    seen = {}
    if obs:
        out, mism, viol, total, cases = obs
        R.oblige("correspondence: site models = real EndBlock outcome (class of panic or completion) on %d observed blocks" % total, not mism,
                 "first mismatching cases: " + json.dumps([slim(cases[i]) for i in mism[:3]])[:6000])
        report(R, viol, cases, seen)
        # a real panic the model did not predict (or a predicted one that did not happen) is reported with its input
        for i in mism[:50]:
            blk = cases[i].get("block") or {}
            end = blk.get("end") or {}
            sig = "model-mismatch:%s:%s:%s" % (cases[i].get("kind"), end.get("site", "-"), end.get("cls", "no-panic"))
            if sig not in seen:
                seen[sig] = 1
                R.violation(sig, "the real EndBlock outcome (%s) differs from the site model's prediction on %s" % (
                    (end.get("msg") or "completed").strip()[:160], json.dumps(cases[i].get("site"))[:800]), slim(cases[i]))
        dist = json.load(open(os.path.join(out, "dist.json")))
        R.samples = [slim(cases[0]), slim(cases[len(cases) // 2]), slim(cases[-1])]
        R.coverage.update({"traces_validated_against_impl": total, "input_distribution": dist,
                           "violating_cases_by_signature": dict(seen)})
    # a broken proof / translator / correspondence: widen the search for a concrete failing input
    import vlib
    known = {f["sig"] for f in vlib.known_findings()["finding"] if f["property"] == R.pid}
    if R.broken and not [v for v in R.violations if v["sig"] not in known]:
        for s in range(100, 103):
            o2 = observe(R, 600, seed=R.seed + s, nopoll=True)
            if o2:
                _, _, viol2, t2, cases2 = o2
                total += t2
                before = len(R.violations)
                report(R, viol2, cases2, seen)
                if len(R.violations) > before:
                    break
    R.finish(level="proof (partial)",
             technique="Coq proofs over hand models of the panicking begin/end-block steps (guard flag and panic-site list regenerated from the tree by a translator; pinned site audit) + ABCI-level differential run of the real application (witnesses of the _refuted lemmas, per-site recipes, random block histories); spec checker vm_computed on the real observations",
             extra={"evaluations": total})
