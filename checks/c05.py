"""C05 -- validator updates keep the consensus and application validator sets equal.
Hand-written Coq model of the validator registry / status machine / update queues with a ghost
consensus set (coq/Model/Validators.v), theorems over all operation histories (coq/Proofs/Validators.v),
one-step differential run of the REAL staking / slashing / evidence / upgrade / gov code against the
model, and a Coq spec checker evaluated on the real end-block updates applied to a real CometBFT
ValidatorSet.  C15 reuses everything here (same harness, -prop c15)."""
import json, os

FILES = ["Base/Prelude.v", "Base/Dec.v", "Model/Validators.v", "Model/C05Check.v", "Model/C15Check.v", "Proofs/Validators.v"]

TRUSTED = [
    "hand-written model coq/Model/Validators.v of x/staking (slash.go, val_state_change.go, msg_server.go, proposal_handler.go), x/slashing (activate.go, infractions.go, jail.go, rank.go, msg_server.go, hooks.go), x/evidence/keeper/infraction.go and of PauseProposalNotApprovedValidators' effect; tied to /repo by the one-step differential run on every check",
    "model apply_updates of CometBFT v0.37.2 ValidatorSet.UpdateWithChangeSet (all powers 1), compared on every end block with the real ValidatorSet",
    "no axioms: the theorems of Properties/C05.v and Properties/C15.v are closed under the global context",
]
ASSUME = [
    "validator addresses / consensus keys are abstracted to integers whose order is the byte order of the addresses (the harness assigns ids that way)",
    "a failing message leaves no trace (baseapp runs messages on a cache dropped on error; the harness does the same); proposals are applied through the real gov router (cache dropped on error)",
    "monikers are unique per validator address (identity-registry uniqueness is C16's subject); no staking pools exist, so Jail does not raise slash proposals",
    "int64 streak/rank do not wrap (2^63 blocks are out of reach); network-property durations fit time.Duration",
    "recovery address rotation and genesis import are not in the modelled alphabet",
]


def observe(R, prop, n, seed=None, tag="main"):
    env = {"VERIF_SEED": str(seed)} if seed is not None else None
    out = R.harness("c05", ["-n", n, "-prop", prop], env=env, outdir=os.path.join(R.work, "c05_%s" % tag))
    if not out:
        return None
    res = R.coq_cases(out, label="%s correspondence" % prop.upper())
    if res is None:
        return None
    mism, viol, total = res
    cases = json.load(open(os.path.join(out, "cases.json")))
    dist = json.load(open(os.path.join(out, "dist.json")))
    return out, mism, viol, total, cases, dist


def brief(case, limit=60):
    """a history small enough for a message: kind, config and the operations"""
    ops = [{k: v for k, v in o.items() if k in ("op", "v", "k", "to", "note", "votes", "evidence", "validators", "dt", "res", "updates", "consensus_applied", "consensus_err")} for o in case["ops"]]
    return {"kind": case["kind"], "cfg": case["cfg"], "ops": ops[-limit:]}


def report(R, obs, what):
    out, mism, viol, total, cases, dist = obs
    R.oblige("correspondence: model step = real code on every operation of %d histories (%d operations); apply_updates = real ValidatorSet.UpdateWithChangeSet on every end block"
             % (total, dist["operations"]), not mism,
             "first mismatching histories: " + json.dumps([brief(cases[i]) for i in mism[:2]])[:6000])
    R.oblige("owner messages name the validator address as their only signer (GetSigners)", dist.get("owner_messages_signed_by_validator_address", False), "")
    for idx, clauses in viol:
        for cl in sorted(set(clauses)):
            R.violation(cl, "real code violates %s: clause %s in history #%d (%s)" % (what, cl, idx, cases[idx]["kind"]), brief(cases[idx]))


def run_common(R, prop, what, technique):
    R.trusted += TRUSTED
    R.assume += ASSUME
    R.coq_files(FILES)
    R.coq_property()
    R.audit()
    if R.tier == "thorough" and hasattr(R, "coqchk"):
        R.coqchk()
    n = 300 if R.tier == "quick" else 2000
    obs = observe(R, prop, n)
    total, ops = 0, 0
    if obs:
        out, mism, viol, total, cases, dist = obs
        ops = dist["operations"]
        report(R, obs, what)
        clean = [c for c in cases if c["kind"] == "clean"]
        R.samples = [brief(cases[0], 12), brief(clean[len(clean) // 2], 12) if clean else brief(cases[-1], 12)]
        kinds = {}
        for c in cases:
            kinds[json.dumps([o["op"] + ":" + o["res"] for o in c["ops"]])] = 1
        R.coverage.update({"traces_validated_against_impl": total, "operations_validated": ops, "input_distribution": dist,
                           "evaluations": ops, "distinct_nontrivial": len(kinds),
                           "rule": "a case is a whole block history (8-16 blocks: upgrade pause, commit votes, evidence, owner messages, proposals, end block) run on the real keepers; distinct = distinct sequence of (operation kind, result); every history contains status changes, so all are non-trivial"})
    # a broken proof / correspondence: widen the search for a concrete failing input
    if R.broken and not [v for v in R.violations if v["sig"] not in known_sigs(R)]:
        for s in range(100, 103):
            o2 = observe(R, prop, 1500, seed=R.seed + s, tag="s%d" % s)
            if o2:
                report_violations_only(R, o2, what)
                if [v for v in R.violations if v["sig"] not in known_sigs(R)]:
                    break
    R.finish(level="proof", technique=technique, extra={"evaluations": ops})


def known_sigs(R):
    import vlib
    return {f["sig"] for f in vlib.known_findings()["finding"] if f["property"] == R.pid}


def report_violations_only(R, obs, what):
    out, mism, viol, total, cases, dist = obs
    for idx, clauses in viol:
        for cl in sorted(set(clauses)):
            R.violation(cl, "real code violates %s: clause %s in history #%d (%s)" % (what, cl, idx, cases[idx]["kind"]), brief(cases[idx]))


def run(R):
    run_common(R, "c05", "C05 (end-block updates applicable; consensus set = active validators)",
               "Coq proof (queue invariant by induction over all operation histories, refutations with witnesses) over a hand-written model + one-step differential run of the real keepers / msg servers / begin- and end-blockers + spec checker vm_computed on real end-block updates applied to a real CometBFT ValidatorSet")
