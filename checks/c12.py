"""C12 -- genesis export and re-import reproduce the chain state.
Translator gen_genesis regenerates the store-class coverage table (which key prefixes ExportGenesis
reads / InitGenesis writes) and the genesis init order from the working tree; Coq proves the coverage
obligation and the round-trip theorems (refuted / partial) over hand models of gov roles, proposal
queues, multistaking counters and staking jail info; the ABCI-level harness populates every module,
exports, re-imports into a fresh application and the observations (store-by-store key/value diff by
class, second export, same further blocks on both chains, abstract snapshots) are evaluated inside Coq:
model prediction vs. real code (correspondence) and the spec checker (nothing may differ)."""
import json, os

FILES = ["Base/Prelude.v", "Gen/GenesisCoverage.v", "Model/Genesis.v", "Model/C12Check.v", "Proofs/Genesis.v"]


# fingerprints of every module's Init/ExportGenesis functions at the tree this check was last audited against
# (/repo 12b82d1).  A difference is not a failure by itself (the models follow the tree through regenerated
# flags, the differential run exercises the new code) but makes the run search wider: all restart schedules
# and both genesis permutations for every history, three more seeds.
PINNED = {"basket": "0ee40130a090ce53", "collectives": "2d19ac0aa570b27d", "custody": "2c894c3038f9258c", "distributor": "eae25c05aac0d30e",
          "ethereum": "639550e96362e0f8", "evidence": "22eac5cf2c4918c8", "feeprocessing": "cce79dc848f4d052", "gov": "7578f02e0c2acc9e",
          "layer2": "73019fd3efb72bae", "multistaking": "58d384bf26cd3e83", "recovery": "d936dd863d66676a", "slashing": "8873ef5ec209dab5",
          "spending": "b8e7645f8bdec399", "staking": "571bfe9082a83232", "tokens": "c4b578b3a4cb4934", "ubi": "a60b59aa000f4956",
          "upgrade": "fd811a79b1d63a00"}


def changed_genesis_code():
    import re
    txt = open(GEN_TABLE()).read()
    m = re.search(r"Definition genesis_fingerprints.*?\[(.*?)\]\.", txt, re.S)
    now = dict(re.findall(r'\("([^"]+)", "([^"]+)"\)', m.group(1))) if m else {}
    return sorted(k for k in set(now) | set(PINNED) if now.get(k) != PINNED.get(k))


def GEN_TABLE():
    import vlib
    return os.path.join(vlib.COQ, "Gen", "GenesisCoverage.v")


def observe(R, n, seed=None, all_schedules=False):
    env = {"VERIF_SEED": str(seed)} if seed is not None else None
    out = R.harness("c12", ["-n", n] + (["-all-schedules"] if all_schedules else []), env=env, outdir=os.path.join(R.work, "c12_%s" % (seed if seed is not None else "main")))
    if not out:
        return None
    res = R.coq_cases(out, label="C12 correspondence")
    if res is None:
        return None
    mism, viol, total = res
    cases = json.load(open(os.path.join(out, "cases.json")))
    return out, mism, viol, total, cases


def slim(case, clause):
    """replay data for one violated clause: the history (seed + features + steps) and what was observed for it"""
    kind = clause.split(":", 1)[0]
    d = {"index": case["index"], "seed": case["seed"], "features": case["features"], "height": case["height"], "clause": clause,
         "how": "VERIF_SEED=<run seed> harness/bin/c12 -n <index+1> -v  (history <index> of the run; features select what is populated)",
         "failed_steps": [s for s in case["steps"] if not s["ok"]]}
    if kind in ("lost", "added", "changed"):
        d["diff"] = [x for x in case.get("diffs") or [] if "%s:%s/%s" % (x["kind"], x["store"], x["class"]) == clause]
    elif kind.startswith("order@"):
        variant = clause[len("order@"):].split(":", 1)[0]
        d["permuted_genesis_import"] = [r for r in case.get("permuted_genesis_imports") or [] if r["variant"] == variant]
        for r in d["permuted_genesis_import"]:
            r["probes_unpermuted_vs_permuted"] = [p for p in r.get("probes_unpermuted_vs_permuted") or [] if p["original"] != p["reimported"]]
    elif kind.startswith("diverge@"):
        sched, probe = clause[len("diverge@"):].split(":", 1)
        d["restart_schedule"] = [{"schedule": r["schedule"], "import_panic": r.get("import_panic"),
                                  "probe": [p for p in r.get("probes") or [] if p["name"] == probe]}
                                 for r in case.get("restart_schedules") or [] if r["schedule"]["name"] == sched]
    elif kind == "diverge":
        d["probe"] = [p for p in case.get("probes") or [] if "diverge:" + p["name"] == clause]
    elif kind == "export2":
        d["second_export_differs_in"] = case.get("second_export_differs_in")
    else:
        d["export_panic"] = case.get("export_panic")
        d["import_panic_unpatched"] = case.get("import_panic_unpatched")
        d["import_panic_patched"] = case.get("import_panic_patched")
    return d


def record(R, viol, cases, seen):
    for idx, clauses in viol:
        for cl in clauses:
            if cl in seen:
                continue
            seen.add(cl)
            R.violation(cl, "genesis export/re-import does not reproduce the state: %s (history %d, seed %s)" % (cl, idx, cases[idx]["seed"]), slim(cases[idx], cl))


def run(R):
    R.trusted += ["translator harness/cmd/gen_genesis (+ package cov): syntactic go/ast; a prefix counts as exported / imported when a function reachable from AppModule.ExportGenesis / InitGenesis that performs a store read / write mentions it (directly or through pure key helpers); validated against the observed store diff on every run",
                  "harness/cmd/c12 observers: raw store dumps classified by longest declared prefix, canonical JSON comparison of exports, probes",
                  "no axioms: every theorem of Properties/C12.v is closed under the global context"]
    R.assume += ["hand models cover gov roles/permissions, gov proposal queues, gov identity registrar, multistaking counters, staking jail info, distributor; all other modules are covered at store-class level (table) and by the ABCI-level differential run only",
                 "the hand models follow the tree through regenerated flags (which keeper functions InitGenesis reaches: role-blacklist loop, queue rebuild, id counters; the version string x/upgrade exports; nil-map writes on export paths); proposal block-height conditions are not modelled",
                 "the re-imported application is started with InitialHeight = exported height + 1 and the exported block time, as a network restart from the export does",
                 "only if InitChain refuses the export with 'invalid genesis version' (regression of 0bb355b) does the harness rewrite the version string so that the deeper comparison can run; the refusal itself is reported as import-panic:upgrade/version",
                 "restart schedules: besides the same-time restart every history is also re-imported under one (history 0 and the thorough tier: all) of later-7s, later-35d (beyond every pending deadline of the populated states), higher-1000 (InitialHeight + 1000) and both; a freshly replayed original chain and the re-imported chain then get the same further blocks at the same later times; balances are not compared under a height shift (block rewards depend on the height through the validator-performance window)",
                 "metamorphic import obligation: every exported genesis is also imported with the entries of every top-level record list of every module reversed (even histories) / shuffled (odd; history 0 and thorough: both); the raw stores must equal those of the unpermuted import and the same probes must answer alike. Kept in order: customstaking.validators (order of the validator updates handed to consensus), bank.supply (sdk.Coins must be sorted), genutil.gen_txs (applied in list order); arrays of scalars and arrays nested inside records (coins, permission lists, token lists) are values, not record lists",
                 "window parameters: every history draws the parameters that govern how long something is kept (distributor SnapPeriod 1..5 instead of 1000 in 60% of the histories and in history 0, poll duration 10 s, basket LimitsPeriod 8 s, AutocompoundIntervalNumBlocks 1..3, MaxMischance 2..4, proposal end / enactment times 120/60 s, one long block of 8 days / 31 days with the minimum inflation period / 361 days, so that the unstaking period elapses and the periodic or the year-start supply snapshot rolls over alone) so that each time/height-windowed store class is in its steady state (full window, entries being pruned) at export; the first block after the restart is probed (validator vote counts, fees treasury, balances)",
                 "awkward export moments covered by the histories: proposals in voting / in enactment / finished, poll active or expired, undelegation pending or matured, validators paused / inactive (by keeper and by real downtime) / jailed (keeper and double-sign evidence) / just joined, custody transfer pooled with one of two approvals, dApp bootstrapping, collective bonded, software upgrade pending / being executed (validators paused, plan still next) / executed (current plan), address rotation in the last block; restarts exactly at and 1 ns after the next proposal deadline",
                 "continuation after the restart (same signed transactions on both chains): bank send, create role, undelegate, new staking pool, claim rewards, claim spending pool, register identity record, basket mint, custody approval, collective contribution, dApp bond, poll creation, then blocks across all deadlines and claims of matured undelegations",
                 "auth / bank / params / consensus (SDK modules) are compared raw, not modelled"]
    R.gen("gen_genesis", "GenesisCoverage.v")
    R.coq_files(FILES)
    R.coq_property()
    R.audit()
    if R.tier == "thorough" and hasattr(R, "coqchk"):
        R.coqchk()
    changed = changed_genesis_code()
    R.coverage["genesis_code_changed_since_audit"] = changed
    if changed:
        R.note("Init/ExportGenesis code changed since the audited tree in: %s -> wider search" % changed)
    n = 80 if R.tier == "quick" else 600
    seen = set()
    total = 0
    obs = observe(R, n)
    if obs:
        out, mism, viol, total, cases = obs
        R.oblige("correspondence: class-level prediction (lost classes = populated classes the table marks un-imported), role registry / proposal queues / multistaking counters after re-import = models, on %d histories" % total,
                 not mism, "first mismatching histories: " + json.dumps([slim(cases[i], "mismatch") for i in mism[:3]])[:3000])
        record(R, viol, cases, seen)
        dist = json.load(open(os.path.join(out, "dist.json")))
        # richness: every store class that InitGenesis writes (covered or derived) must be non-empty at export in
        # some history of the run, otherwise its round trip is unchecked
        import re
        table = re.findall(r'mkCls "([^"]+)" "([^"]+)" "([^"]+)" "[^"]*" (true|false) (true|false) (true|false)',
                           open(GEN_TABLE()).read())
        per_class = {"%s/%s" % (st, n): dist.get("class:%s/%s" % (st, n), 0) for _, st, n, e, i, u in table}
        unchecked = sorted("%s/%s" % (st, n) for _, st, n, e, i, u in table if i == "true" and per_class["%s/%s" % (st, n)] == 0)
        R.oblige("richness: each of the %d store classes InitGenesis writes is populated at export in some history (never populated: only the %d classes the tree does not import)" %
                 (sum(1 for t in table if t[4] == "true"), sum(1 for t in table if t[4] == "false" and per_class["%s/%s" % (t[1], t[2])] == 0)),
                 not unchecked, "imported but never populated: %s" % unchecked)
        R.coverage["store_classes_populated_in_n_histories"] = per_class
        # multiplicity: a record list that only ever holds one entry cannot show an import / export that handles
        # a subset (first only, all but the last, ...)
        listmax = {k[8:]: v for k, v in dist.items() if k.startswith("listmax:")}
        single = sorted(k for k, v in listmax.items() if v == 1 and k not in ("distributor.fees_treasury",))  # a Coins value
        R.oblige("multiplicity: every record list of the exported genesis holds >= 2 entries in some history (%d lists)" % len(listmax),
                 not single, "lists that never hold more than one entry: %s" % single)
        R.coverage["genesis_list_max_entries"] = listmax
        # distinct values: two GenesisState fields of the same Go type (snapshot pairs, counter pairs, lists of the
        # same record type; derived by gen_genesis) must hold different values at export in some history, otherwise an
        # export / import that swaps them or copies one into the other round-trips "exactly"
        pairs = {k[5:]: v for k, v in dist.items() if k.startswith("pair:")}
        same = sorted(k for k, v in pairs.items() if v == 0)
        R.oblige("distinct values: each of the %d pairs of same-typed GenesisState fields holds different values at export in some history" % len(pairs),
                 not same, "pairs never distinguished: %s" % same)
        R.coverage["same_type_field_pairs_distinguished_in_n_histories"] = pairs
        R.samples = [slim(cases[0], "sample"), slim(cases[len(cases) // 2], "sample")]
        R.coverage.update({"traces_validated_against_impl": total,
                           "input_distribution": {k: v for k, v in dist.items() if k.startswith("step:")},
                           "observed_diff_classes": {k[5:]: v for k, v in dist.items() if k.startswith("diff:")}})
    # a broken proof / translator / correspondence obligation, or changed genesis code: widen the search
    if R.broken or (changed and R.tier == "quick"):
        before = len(R.violations)
        for s in range(100, 103):
            o2 = observe(R, 150 if R.broken else 60, seed=R.seed + s, all_schedules=True)
            if o2:
                _, _, viol2, t2, cases2 = o2
                total += t2
                record(R, viol2, cases2, seen)
        R.note("widened search: %d further violation classes" % (len(R.violations) - before))
    R.finish(level="proof", technique="Coq proofs (coverage obligation over a translator-regenerated store-class table; round-trip theorems refuted/partial over hand models, induction over role-operation histories) + ABCI-level export / re-import differential run evaluated in Coq (vm_compute)",
             extra={"evaluations": total})


def replay(R, path):
    data = json.load(open(path))
    print(json.dumps(data, indent=1)[:6000])
    o = observe(R, 48)
    if o:
        _, mism, viol, total, cases = o
        want = {v["sig"] for v in data.get("violations", [])}
        got = {cl for _, cls in viol for cl in cls}
        print("replayed on the current tree: of the recorded violation classes these still occur: %s" % sorted(want & got))
