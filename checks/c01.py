"""C01 -- replicated execution is deterministic (PARTIAL: proof over a model + site table; the Go
runtime / IAVL / baseapp are observed through replicas).

1. translator gen_nondet: every nondeterminism source in non-test, non-client code of x/, app/, types/
   (go/types) + a fingerprint of every function owning one -> Gen/NondetSites.v; theorem
   C01_sites_covered pins the audited table (exact both ways, verdicts pinned to the code);
2. Coq model with an explicit environment (wall clock, map order): noninterference theorems,
   characterisation, refutations for the code as it is;
3. replica harness at ABCI level (k=3 independently built applications, same block history,
   compared after every block) + direct observations of the three mechanisms; spec checker and
   model correspondence evaluated in Coq on the real observations."""
import json, os, re

FILES = ["Base/Prelude.v", "Gen/NondetSites.v", "Model/Determinism.v", "Model/C01Check.v", "Proofs/Determinism.v"]


def observe(R, n, seed=None, extra=()):
    env = {"VERIF_SEED": str(seed)} if seed is not None else None
    out = R.harness("c01", ["-n", n] + list(extra), env=env, outdir=os.path.join(R.work, "c01_%s" % (seed if seed is not None else "main")))
    if not out:
        return None
    res = R.coq_cases(out, label="C01 observations")
    if res is None:
        return None
    mism, viol, total = res
    cases = json.load(open(os.path.join(out, "cases.json")))
    return out, mism, viol, total, cases


def sigs_of(case, clauses):
    """one signature per clause: what diverged (store/key-prefix, tx result of a message kind, ...)
    and in which class of input (history class, or the mechanism observed directly)"""
    if case.get("kind") == "replicas":
        return ["%s@%s" % (c, case.get("class", "?")) for c in clauses]
    return list(clauses)


def report(R, cases, viol):
    for idx, cl in viol:
        c = cases[idx]
        brief = {k: c[k] for k in ("kind", "name", "class", "seed", "kinds") if k in c}
        for s in sigs_of(c, cl):
            R.violation(s, "replicas of the real application disagree (%s) on %s" % (s, json.dumps(brief)), c)


def parse_sites(coqdir):
    """sites and fingerprints of the generated table (diagnostics / recipe cross-check only; the
    verdict is the Coq theorem C01_sites_covered)"""
    try:
        gen = open(os.path.join(coqdir, "Gen", "NondetSites.v")).read()
        prop = open(os.path.join(coqdir, "Properties", "C01.v")).read()
    except OSError:
        return None
    sites = re.findall(r'mkSite "([^"]*)" "([^"]*)" (\w+) "([^"]*)" (\d+)', gen)
    fps = {(a, b): c for a, b, c in re.findall(r'\("([^"]*)", "([^"]*)", "([0-9a-f]{16})"\)', gen)}
    table = prop[prop.index("Definition audited_sites"):prop.index("Theorem C01_sites_covered")]
    aud = re.findall(r'mkAudit "([^"]*)" "([^"]*)" (\w+) "([^"]*)" (\d+) "([0-9a-f]*)"', table)
    return sites, fps, aud


def audit_diagnostics(coqdir):
    p = parse_sites(coqdir)
    if not p:
        return None
    sites, fps, aud = p
    akeys = {(f, fn, k, e): int(n) for f, fn, k, e, n, _ in aud}
    new = [s for s in sites if int(s[4]) >= akeys.get(s[:4], 0)]
    stale = [a[:5] for a in aud if sum(1 for s in sites if s[:4] == a[:4]) != int(a[4])]
    changed = sorted({(a[0], a[1]) for a in aud if fps.get((a[0], a[1])) != a[5]})
    return {"unaudited_sites": new, "stale_audit_entries": stale, "functions_changed_since_audit": changed}


def run(R):
    R.trusted += ["translator harness/cmd/gen_nondet (go/types over x/ and app/, export data of dependencies from `go list -export`); "
                  "excluded as never executed in a block: client/ cli/ simulation/ legacy/ testutil/ teststaking/, *_test.go, *.pb.gw.go",
                  "audit verdicts (Harmless <reason>) of Properties/C01.v are human judgements, pinned per file+function+kind+expression+count and to the fingerprint of the owning function plus its same-package callees (cross-package callees are not fingerprinted)",
                  "replica harness harness/cmd/c01 + shared ABCI driver harness/abci (store digests, canonical tx results)",
                  "no axioms: every theorem of Properties/C01.v is closed under the global context"]
    R.assume += ["PARTIAL: scheduling/host independence of the Go runtime, IAVL, baseapp and CometBFT is observed on k=3 replicas "
                 "(separate MemDB, different goroutines/OS threads, GC pressure, different wall-clock times), not proved",
                 "the application hash is modelled as an injective function of the committed store content",
                 "modules without an environment-consulting site in the translator's table are represented in the model by the bank/sequence steps only; "
                 "their determinism rests on the site table (C01_sites_covered) and on the replica runs",
                 "dependencies (cosmos-sdk, cometbft, iavl) are not scanned for nondeterminism sources"]
    R.gen("gen_nondet", "NondetSites.v")
    R.coq_files(FILES)
    R.coq_property()
    R.audit()
    import vlib
    diag = audit_diagnostics(vlib.COQ)
    if diag and any(diag.values()):
        R.note("audit table diagnostics:", json.dumps(diag))
        R.coverage["audit_table_diagnostics"] = diag
    n = 20 if R.tier == "quick" else 400
    obs = observe(R, n)
    total = 0
    if obs:
        out, mism, viol, total, cases = obs
        R.oblige("correspondence: model (site configuration from the translator) = real code on %d cases "
                 "(environment-free histories agree on every replica; poll / custody-limit / map-encoding observations)" % total,
                 not mism, "first mismatching cases: " + json.dumps([cases[i] for i in mism[:3]])[:6000])
        report(R, cases, viol)
        # cases that are both a mismatch and unexplained by a clause (cannot happen by construction) stay a broken obligation
        R.samples = [{k: cases[i][k] for k in ("kind", "name", "class", "kinds", "diverges") if k in cases[i]} for i in (0, len(cases) // 2, len(cases) - 1)]
        dist = json.load(open(os.path.join(out, "dist.json")))
        # every map-iteration site of hand-written code has a replica recipe (conflicting entries) or a stated reason
        p = parse_sites(vlib.COQ)
        if p:
            recipes = json.load(open(os.path.join(out, "recipes.json")))
            need = sorted({"%s|%s|%s" % (f, fn, e) for f, fn, k, e, _ in p[0] if k in ("KMapRange", "KMapKeys") and not f.endswith(".pb.go")})
            missing = [k for k in need if k not in recipes]
            ran = {c.get("class") for c in cases}
            notrun = sorted({v for k, v in recipes.items() if k in need and v.startswith("recipe:") and v not in ran})
            R.oblige("every map-iteration site of hand-written code has a replica recipe with conflicting entries (or a stated reason): %d sites" % len(need),
                     not missing and not notrun, "sites without recipe: %s; recipes not run: %s" % (missing, notrun))
            R.coverage["map_site_recipes"] = {k: recipes.get(k) for k in need}
        R.coverage.update({"traces_validated_against_impl": total, "input_distribution": dist,
                           "message_types_per_module": dist.get("message_types_per_module"),
                           "replicas_per_history": dist.get("replicas")})
    # a broken proof / site table / correspondence: widen the search for a concrete diverging history
    if R.broken and not R.violations:
        for s in range(100, 103):
            o2 = observe(R, 40 if R.tier == "quick" else 300, seed=R.seed + s, extra=["-recipes", 6])
            if o2:
                _, _, viol2, t2, cases2 = o2
                total += t2
                report(R, cases2, viol2)
                if R.violations:
                    break
    R.finish(level="proof", technique="Coq noninterference proof over an environment-explicit model + translator-generated table of "
             "nondeterminism sites (audited, pinned) + k-replica ABCI differential run; spec checker vm_computed on real observations; partial",
             extra={"evaluations": total})
