"""C01 -- replicated execution is deterministic (PARTIAL: proof over a model + site table; the Go
runtime / IAVL / baseapp are observed through replicas).

1. translator gen_nondet: every nondeterminism source in non-test, non-client code of x/, app/, types/
   (go/types) + a fingerprint of every function owning one -> Gen/NondetSites.v; theorem
   C01_sites_covered pins the audited table (exact both ways, verdicts pinned to the code);
2. Coq model with an explicit environment (wall clock, map order): noninterference theorems,
   characterisation, refutations for the code as it is;
3. replica harness at ABCI level (k=3 independently built applications, same block history,
   compared after every block) + direct observations of the three mechanisms; spec checker and
   model correspondence evaluated in Coq on the real observations."""
import json, os, re

FILES = ["Base/Prelude.v", "Gen/NondetSites.v", "Model/Determinism.v", "Model/C01Check.v", "Proofs/Determinism.v"]


def build_trimpath(R):
    """the child-process replica is a DIFFERENTLY BUILT binary of the same harness: go build -trimpath (source paths, runtime.Caller,
    %v / %+v of wrapped errors, debug.BuildInfo differ from the in-process replicas).  Incremental through the go build cache."""
    import vlib
    bindir = os.path.join(vlib.HARNESS, "bin") if not vlib.ALT else os.path.join(vlib.WORK, "bin")
    os.makedirs(bindir, exist_ok=True)
    binp = os.path.join(bindir, "c01.trimpath")
    extra = ["-modfile", os.path.join(vlib.WORK, "go.alt.mod")] if vlib.ALT else []
    with vlib.Lock("gobuild-c01-trimpath"):
        rc, o, dt = vlib.sh(["go", "build"] + extra + ["-trimpath", "-tags", "verif", "-o", binp, "./cmd/c01"], cwd=vlib.HARNESS, env=R.env, timeout=1200)
    R.note("go build -trimpath c01 rc", rc, "%.1fs" % dt)
    if rc != 0:
        R.oblige("harness c01 builds with -trimpath (child-process replica)", False, o[-2000:])
        return None
    return binp


CHILD = []


def observe(R, n, seed=None, extra=()):
    extra = list(extra) + CHILD
    env = {"VERIF_SEED": str(seed)} if seed is not None else None
    out = R.harness("c01", ["-n", n] + list(extra), env=env, outdir=os.path.join(R.work, "c01_%s" % (seed if seed is not None else "main")))
    if not out:
        return None
    res = R.coq_cases(out, label="C01 observations")
    if res is None:
        return None
    mism, viol, total = res
    cases = json.load(open(os.path.join(out, "cases.json")))
    return out, mism, viol, total, cases


def sigs_of(case, clauses):
    """one signature per clause: what diverged (store/key-prefix, tx result of a message kind, ...)
    and in which class of input (history class, or the mechanism observed directly)"""
    if case.get("kind") == "replicas":
        return ["%s@%s" % (c, case.get("class", "?")) for c in clauses]
    return list(clauses)


def report(R, cases, viol):
    for idx, cl in viol:
        c = cases[idx]
        brief = {k: c[k] for k in ("kind", "name", "class", "seed", "kinds") if k in c}
        for s in sigs_of(c, cl):
            R.violation(s, "replicas of the real application disagree (%s) on %s" % (s, json.dumps(brief)), c)


def parse_sites(coqdir):
    """sites and fingerprints of the generated table (diagnostics / recipe cross-check only; the
    verdict is the Coq theorem C01_sites_covered)"""
    try:
        gen = open(os.path.join(coqdir, "Gen", "NondetSites.v")).read()
        prop = open(os.path.join(coqdir, "Properties", "C01.v")).read()
    except OSError:
        return None
    sites = re.findall(r'mkSite "([^"]*)" "([^"]*)" (\w+) "([^"]*)" (\d+)', gen)
    fps = {(a, b): c for a, b, c in re.findall(r'\("([^"]*)", "([^"]*)", "([0-9a-f]{16})"\)', gen)}
    table = prop[prop.index("Definition audited_sites"):prop.index("Theorem C01_sites_covered")]
    aud = re.findall(r'mkAudit "([^"]*)" "([^"]*)" (\w+) "([^"]*)" (\d+) "([0-9a-f]*)"', table)
    return sites, fps, aud


def audit_diagnostics(coqdir):
    p = parse_sites(coqdir)
    if not p:
        return None
    sites, fps, aud = p
    akeys = {(f, fn, k, e): int(n) for f, fn, k, e, n, _ in aud}
    new = [s for s in sites if int(s[4]) >= akeys.get(s[:4], 0)]
    stale = [a[:5] for a in aud if sum(1 for s in sites if s[:4] == a[:4]) != int(a[4])]
    changed = sorted({(a[0], a[1]) for a in aud if fps.get((a[0], a[1])) != a[5]})
    # how the affected functions are reached (static call graph of the translator): names the message / block hook to steer at
    reach = {}
    try:
        gen = open(os.path.join(coqdir, "Gen", "NondetSites.v")).read()
        blk = gen[gen.index("Definition site_reach"):]
        blk = blk[:blk.index("]%string.")]
        for f, fn, ents in re.findall(r'\("([^"]*)", "([^"]*)", \[([^\]]*)\]\)', blk):
            reach[(f, fn)] = re.findall(r'"([^"]*)"', ents)
    except (OSError, ValueError):
        pass
    selection = []
    try:
        blk = gen[gen.index("Definition selection_sites"):]
        blk = blk[:blk.index("]%string.")]
        sel = set(re.findall(r'\("([^"]*)", "([^"]*)", "([^"]*)"\)', blk))
        selection = [list(s_[:4]) for s_ in new if (s_[0], s_[1], s_[3]) in sel]
    except (NameError, ValueError):
        pass
    affected = sorted({(s_[0], s_[1]) for s_ in new} | set(changed))
    reached = {"%s|%s" % k: reach.get(k, []) for k in affected}
    return {"unaudited_sites": new, "stale_audit_entries": stale, "functions_changed_since_audit": changed, "reached_from": reached,
            "new_sites_feeding_a_selection": selection}


def repin(apply=False, coqdir=None):
    """After REVIEWING the functions listed as changed (verdict still valid?), re-pin their fingerprints:
       cd /verif && python3 -c "import sys; sys.path.insert(0,'lib'); import checks.c01 as c; c.repin(apply=True)"
    Reads coq/Gen/NondetSites.v as last generated by `bin/check C01`."""
    coqdir = coqdir or os.path.join(os.path.dirname(os.path.dirname(os.path.abspath(__file__))), "coq")
    sites, fps, aud = parse_sites(coqdir)
    path = os.path.join(coqdir, "Properties", "C01.v")
    src = open(path).read()
    for f, fn, k, e, n, old in aud:
        new = fps.get((f, fn))
        if new and new != old:
            print("changed: %s %s  %s -> %s" % (f, fn, old, new))
            if apply:
                src = src.replace('mkAudit "%s" "%s" %s "%s" %s "%s"' % (f, fn, k, e, n, old), 'mkAudit "%s" "%s" %s "%s" %s "%s"' % (f, fn, k, e, n, new))
    if apply:
        open(path, "w").write(src)


def run(R):
    R.trusted += ["translator harness/cmd/gen_nondet (go/types over x/ and app/, export data of dependencies from `go list -export`); "
                  "excluded as never executed in a block: client/ cli/ simulation/ legacy/ testutil/ teststaking/, *_test.go, *.pb.gw.go",
                  "audit verdicts (Harmless <reason>) of Properties/C01.v are human judgements, pinned per file+function+kind+expression+count and to the fingerprint of the owning function plus its same-package callees (cross-package callees are not fingerprinted)",
                  "replica harness harness/cmd/c01 + shared ABCI driver harness/abci (store digests, canonical tx results)",
                  "local-zone times are detected syntactically (time.Unix/Parse/Date/In/Local and zone-dependent renderings not forced by .UTC() in the same expression, in x/ app/ types/); a zone that travels through variables into a dependency's formatter is only observed through the child-process replica",
                  "error-text sites are detected syntactically (fmt.Sprint*/Append* with an error argument or err.Error(), whose value goes into a field, literal, event attribute or Set*/Save* call); text that travels through a variable first is only observed through the differently built child replica",
                  "process-local state is detected syntactically: writes (assignment, index assignment, append, delete, Store/Delete/..., big.Int mutators) to package-level variables and to fields of hand-written application structs reached from a receiver or parameter, outside New*/Make*/Register*/init; state hidden behind interfaces, closures or dependencies is only observed through the replicas",
                  "no axioms: every theorem of Properties/C01.v is closed under the global context"]
    R.assume += ["PARTIAL: scheduling/host independence of the Go runtime, IAVL, baseapp and CometBFT is observed on k=3 replicas "
                 "(separate MemDB, different goroutines/OS threads, GC pressure, different wall-clock times; replica 1 additionally serves CheckTx new/recheck, "
                 "Simulate and every gRPC query method of every module between DeliverTx calls, replica 2 is restarted from its database mid-history, "
                 "replica 3 is a child PROCESS running a DIFFERENTLY BUILT binary (go build -trimpath) in another host environment: local zone UTC+9 (TZ=Asia/Tokyo), other HOME/HOSTNAME/locale, GOMAXPROCS=1; "
                 "the wall-clock stream (block times around the real now, every stored threshold on one real instant, probes at -1s/-1ns/0/+1ns/+1s) has a LATE replica executed after that instant; "
                 "the begin/end/init-genesis module order is read from 6 fresh application instances in this process and 3 in the child process and must be one), not proved",
                 "the application hash is modelled as an injective function of the committed store content",
                 "modules without an environment-consulting site in the translator's table are represented in the model by the bank/sequence steps only; "
                 "their determinism rests on the site table (C01_sites_covered) and on the replica runs",
                 "dependencies (cosmos-sdk, cometbft, iavl) are not scanned for nondeterminism sources"]
    R.gen("gen_nondet", "NondetSites.v")
    R.coq_files(FILES)
    R.coq_property()
    R.audit()
    import vlib
    diag = audit_diagnostics(vlib.COQ)
    focus = []
    if diag and any(diag.values()):
        R.note("audit table diagnostics:", json.dumps(diag))
        R.coverage["audit_table_diagnostics"] = diag
        # steer the replica experiment at the entry points that reach a new / edited site: their messages join the probes of
        # the wall-clock stream (block times around the real now, a late replica) and are listed in the report
        for ents in diag.get("reached_from", {}).values():
            for e in ents:
                if e.startswith("msg:"):
                    focus.append(e.split(".")[-1])
        focus = sorted(set(focus))[:12]
    R.gobuild("c01")  # (also writes the alternate module file the -trimpath build needs)
    tp = build_trimpath(R)
    if tp:
        CHILD[:] = ["-child-bin", tp]
    n = 20 if R.tier == "quick" else 300
    extra = ["-focus", ",".join(focus)] if focus else []
    if diag and diag.get("new_sites_feeding_a_selection"):
        extra += ["-recipes", 4]  # a new map range feeds a sort / min / first-match: more runs of the ties family (tied candidates)
    obs = observe(R, n, extra=extra)
    total = 0
    if obs:
        out, mism, viol, total, cases = obs
        R.oblige("correspondence: model (site configuration from the translator) = real code on %d cases "
                 "(environment-free histories agree on every replica; poll / custody-limit / map-encoding observations)" % total,
                 not mism, "first mismatching cases: " + json.dumps([cases[i] for i in mism[:3]])[:6000])
        report(R, cases, viol)
        # cases that are both a mismatch and unexplained by a clause (cannot happen by construction) stay a broken obligation
        R.samples = [{k: cases[i][k] for k in ("kind", "name", "class", "kinds", "diverges") if k in cases[i]} for i in (0, len(cases) // 2, len(cases) - 1)]
        dist = json.load(open(os.path.join(out, "dist.json")))
        # every map-iteration site of hand-written code has a replica recipe (conflicting entries) or a stated reason
        p = parse_sites(vlib.COQ)
        if p:
            recipes = json.load(open(os.path.join(out, "recipes.json")))
            need = sorted({"%s|%s|%s" % (f, fn, e) for f, fn, k, e, _ in p[0] if k in ("KMapRange", "KMapKeys") and not f.endswith(".pb.go")})
            missing = [k for k in need if k not in recipes]
            ran = {c.get("class") for c in cases}
            notrun = sorted({v for k, v in recipes.items() if k in need and v.startswith("recipe:") and v not in ran})
            R.oblige("every map-iteration site of hand-written code has a replica recipe with conflicting entries (or a stated reason): %d sites" % len(need),
                     not missing and not notrun, "sites without recipe: %s; recipes not run: %s" % (missing, notrun))
            R.coverage["map_site_recipes"] = {k: recipes.get(k) for k in need}
        R.coverage.update({"traces_validated_against_impl": total, "input_distribution": dist,
                           "message_types_per_module": dist.get("message_types_per_module"),
                           "off_consensus_activity_replica_1": dist.get("off_consensus_activity_replica_1"), "query_methods_swept": dist.get("query_methods"), "child_process_replica": dist.get("child_process_replica"), "wall_clock_stream": dist.get("wall_clock_stream"), "steered_at_messages": focus,
                           "replicas_per_history": dist.get("replicas")})
    # a broken proof / site table / correspondence: widen the search for a concrete diverging history
    if R.broken and not R.violations:
        for s in range(100, 103):
            o2 = observe(R, 40 if R.tier == "quick" else 300, seed=R.seed + s, extra=["-recipes", 6] + (["-focus", ",".join(focus)] if focus else []))
            if o2:
                _, _, viol2, t2, cases2 = o2
                total += t2
                report(R, cases2, viol2)
                if R.violations:
                    break
    R.finish(level="proof", technique="Coq noninterference proof over an environment-explicit model + translator-generated table of "
             "nondeterminism sites (audited, pinned) + k-replica ABCI differential run; spec checker vm_computed on real observations; partial",
             extra={"evaluations": total})
