"""C01 -- replicated execution is deterministic (PARTIAL: proof over a model + site table; the Go
runtime / IAVL / baseapp are observed through replicas).

1. translator gen_nondet: every nondeterminism source in non-test, non-client code of x/ and app/
   (go/types) -> Gen/NondetSites.v; theorem C01_sites_covered pins the audited table;
2. Coq model with an explicit environment (wall clock, map order): noninterference theorems,
   characterisation, refutations for the code as it is;
3. replica harness at ABCI level (k=3 independently built applications, same block history,
   compared after every block) + direct observations of the three mechanisms; spec checker and
   model correspondence evaluated in Coq on the real observations."""
import json, os, re

FILES = ["Base/Prelude.v", "Gen/NondetSites.v", "Model/Determinism.v", "Model/C01Check.v", "Proofs/Determinism.v"]


def observe(R, n, seed=None, extra=()):
    env = {"VERIF_SEED": str(seed)} if seed is not None else None
    out = R.harness("c01", ["-n", n] + list(extra), env=env, outdir=os.path.join(R.work, "c01_%s" % (seed if seed is not None else "main")))
    if not out:
        return None
    res = R.coq_cases(out, label="C01 observations")
    if res is None:
        return None
    mism, viol, total = res
    cases = json.load(open(os.path.join(out, "cases.json")))
    return out, mism, viol, total, cases


def sigs_of(case, clauses):
    """one signature per clause: what diverged (store/key-prefix, tx result of a message kind, ...)
    and in which class of input (history class, or the mechanism observed directly)"""
    if case.get("kind") == "replicas":
        return ["%s@%s" % (c, case.get("class", "?")) for c in clauses]
    return list(clauses)


def report(R, cases, viol):
    for idx, cl in viol:
        c = cases[idx]
        brief = {k: c[k] for k in ("kind", "name", "class", "seed", "kinds") if k in c}
        for s in sigs_of(c, cl):
            R.violation(s, "replicas of the real application disagree (%s) on %s" % (s, json.dumps(brief)), c)


def run(R):
    R.trusted += ["translator harness/cmd/gen_nondet (go/types over x/ and app/, export data of dependencies from `go list -export`); "
                  "excluded as never executed in a block: client/ cli/ simulation/ legacy/ testutil/ teststaking/, *_test.go, *.pb.gw.go",
                  "audit verdicts (Harmless <reason>) of Properties/C01.v are human judgements, pinned per file+function+kind+expression",
                  "replica harness harness/cmd/c01 + shared ABCI driver harness/abci (store digests, canonical tx results)",
                  "no axioms: every theorem of Properties/C01.v is closed under the global context"]
    R.assume += ["PARTIAL: scheduling/host independence of the Go runtime, IAVL, baseapp and CometBFT is observed on k=3 replicas "
                 "(separate MemDB, different goroutines/OS threads, GC pressure, different wall-clock times), not proved",
                 "the application hash is modelled as an injective function of the committed store content",
                 "modules without an environment-consulting site in the translator's table are represented in the model by the bank/sequence steps only; "
                 "their determinism rests on the site table (C01_sites_covered) and on the replica runs",
                 "dependencies (cosmos-sdk, cometbft, iavl) are not scanned for nondeterminism sources"]
    R.gen("gen_nondet", "NondetSites.v")
    R.coq_files(FILES)
    R.coq_property()
    R.audit()
    n = 20 if R.tier == "quick" else 400
    obs = observe(R, n)
    total = 0
    if obs:
        out, mism, viol, total, cases = obs
        R.oblige("correspondence: model (site configuration from the translator) = real code on %d cases "
                 "(environment-free histories agree on every replica; poll / custody-limit / map-encoding observations)" % total,
                 not mism, "first mismatching cases: " + json.dumps([cases[i] for i in mism[:3]])[:6000])
        report(R, cases, viol)
        # cases that are both a mismatch and unexplained by a clause (cannot happen by construction) stay a broken obligation
        R.samples = [{k: cases[i][k] for k in ("kind", "name", "class", "kinds", "diverges") if k in cases[i]} for i in (0, len(cases) // 2, len(cases) - 1)]
        dist = json.load(open(os.path.join(out, "dist.json")))
        R.coverage.update({"traces_validated_against_impl": total, "input_distribution": dist,
                           "replicas_per_history": dist.get("replicas")})
    # a broken proof / site table / correspondence: widen the search for a concrete diverging history
    if R.broken and not R.violations:
        for s in range(100, 103):
            o2 = observe(R, 60 if R.tier == "quick" else 300, seed=R.seed + s)
            if o2:
                _, _, viol2, t2, cases2 = o2
                total += t2
                report(R, cases2, viol2)
                if R.violations:
                    break
    R.finish(level="proof", technique="Coq noninterference proof over an environment-explicit model + translator-generated table of "
             "nondeterminism sites (audited, pinned) + k-replica ABCI differential run; spec checker vm_computed on real observations; partial",
             extra={"evaluations": total})
