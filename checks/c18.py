"""C18 -- spending pools, UBI, collectives pay only the entitled and only what is owed.
Hand-written Coq models (Model/Spending.v, Ubi.v, Collectives.v) + proofs (Proofs/Payouts.v) +
differential run of the real msg servers / proposal handlers / end blockers (harness/cmd/c18);
correspondence and the spec checker (Model/C18Check.v) are evaluated in Coq on the real observations."""
import json, os


def vlib_repo():
    import vlib
    return vlib.REPO

FILES = ["Base/Prelude.v", "Base/Dec.v", "Model/Spending.v", "Model/Ubi.v", "Model/Collectives.v",
         "Model/C18Check.v", "Proofs/Payouts.v"]


def observe(R, n, seed=None):
    env = {"VERIF_SEED": str(seed)} if seed is not None else None
    out = R.harness("c18", ["-n", n], env=env, outdir=os.path.join(R.work, "c18_%s" % (seed if seed is not None else "main")))
    if not out:
        return None
    res = None
    for attempt in range(3):
        res = R.coq_cases(out, label="C18 correspondence")
        if res is not None:
            break
        # shards killed from outside (no output at all: out-of-memory killer on a loaded machine) are
        # re-evaluated; a shard that fails WITH output (a Coq error) is a broken obligation at once
        name, ok, detail = R.obligations[-1]
        killed = (not ok) and name.endswith("Coq evaluation of observations") and all(x[1] == "" for x in json.loads(detail or "[]") if isinstance(x, list))
        if not killed or attempt == 2:
            return None
        R.note("shards killed without output, retrying after a pause (attempt %d)" % (attempt + 1))
        R.obligations.pop()
        R.broken.remove(name)
        import time
        time.sleep(45)
    if res is None:
        return None
    mism, viol, total = res
    cases = json.load(open(os.path.join(out, "cases.json")))
    return out, mism, viol, total, cases


def report(R, cases, viol):
    # one violation per (history kind, clause): the clause names the broken part of the property and
    # the operation kind it was observed on; the replay carries the whole history
    for idx, clauses in viol:
        c = cases[idx]
        for cl in clauses:
            bad = [o for o in c["ops"] if o.get("res") is not None]
            R.violation("%s:%s" % (c["kind"], cl),
                        "real code violates clause %s in %s history #%s (%d operations; see replay for inputs and observations)" % (cl, c["kind"], c["id"], len(bad)), c)


WRITERS = r"\.(SetClaimInfo|RemoveClaimInfo|SetSpendingPool|CreateSpendingPool|DepositSpendingPoolFromModule|DepositSpendingPoolFromAccount|ClaimSpendingPool|SetCollectiveContributer|DeleteCollectiveContributer|SetCollective|DeleteCollective|SendDonation|WithdrawCollective|ExecuteCollectiveRemove|SetUBIRecord|DeleteUBIRecord)\("
# every call site OUTSIDE x/spending, x/ubi, x/collectives that writes their stores (file, method, count)
PINNED_WRITERS = {("x/layer2/keeper/abci.go", "CreateSpendingPool", 1), ("x/layer2/keeper/abci.go", "DepositSpendingPoolFromModule", 1),
                  ("x/recovery/keeper/msg_server.go", "DeleteCollectiveContributer", 1), ("x/recovery/keeper/msg_server.go", "SetCollectiveContributer", 1),
                  ("x/recovery/keeper/msg_server.go", "RemoveClaimInfo", 1), ("x/recovery/keeper/msg_server.go", "SetClaimInfo", 1)}
# the two blocks of RotateRecoveryAddress that rewrite claim records / contributor records (whitespace-normalised sha256)
PINNED_BLOCKS = {"collectives": "8edffd89775a6cf7", "spending": "65b8089cb2cba778"}


def external_writers(repo):
    import re, collections, hashlib
    found = collections.Counter()
    for root in ("x", "app"):
        for d, _, files in os.walk(os.path.join(repo, root)):
            rel = os.path.relpath(d, repo)
            if rel.startswith(("x/spending", "x/ubi", "x/collectives")):
                continue
            for f in files:
                if f.endswith(".go") and not f.endswith("_test.go") and not f.endswith(".pb.go"):
                    for m in re.finditer(WRITERS, open(os.path.join(d, f), errors="replace").read()):
                        found[(os.path.join(rel, f), m.group(1))] += 1
    table = {(f, m, n) for (f, m), n in found.items()}
    src = open(os.path.join(repo, "x/recovery/keeper/msg_server.go"), errors="replace").read()
    src = src[max(0, src.find("func (k msgServer) RotateRecoveryAddress")):]
    blocks = {}
    for name, a, b in (("collectives", "// - collectives module", "// - gov:councilor"), ("spending", "// - spending", "// - staking")):
        i, j = src.find(a), src.find(b)
        blocks[name] = hashlib.sha256(" ".join(src[i:j].split()).encode()).hexdigest()[:16] if 0 <= i < j else "missing"
    return table, blocks


def slim(c):
    return {"kind": c["kind"], "id": c["id"], "ops": [{k: v for k, v in o.items() if k in ("t", "op", "a", "p", "c", "res", "err")} for o in c["ops"][:6]]}


def run(R):
    R.trusted += ["hand-written models Model/Spending.v, Model/Ubi.v, Model/Collectives.v, validated on every run by the differential run (state after every operation compared inside Coq)",
                  "sdk.Dec arithmetic as modelled in Base/Dec.v (Mul/Quo/RoundInt, banker's rounding), bank module modelled as balances per account with insufficient-funds / invalid-coins rejection",
                  "six probe runs in harness/cmd/c18 (spending end-block denominator guard, spending payout error instead of panic, vote-quorum range check, UBI period gate without wrap-around, UBI sums in sdk.Int with zero period refused, collective-remove Apply returning its error) select the model variant the tree is compared with; theorems are stated for both variants",
                  "the spec checker judges payments against its own ghost record (terms from accepted create/update, books as deposits minus payments, last registration/claim, bonds put in, maximum lock ever set, UBI records as upserted, donation book as seeded minus sent) and compares the stored records with it after every operation",
                  "address rotations (x/recovery MsgRotateRecoveryAddress) are steps of the spending and collectives histories; their preconditions outside the C18 models (recovery secret / proof, rotation history, account existence, fee) are read from the real state by the harness and given to the model as a flag; MsgRotateValidatorByHalfRRTokenHolder writes no spending / ubi / collectives store (pinned call-site table) and is not driven",
                  "block times carry nanosecond parts; the models and the checker work in whole seconds (Unix())",
                  "no axioms: every theorem of Properties/C18.v is closed under the global context"]
    R.assume += ["a passed proposal is the call of the handler's Apply inside a cache context that is written only on success (gov router); voting itself is C08",
                 "timestamps, periods and amounts are below 2^63 except where the model wraps explicitly (UBI last+period, UBI amount cast, hard-cap sum)",
                 "rates and weights generated by the harness are non-negative; the theorem claim_le_entitlement states the sign condition explicitly",
                 "collectives: MinCollectiveBond = 0 (no bond-value threshold / status changes), no pending staking rewards (multistaking rewards are seeded as an environment step), spending pool named by the collective absent",
                 "the three denominations and six accounts of the harness; InflationPossible = true (fresh distributor state)"]
    table, blocks = external_writers(vlib_repo())
    R.oblige("writers of the spending / ubi / collectives stores outside those modules are the pinned call sites (x/recovery address rotation, x/layer2 dapp pools)",
             table == PINNED_WRITERS, "found %s, pinned %s" % (sorted(table), sorted(PINNED_WRITERS)))
    R.oblige("the blocks of RotateRecoveryAddress that rewrite claim records and contributor records have the pinned text (their behaviour is driven by the rotation steps of the harness)",
             blocks == PINNED_BLOCKS, "found %s, pinned %s" % (blocks, PINNED_BLOCKS))
    R.coq_files(FILES)
    R.coq_property()
    R.audit()
    n = 300 if R.tier == "quick" else 5000
    obs = observe(R, n)
    total = 0
    if obs:
        out, mism, viol, total, cases = obs
        R.oblige("correspondence: model = real msg servers / proposal handlers / end blockers after every operation of %d histories" % total,
                 not mism, "first mismatching histories: " + json.dumps([cases[i] for i in mism[:2]])[:6000])
        report(R, cases, viol)
        R.samples = [slim(cases[1]), slim(cases[len(cases) // 2]), slim(cases[-1])]
        dist = json.load(open(os.path.join(out, "dist.json")))
        R.coverage.update({"traces_validated_against_impl": total, "operations": sum(dist["ops_by_kind_and_result"].values()), "input_distribution": dist})
    # a broken proof / correspondence: widen the search for a concrete failing input
    if R.broken and not R.violations:
        for s in range(100, 103):
            o2 = observe(R, 1500, seed=R.seed + s)
            if o2:
                _, _, viol2, t2, cases2 = o2
                total += t2
                report(R, cases2, viol2)
                if viol2:
                    break
    R.finish(level="proof", technique="Coq proofs over hand-written models of x/spending, x/ubi, x/collectives + differential run of the real msg servers / proposal handlers / end blockers; correspondence and spec checker vm_computed on real observations",
             extra={"evaluations": total})
