"""C02 -- transactions are authenticated by every signer and cannot be replayed.
Hand-written Coq model of the authentication decision logic (crypto = four Section variables) +
theorems; differential run of the REAL application (ABCI DeliverTx: full ante chain + message
servers) on honest / forged / replayed transactions against the model instantiated with the
recorded finite oracle tables; spec checker vm_computed on the real observations."""
import json, os

FILES = ["Base/Prelude.v", "Model/Auth.v", "Model/C02Check.v", "Model/C02Chain.v", "Gen/C02AnteChain.v", "Proofs/Auth.v"]


def observe(R, n, seed=None):
    env = {"VERIF_SEED": str(seed)} if seed is not None else None
    out = R.harness("c02", ["-n", n], env=env, outdir=os.path.join(R.work, "c02_%s" % (seed if seed is not None else "main")))
    if not out:
        return None
    res = R.coq_cases(out, label="C02 correspondence")
    if res is None:
        return None
    mism, viol, total = res
    cases = json.load(open(os.path.join(out, "cases.json")))
    return out, mism, viol, total, cases


def acct_class(case):
    a = case["scenario"]["acct"]
    if a in ("new", "eth-new"):
        return "nokey"          # first signer has no public key on record (any key can be attached)
    if a == "eth-onrecord":
        return "ethkey"         # Ethereum-style address: the key on record never matches the address
    return a                    # onrecord / missing


def sig_of(case, clauses):
    # violation signature: failing clause(s) (they name the branch and the signer position) + state of the first signer
    if all(c.startswith("exact.") for c in clauses):
        return "+".join(sorted(clauses))      # what the signing scheme leaves unsigned does not depend on the account state
    env = case["scenario"].get("env") or ""
    return "%s:%s%s" % ("+".join(sorted(clauses)), acct_class(case), (":" + env) if env else "")


def brief(case):
    c = dict(case)
    c["steps"] = [{k: v for k, v in s.items() if k != "post"} for s in case.get("steps", [])]
    return c


def report(R, cases, viol):
    for idx, cl in viol:
        c = cases[idx]
        R.violation(sig_of(c, cl), "real application (DeliverTx) violates clause(s) %s on scenario %s accepted=%s" %
                    (cl, json.dumps(c["scenario"]), c["accepted"]), brief(c))


def run(R):
    R.trusted += [
        "translator harness/cmd/gen_c02ante (go/ast over app/ante/*.go: chain order of NewAnteHandler, classification of every return statement of every AnteHandle; anything outside its fragment is a gen error and breaks C02_whole_chain_continues); the ten cosmos-sdk v0.47.6 decorators are pinned by name as continuing",
        "crypto is NOT modelled: verify / recover / addr_of_pk / eth_sender are Section variables; every hypothesis about them is in the theorem statements (none for the main theorems)",
        "oracle tables of the differential run are computed by the harness with cosmos-sdk authsigning.VerifySignature, go-ethereum crypto.SigToPub / types.Sender and an independent EIP-712 digest (not via app/ante)",
        "baseapp runTx semantics (ante state is discarded when the ante handler fails or panics) is observed through DeliverTx, not proved",
    ]
    R.assume += [
        "the ante chain is projected onto ValidateBasic, SetPubKey, SigGasConsume, SigVerification, IncrementSequence; that the other decorators can only reject or continue is theorem C02_whole_chain_continues over the regenerated chain; the differential run crosses the matrix with the chain's mode switches (weak network, custody enabled on the signers, execution-fee table, token black/white-list switches); the weak-network message filter's verdict is computed by the harness from the documented rule",
        "addresses are 20 bytes (common.BytesToAddress crops longer ones); multisig = LegacyAminoPubKey over secp256k1 members with uniform member sign mode (its verification is the verify oracle; nested multisigs are not generated)",
        "message types: every registered sdk.Msg implementation that can be instantiated generically (string/address fields := signer; ValidateBasic passes; an honest DIRECT tx passes the ante handler) -- 89 of 109 on the current tree, at least one per module except evidence; the rest of the matrix uses bank MsgSend, gov MsgRegisterIdentityRecords, tokens MsgEthereumTx",
        "'exactly that transaction': t_id identifies body + auth-info bytes; EIP-712 / raw Ethereum signatures cover the message (resp. the raw tx) and the sequence only -- theorem C02_exact_refuted_*, listed findings exact.*",
        "the sign document is abstracted to (mode, chain id, account number, sequence, identity of body+auth-info bytes); the oracle table is the real graph on the documents that occur",
        "the effects clause (no tracked account outside the signer list is debited or changed; an inner payload accepted once has no effect on its signer again) concerns message execution, which the ante model does not contain: it is judged on the real observations only (both harness accounts are observed after every step), C02_checker_accepts_model_runs covers the other clauses",
        "replay theorem: fewer than 2^64 accepted transactions between the two submissions (uint64 sequence wrap)",
        "fee payer / signer addresses are spelled canonically (lower-case bech32): an upper-case spelling of an address already among the signers makes cosmos-sdk's Tx.GetSigners list it twice (SDK behaviour outside /repo; both slots must still verify under that account's key; the model's signer list is duplicate-free)",
        "genesis export / import is exercised as a continuation of 30 histories per run (sequence, key, account number survive; replays stay rejected); a failing export is recorded in the input distribution, not judged here (C12)",
    ]
    # the ante chain as the code has it NOW: decorator order and the shape of every return of every custom AnteHandle
    R.gen("gen_c02ante", "C02AnteChain.v")
    R.coq_files(FILES)
    R.coq_property()
    R.audit()
    n = 200 if R.tier == "quick" else 5000
    obs = observe(R, n)
    total = 0
    if obs:
        out, mism, viol, total, cases = obs
        dist = json.load(open(os.path.join(out, "dist.json")))
        R.oblige("correspondence: model (variant %s) = real application on %d histories (accept/reject/panic class, signer list, pubkey, sequence, account number after every step)"
                 % (json.dumps(dist.get("code_variant")), total), not mism,
                 "first mismatching histories: " + json.dumps([brief(cases[i]) for i in mism[:3]])[:6000])
        cv = dist.get("code_variant") or {}
        R.oblige("the tree as it is is the repaired variant (raw Ethereum sender compared with the signer; remaining signers verified after an Ethereum-path success; exactly-one-message rule on the EIP-712 and on the raw Ethereum branch): headline theorem C02_accept_authorised applies",
                 all(cv.get(k) for k in ("raw_eth_sender_checked", "eth_path_continues_with_remaining_signers", "eip712_single_message_rule", "raw_eth_single_message_rule")), json.dumps(cv))
        acc = dist["by"].get("first:accepted", 0)
        R.oblige("generator sanity: both accepted and rejected transactions occur", acc > 20 and dist["by"].get("first:rejected", 0) > 20, json.dumps(dist["by"]))
        report(R, cases, viol)
        R.samples = [brief(cases[0]), brief(cases[len(cases) // 2]), brief(cases[-1])]
        R.coverage.update({"traces_validated_against_impl": total, "input_distribution": dist})
    # a broken proof / correspondence: widen the search for a concrete failing input
    if R.broken and not [v for v in R.violations if not v["sig"].startswith("auth.ethraw")]:
        for s in range(100, 103):
            o2 = observe(R, 2500, seed=R.seed + s)
            if o2:
                _, _, viol2, t2, cases2 = o2
                total += t2
                before = len(R.violations)
                report(R, cases2, viol2)
                if len(R.violations) > before and [v for v in R.violations[before:] if not v["sig"].startswith("auth.ethraw")]:
                    break
    # one violation entry per signature is enough for the report
    seen, uniq = set(), []
    for v in R.violations:
        if v["sig"] not in seen:
            seen.add(v["sig"]); uniq.append(v)
    R.violations = uniq
    R.finish(level="proof", technique="Coq proof over a hand-written model of the ante authentication logic (crypto as uninterpreted Section variables) + differential run of the real application (ABCI DeliverTx) against the model under recorded oracle tables; spec checker vm_computed on real observations",
             extra={"evaluations": total})
