"""C10 -- staking pools and per-block reward allocation.  Hand-written Coq model (Model/Pools.v) of
x/multistaking + x/distributor, theorems over all histories, a two-fact translator (which variant of
the two repair sites the tree implements), a differential run of the real msg server / keepers /
begin- and end-blockers against the model, and the spec checker vm_computed on the real observations."""
import json, os, re

FILES = ["Base/Prelude.v", "Base/Dec.v", "Model/Pools.v", "Gen/C10Cfg.v", "Model/C10Check.v", "Proofs/Pools.v", "Proofs/PoolsTree.v", "Proofs/PoolsRewards.v", "Proofs/PoolsChk.v"]
CAP_SUM_1 = {1}          # harness configurations whose stake caps sum to 1


def observe(R, n, seed=None):
    env = {"VERIF_SEED": str(seed)} if seed is not None else None
    out = R.harness("c10", ["-n", n], env=env, outdir=os.path.join(R.work, "c10_%s" % (seed if seed is not None else "main")))
    if not out:
        return None
    res = R.coq_cases(out, label="C10 correspondence", timeout=900 if R.tier == "quick" else 3000)
    if res is None:
        return None
    mism, viol, total = res
    cases = json.load(open(os.path.join(out, "cases.json")))
    return out, mism, viol, total, cases


def sig_of(case, clause):
    """signature = clause : operation kind : the distinguishing feature of the failing step"""
    name, _, idx = clause.partition("@")
    step = case["steps"][int(idx)] if idx.isdigit() and int(idx) < len(case["steps"]) else {"kind": "init"}
    kind = step.get("kind", "?")
    feat = "-"
    if name == "pro_rata":
        feat = "after_slash" if step.get("pool_slashed") else "unslashed_pool"
    elif name in ("claim_owner", "claim_expiry", "claim_once", "claim_amount", "claim_denied"):
        feat = "stranger" if step.get("claimant_is_not_owner") else "owner"
    elif name == "signing_credited":
        feat = "votes_wiped" if step.get("power_seen_by_allocate", 0) < step.get("prev_proposer_signed_in_window", 0) else "power_ge_signing_record"
    elif name.startswith("credited_beyond_signing_record"):
        name = "credited_beyond_signing_record"      # the amount varies with the fees; the failing class is the vote of a non-signer
        feat = "nonsigner_vote_counted"
    elif name in ("genesis_delegators", "genesis_compound"):
        feat = "not_in_genesis_state"
    elif name == "delegator_dropped":
        feat = "still_holds_shares"
    elif name == "registry_supply":
        feat = "bank_burn" if kind == "undelegate" else "other"
    elif name.startswith("credited_le_"):
        name, _, exc = name.partition("+")
        feat = ("rounding+1" if exc in ("", "1") else "excess+" + exc) + (":capsum1" if case["cfg"] in CAP_SUM_1 else ":capsum<1")
    return "%s:%s:%s" % (name, kind, feat), step


def report(R, cases, viol):
    for idx, clauses in viol:
        seen = set()
        for cl in clauses:
            sig, step = sig_of(cases[idx], cl)
            if sig in seen:
                continue
            seen.add(sig)
            R.violation(sig, "real code violates clause %s in history %r (cfg %d) at step %s" % (cl, cases[idx]["name"], cases[idx]["cfg"], json.dumps(step)),
                        {"history": cases[idx], "clause": cl})


def run(R):
    R.trusted += ["hand-written model Model/Pools.v of multistaking Delegate/Undelegate/claims/SlashStakingPool/IncreasePoolRewards/auto-compound/RegisterDelegator and distributor AllocateTokens/BeginBlocker/EndBlocker, validated step by step by the differential run",
                  "translator harness/cmd/gen_c10 (go/ast): reads which variant the tree implements at nine sites (ClaimUndelegation owner comparison, EndBlocker vote deletion, BeginBlocker votes for signers only, Undelegate share-denom prefix / share conversion / burn path, slashing keeper wiring in app.go, SlashStakingPool empty-burn guard, auto-compounding panic vs cache-and-continue); other shapes are rejected",
                  "sdk.Dec arithmetic of Base/Dec.v (Mul / RoundInt, banker's rounding); bank module as a ledger of balances and supply",
                  "no axioms: every theorem of Properties/C10.v is closed under the global context"]
    R.assume += ["address rotation (x/recovery): MsgRotateRecoveryAddress of a delegator is modelled; of the pool validator's account it is modelled up to the renaming of that account (the observation's account id follows the rotation); MsgRotateValidatorByHalfRRTokenHolder is outside the model (its observation is judged by the spec checker only, the history ends there)",
                 "one pool (validator with pool), one validator without pool, unknown proposers; the pool validator stays active; fewer delegators than MaxDelegators (no push-out)",
                 "amounts below 2^63 (no 256/315-bit overflow panics); slash fractions in [0,1]; commission in [0,1]",
                 "the minted inflation and InflationPossible are inputs of the allocation model (observed from the real run); the inflation formula itself belongs to C13",
                 "a failing message / block leaves no trace (baseapp cache discarded): the harness runs every step in a CacheContext"]
    if not R.gen("gen_c10", "C10Cfg.v"):
        # the tree is outside the translator's fragment (already recorded as a broken obligation): continue with the
        # last variant known for the tree so that the spec checker can still search for a concrete failing input
        import vlib
        with open(os.path.join(vlib.COQ, "Gen", "C10Cfg.v"), "w") as f:
            f.write("(* FALLBACK written by checks/c10.py: gen_c10 rejected the tree *)\n"
                    "From Sekai Require Import Base.Prelude Model.Pools.\n"
                    "Definition tree_variant : variant := last_known_variant.\n")
    R.coq_files(FILES)
    R.coq_property()
    R.audit()
    n = 260 if R.tier == "quick" else 3000
    obs = observe(R, n)
    total = 0
    if obs:
        out, mism, viol, total, cases = obs
        R.oblige("correspondence: model = real msg server / keepers / begin+end blockers on %d histories" % total, not mism,
                 "first mismatching histories: " + json.dumps([cases[i] for i in mism[:3]])[:6000])
        report(R, cases, viol)
        dist = json.load(open(os.path.join(out, "dist.json")))
        R.samples = [{"name": c["name"], "cfg": c["cfg"], "steps": c["steps"][:6]} for c in (cases[0], cases[len(cases) // 2], cases[-1])]
        R.coverage.update({"traces_validated_against_impl": total, "steps_validated_against_impl": dist.get("steps"), "input_distribution": dist})
    # a broken proof / translator / correspondence: widen the search for a concrete failing input
    if R.broken and not [v for v in R.violations]:
        pass
    if R.broken:
        known = set(f["sig"] for f in __import__("vlib").known_findings()["finding"] if f["property"] == R.pid)
        if not [v for v in R.violations if v["sig"] not in known]:
            for s in range(100, 103):
                o2 = observe(R, 1500, seed=R.seed + s)
                if o2:
                    _, _, viol2, t2, cases2 = o2
                    total += t2
                    report(R, cases2, viol2)
                    if [v for v in R.violations if v["sig"] not in known]:
                        break
    R.finish(level="proof", technique="Coq proofs over a hand-written model of the staking pool and the reward allocation + differential run of the real msg server / keepers / begin-end blockers against the model; spec checker vm_computed on the real observations",
             extra={"evaluations": total})
