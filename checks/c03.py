"""C03 -- no account is debited without its own authorisation.
(1) translator gen_signers regenerates Gen/DebitSites.v (GetSigners fields of every sdk.Msg, the bank
calls of every msg-server method and begin/end blocker with the origin of the debited address);
(2) Coq proves the generic IR theorem, the block theorem, the audited-site obligation over the
regenerated table, the refutations/partials for the code's defective handlers; (3) an ABCI-level
global monitor runs honest + adversarial histories on the REAL application, snapshots every balance
and every recorded claim around every DeliverTx / BeginBlock / EndBlock, and the Coq spec checker
c03_violations is vm_computed on those observations (plus the handler models' correspondence)."""
import json, os

FILES = ["Base/Prelude.v", "Model/Debit.v", "Gen/DebitSites.v", "Model/C03Check.v", "Proofs/Debit.v", "Proofs/DebitCheck.v"]


def observe(R, n, seed=None):
    env = {"VERIF_SEED": str(seed)} if seed is not None else None
    out = R.harness("c03", ["-n", n], env=env, outdir=os.path.join(R.work, "c03_%s" % (seed if seed is not None else "main")))
    if not out:
        return None
    res = R.coq_cases(out, label="C03 monitor")
    if res is None:
        return None
    mism, viol, total = res
    cases = json.load(open(os.path.join(out, "cases.json")))
    return out, mism, viol, total, cases


def sig_of(case, clauses):
    # clause(s) + the message type(s) of the transaction (or the block phase): identifies the call site
    where = "+".join(sorted(set(case.get("msgs") or []))) or case["phase"]
    return "%s:%s" % ("+".join(sorted(clauses)), where)


def report(R, cases, viol):
    for idx, cl in viol:
        c = cases[idx]
        R.violation(sig_of(c, cl), "real code violates %s: %s signed by %s changed balances %s claims %s (facts %s)" % (
            cl, c.get("op"), c.get("signers"), c.get("balance_changes"), c.get("claim_changes"), c.get("facts")), c)


def run(R):
    R.trusted += ["translator harness/cmd/gen_signers (go/ast, syntactic origin classification of bank-call operands, one call level into keepers; unknown operands are emitted as OUnknown and must be audited)",
                  "the audited site list pinned in Properties/C03.v (12 msg-server sites, 4 end-block sites), each with its reason or finding",
                  "harness observers: bank IterateAllBalances and the GetAll* iterators of multistaking / layer2 / collectives / gov identity; custody vote and recovery records read through the keepers",
                  "no axioms: every theorem of Properties/C03.v is closed under the global context"]
    R.assume += ["the effect IR abstracts amounts and state conditions of a handler into message operands/flags; its tie to the code is the regenerated site table plus the correspondence of ten handler models on real transactions",
                 "claims monitored: pending undelegations, delegator rewards, layer2 user bonds, collective contributor bonds, identity-verification tips, recovery-token holder rewards, accrued spending-pool entitlements (fixed-rate pools, recomputed with the claim formula); basket and LP holdings are bank coins and monitored as balances",
                 "reading: a claim paid out to its own owner, or released by the payee the owner recorded (identity verifier), is not a reduction; a custody reward share paid to a LISTED custodian who votes is part of the owner's request",
                 "threshold-type authorisations are decided exactly from the observed records (2*held >= supply; approvals*100 >= mode*custodians); the generator sweeps both sides of every boundary (odd/even recovery-token supply via the real burn message, supply 1 and 3, custody (n,mode) pairs around k/n)",
                 "block phase: a user's claim records (every kind, per owner and denom) may only grow, be paid to the owner, or be converted into staked shares of the same owner at the pool's rate read from the pre-state; the generator drives auto-compounding (RegisterDelegator + SetCompoundInfo, AllDenom true/false, 1..3 denoms, fees and recorded rewards in ukex/ubtc/xeth, ubtc StakeMin raised in some histories, interval 1-2 blocks). A reward credited and erased inside one BeginBlock is invisible to a pre/post monitor; recorded leftovers from earlier rounds make the erasure visible. Not driven: successful dApp bootstrap (bonds -> LP entitlements), pool slashing",
                 "custody: the threshold is judged from the harness' ghost record (the custodian list IN FORCE follows every accepted add / remove / drop message; former members approve and decline after their removal, members added after the request act too; approvals of since-removed members do not count; DISTINCT custodians whose approval of the transfer was accepted), never from the module's vote store; hashes are sent in lower / upper / mixed case and custodians repeat their approvals; a repeat that is paid or counted is reported under its own clauses",
                 "rotation: per claim kind and denom the old and new address together must hold after the transaction exactly what they held before; the rotated accounts (a4 by secret, with and without a separate fee payer; a0 by recovery-token holder) own every monitored claim kind; multi-signer transactions (two signers / two messages, separate signing fee payer, unsigned fee payer) are in the stream",
                 "genesis round trip is an operation of every history (scripted once, plus at random): real ExportGenesis / store wipe / InitGenesis of multistaking, spending, recovery and (every other history) gov, with every exported list PERMUTED (genesis validation imposes no order); right afterwards no balance and no claim record may differ, and the history continues under the same clauses. Not round-tripped (C12 lost:* classes, pinned in harness/cmd/c03/genesis.go): collectives, layer2, custody; carried over byte for byte: multistaking pool-delegator index and compound info, recovery token-holder registrations",
                 "escrow: after every step, per escrowed claim kind (tips/gov, undelegations/multistaking, dApp bonds/layer2, rewards/fee collector, holder rewards/recovery) and denom, the module's balance must cover the pending entries of the accounts that did not sign; the step that opens or widens a shortfall is reported. A settlement by the rightful party of an entry pending in the harness' ghost record (accepted request / handle / cancel / edit / rotation messages) must be accepted. The tip stream keeps 4+ requesters pending at once, interleaves re-registration (same value, new value, other key), deletion and rotation between creation and settlement, and repeats every settlement (handle x3, cancel after handle, cancel twice, claim / withdraw twice)",
                 "raw Ethereum transactions: an Ethereum-style account (address = Ethereum address of its key) sends honest raw transactions; adversarial: attacker-signed raw tx naming a victim, and multi-message transactions whose honestly authorised FIRST message (raw Ethereum payload of the victim, fresh or already accepted; or a DIRECT signature made over the first message alone) is followed by 1-2 appended messages debiting the same account. The payload author is not counted as a signer: its debit is bounded by what the payload / first message covers plus the fee (clause debit-exceeds-what-was-signed)"]
    R.gen("gen_signers", "DebitSites.v")
    R.coq_files(FILES)
    R.coq_property()
    R.audit()
    n = 24 if R.tier == "quick" else 300
    obs = observe(R, n)
    total = 0
    if obs:
        out, mism, viol, total, cases = obs
        dist = json.load(open(os.path.join(out, "dist.json")))
        R.oblige("correspondence: handler models = real DeliverTx on %d modelled transactions (of %d observations)" % (dist.get("modelled_cases", 0), total),
                 not mism, "first mismatching cases: " + json.dumps([cases[i] for i in mism[:3]])[:3000])
        R.oblige("harness: setup transactions succeeded and no harness panic", not dist.get("panics"), json.dumps(dist.get("panics"))[:1500])
        report(R, cases, viol)
        R.samples = [cases[1], cases[len(cases) // 2], cases[-2]]
        R.coverage.update({"traces_validated_against_impl": total, "input_distribution": dist})
    if R.broken and not R.violations:
        for s in range(100, 103):
            o2 = observe(R, 150, seed=R.seed + s)
            if o2:
                _, _, viol2, t2, cases2 = o2
                total += t2
                report(R, cases2, viol2)
                if viol2:
                    break
    R.finish(level="proof", technique="Coq proof over an effect IR + translator-regenerated debit-site table + ABCI-level global balance/claim monitor of the real application, spec checker vm_computed on real observations",
             extra={"evaluations": total})
