# One entry per claimed property; properties not yet claimed are listed in NOT_APPLICABLE with the
# reason "check not built yet" until their check exists (kept current by bin/mkmanifest).
ENTRIES = [
    {"id": "C19",
     "technique": "Coq proof over a translator-regenerated model + differential run of the real keeper evaluated in Coq",
     "text": "get/set/validate of the 62 network properties are regenerated from x/gov/keeper/keeper.go into Gallina on every run; Coq proves read-back, frame (field-wise), validity preservation and validator => validity rules for every identifier, value and starting record; the real keeper, msg server, proposal handler and genesis import are run on thousands of requests and compared with the model and with a Coq spec checker.",
     "note": "trusted: Coq kernel, the go/ast translator (fragment + fingerprints of helper functions), hand models of NewDecFromStr/Dec.String/Split/ToLower (validated differentially), the Go harness; no axioms."},
]
ALL = ["C%02d" % i for i in range(1, 21)]
NOT_APPLICABLE = [{"property_id": p, "reason": "check under construction in this session (not yet claimed); see DESIGN.md section 5"}
                  for p in ALL if p not in {e["id"] for e in ENTRIES}]
