"""C19 -- network properties. Translator-regenerated model (Gen/NetProps.v) + proofs + keeper /
msg-server / proposal-handler / genesis differential run; spec checker evaluated in Coq on the
real observations."""
import json, os

FILES = ["Base/Prelude.v", "Base/Dec.v", "Model/NetPropsLib.v", "Gen/NetProps.v", "Model/NetProps.v",
         "Model/C19Check.v", "Proofs/NetProps.v"]


def observe(R, n, seed=None, hist=8):
    env = {"VERIF_SEED": str(seed)} if seed is not None else None
    out = R.harness("c19", ["-n", n, "-hist", hist, "-hsteps", 8], env=env, outdir=os.path.join(R.work, "c19_%s" % (seed if seed is not None else "main")))
    if not out:
        return None
    res = R.coq_cases(out, label="C19 correspondence")
    if res is None:
        return None
    mism, viol, total = res
    cases = json.load(open(os.path.join(out, "cases.json")))
    return out, mism, viol, total, cases


def sig_of(case, clauses):
    # violation signature: clause + write path + identifier
    return "%s:%s:id%s" % ("+".join(sorted(clauses)), case["kind"], case.get("code", "-"))


def run(R):
    R.trusted += ["translator harness/cmd/gen_netprops (go/ast; fragment: assignments, IntToBool, NewDecFromStr+err check, guarded returns; helper functions pinned by fingerprint)",
                  "hand-written models of NewDecFromStr / Dec.String / strings.Split / ToLower / identity-key regexp (Base/Dec.v, Base/Prelude.v), validated by the differential run",
                  "no axioms: every theorem of Properties/C19.v is closed under the global context"]
    R.assume += ["KV store and protobuf round trip of NetworkProperties are faithful (observed through GetNetworkProperties in the differential run)",
                 "uint64 values are modelled as Z restricted by the harness to [0, 2^64)"]
    gen_ok = R.gen("gen_netprops", "NetProps.v")
    if not gen_ok:
        # The translator rejects the tree (code outside its fragment): the obligation is broken.  To
        # still search for a concrete failing input, the model generated for the last reviewed tree
        # (checks/c19_lastgood_NetProps.v.txt, refreshed whenever the check passes on /repo) stands
        # in: the real code of THIS tree is then run against it and against the spec checker.
        import shutil, vlib
        snap = os.path.join(os.path.dirname(os.path.abspath(__file__)), "c19_lastgood_NetProps.v.txt")
        dst = os.path.join(vlib.COQ, "Gen", "NetProps.v")
        if os.path.exists(snap):
            os.makedirs(os.path.dirname(dst), exist_ok=True)
            shutil.copy(snap, dst)
            R.note("translator rejected the tree: searching for a failing input with the last reviewed generated model")
    R.coq_files(FILES)
    R.coq_property()
    R.audit()
    if R.tier == "thorough":
        R.coqchk()
    n = 400 if R.tier == "quick" else 6000
    obs = observe(R, n, hist=10 if R.tier == "quick" else 200)
    total = 0
    if obs:
        out, mism, viol, total, cases = obs
        R.oblige("correspondence: model = real keeper/msg server/proposal handler/genesis and ABCI histories (tx path, proposal life cycle) on %d cases" % total, not mism,
                 "first mismatching cases: " + json.dumps([cases[i] for i in mism[:5]]))
        for idx, cl in viol:
            R.violation(sig_of(cases[idx], cl), "real code violates clause(s) %s on %s" % (cl, json.dumps(cases[idx])), cases[idx])
        R.samples = [cases[0], cases[len(cases) // 2], cases[-1]]
        R.coverage.update({"traces_validated_against_impl": total, "input_distribution": json.load(open(os.path.join(out, "dist.json")))})
    # a broken proof / correspondence: widen the search for a concrete failing input
    if R.broken and not R.violations:
        for s in range(100, 104):
            o2 = observe(R, 3000, seed=R.seed + s, hist=60)
            if o2:
                _, _, viol2, t2, cases2 = o2
                total += t2
                for idx, cl in viol2:
                    R.violation(sig_of(cases2[idx], cl), "real code violates clause(s) %s on %s" % (cl, json.dumps(cases2[idx])), cases2[idx])
                if viol2:
                    break
    if gen_ok and not R.broken and not R.violations:
        import shutil, vlib
        if not vlib.ALT:
            src = os.path.join(vlib.COQ, "Gen", "NetProps.v")
            snap = os.path.join(os.path.dirname(os.path.abspath(__file__)), "c19_lastgood_NetProps.v.txt")
            if os.path.exists(src) and (not os.path.exists(snap) or open(src).read() != open(snap).read()):
                shutil.copy(src, snap)
    R.finish(level="proof", technique="Coq proof (single requests and arbitrary histories of writes by every path) over a model regenerated from keeper.go by a translator + differential run of the real keeper, msg server, proposal handler, genesis import and of whole histories through ABCI (DeliverTx, proposal submit/vote/EndBlocker); spec checker vm_computed on real observations",
             extra={"evaluations": total})


def replay(R, path):
    """Re-runs the recorded failing request(s) against /repo's current tree and prints what the
    real keeper does."""
    data = json.load(open(path))
    print(json.dumps(data, indent=1)[:4000])
    if data.get("violations"):
        seeds = {R.seed}
        o = observe(R, 400)
        if o:
            _, mism, viol, total, cases = o
            want = {json.dumps({k: v["case"].get(k) for k in ("kind", "code", "value", "str")}, sort_keys=True) for v in data["violations"] if v.get("case")}
            hit = [(i, cl) for i, cl in viol if json.dumps({k: cases[i].get(k) for k in ("kind", "code", "value", "str")}, sort_keys=True) in want]
            print("replayed on the current tree: %d of the recorded failing requests still violate: %s" % (len(hit), hit[:5]))
