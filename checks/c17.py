"""C17 -- custody: guarded funds leave only with the required approvals.
Hand-written Coq model of the custody part of the ante decorator + the 16 custody handlers + the two
bank send paths (Model/Custody.v), parameterised by a variant (five repaired places, patches under
fixes/C17-*.patch; the harness probes which variant the tree implements).  Theorems over all states /
histories (Proofs/Custody.v, Properties/C17.v): clauses that hold on every variant, full-strength
theorems on the repaired variants incl. soundness of the whole spec checker, refutations with
witnesses on the unrepaired ones.  Differential run: the REAL CustodyDecorator + msg servers are run on
directed and random histories (harness/cmd/c17); every step is compared with the model inside Coq and
the decidable spec checker (Model/C17Check.v, written from the property text) is evaluated on the real
observations.  A violation's signature is the checker's clause:  clause:message-type[:feature]."""
import json, os

FILES = ["Base/Prelude.v", "Model/Custody.v", "Model/C17Check.v", "Proofs/Custody.v", "Proofs/CustodyVariants.v", "Proofs/CustodyRelease.v"]


def observe(R, n, seed=None):
    env = {"VERIF_SEED": str(seed)} if seed is not None else None
    out = R.harness("c17", ["-n", n], env=env, outdir=os.path.join(R.work, "c17_%s" % (seed if seed is not None else "main")))
    if not out:
        return None
    res = R.coq_cases(out, label="C17 correspondence")
    if res is None:
        return None
    mism, viol, total = res
    cases = json.load(open(os.path.join(out, "cases.json")))
    return out, mism, viol, total, cases


def slim(case):
    """replay data: the history with everything needed to re-run it"""
    return {"label": case.get("label"), "initial_balances": case.get("initial_balances"), "accounts": case.get("accounts"),
            "ops": case.get("ops"), "rerun": "harness/cmd/c17 builds these messages (see build()) and runs CustodyDecorator.AnteHandle + ValidateBasic + MsgServiceRouter handler atomically per transaction"}


def report(R, viol, cases, seen):
    for idx, clauses in viol:
        for c in clauses:
            if c in seen:
                continue
            seen.add(c)
            ops = cases[idx].get("ops", [])
            R.violation(c, "real code violates clause %s in history %d (%s, %d transactions)" % (c, idx, cases[idx].get("label"), len(ops)), slim(cases[idx]))


# ---- structural pins: every writer of the custody stores and every message / decorator arm is one the model knows
WRITERS = r"\.(SetCustodyRecord|DisableCustodyRecord|DropCustodyRecord|SetCustodyRecordKey|AddToCustodyCustodians|DropCustodyCustodiansByAddress|AddToCustodyWhiteList|DropCustodyWhiteListByAddress|AddToCustodyLimits|DropCustodyLimitsByAddress|AddToCustodyLimitsStatus|DropCustodyLimitsStatus|AddToCustodyPool|DropCustodyPool|ApproveCustody|DeclineCustody|RotateCustodyVotes)\("
PIN_WRITER_FILES = {"x/custody/keeper/msg_server.go", "app/ante/ante.go", "x/recovery/keeper/msg_server.go"}
PIN_HANDLERS = {"CreateCustody", "DisableCustody", "DropCustody", "AddToCustodians", "RemoveFromCustodians", "DropCustodians", "AddToWhiteList",
                "RemoveFromWhiteList", "DropWhiteList", "AddToLimits", "RemoveFromLimits", "DropLimits", "Send", "ApproveTransaction",
                "DeclineTransaction", "PasswordConfirm", "sendReward"}
PIN_STORE_FUNCS = {"SetCustodyRecord", "DisableCustodyRecord", "DropCustodyRecord", "SetCustodyRecordKey", "AddToCustodyCustodians",
                   "DropCustodyCustodiansByAddress", "AddToCustodyWhiteList", "DropCustodyWhiteListByAddress", "AddToCustodyLimits",
                   "DropCustodyLimitsByAddress", "AddToCustodyLimitsStatus", "DropCustodyLimitsStatus", "AddToCustodyPool", "DropCustodyPool",
                   "ApproveCustody", "DeclineCustody", "RotateCustodyVotes", "SetMaxCustodyBufferSize", "SetMaxCustodyTxSize"}
PIN_ANTE_KINDS = {"MsgTypeCreateCustody", "MsgTypeAddToCustodyWhiteList", "MsgTypeAddToCustodyCustodians", "MsgTypeRemoveFromCustodyCustodians",
                  "MsgTypeDropCustodyCustodians", "MsgTypeRemoveFromCustodyWhiteList", "MsgTypeDropCustodyWhiteList", "MsgTypeSend"}


def pins(R):
    import re, glob
    import vlib
    repo = vlib.REPO
    writers = set()
    for f in glob.glob(os.path.join(repo, "**", "*.go"), recursive=True):
        rel = os.path.relpath(f, repo)
        if rel.endswith("_test.go") or rel.startswith("x/custody/keeper/custody.go"):
            continue
        if re.search(WRITERS, open(f, errors="replace").read()):
            writers.add(rel)
    R.oblige("pin: the custody stores are written only from %s" % sorted(PIN_WRITER_FILES), writers <= PIN_WRITER_FILES,
             "unexpected writers of the custody stores (not in the model's alphabet): %s" % sorted(writers - PIN_WRITER_FILES))
    ms = open(os.path.join(repo, "x/custody/keeper/msg_server.go"), errors="replace").read()
    handlers = set(re.findall(r"^func \(s msgServer\) (\w+)\(", ms, re.M))
    R.oblige("pin: the custody msg server has exactly the %d modelled methods" % len(PIN_HANDLERS), handlers == PIN_HANDLERS,
             "msg server methods differ: +%s -%s" % (sorted(handlers - PIN_HANDLERS), sorted(PIN_HANDLERS - handlers)))
    store_funcs = set()
    for f in glob.glob(os.path.join(repo, "x/custody/keeper/*.go")):
        if f.endswith("_test.go"):
            continue
        src = open(f, errors="replace").read()
        for m in re.finditer(r"^func \(k Keeper\) (\w+)\([^)]*\)[^{]*\{(.*?)^\}", src, re.M | re.S):
            if re.search(r"\.(Set|Delete)\(", m.group(2)):
                store_funcs.add(m.group(1))
    R.oblige("pin: the keeper functions that write the custody store are the known ones", store_funcs <= PIN_STORE_FUNCS,
             "new store-writing keeper functions: %s" % sorted(store_funcs - PIN_STORE_FUNCS))
    ante = open(os.path.join(repo, "app/ante/ante.go"), errors="replace").read()
    m = re.search(r"func \(cd CustodyDecorator\) AnteHandle.*?\n}\n", ante, re.S)
    kinds = set(re.findall(r"case kiratypes\.(\w+):", m.group(0) if m else ""))
    R.oblige("pin: the custody decorator inspects exactly the modelled message kinds", kinds == PIN_ANTE_KINDS and "bank.TypeMsgSend" in (m.group(0) if m else ""),
             "decorator arms differ: +%s -%s" % (sorted(kinds - PIN_ANTE_KINDS), sorted(PIN_ANTE_KINDS - kinds)))


def run(R):
    R.trusted += ["hand-written model Model/Custody.v of app/ante/ante.go CustodyDecorator (custody part) + x/custody/keeper/msg_server.go + bank send/multi-send, validated step by step against the real code in Coq on every run; the model variant (5 bits) is selected by probe transactions on the real code",
                  "time.ParseDuration is modelled on the limit strings the harness uses (\"1h\", \"90s\", \"0s\", unparsable ones)",
                  "harness canonical renaming (accounts -> integers, sha256 digests of the secrets -> tokens, tx hash -> first 8 characters): injective on the finite sets used; the digest of OldKey is computed by the harness (H is a free function in the theorems)",
                  "no axioms: every theorem of Properties/C17.v is closed under the global context"]
    R.assume += ["KV store / protobuf round trip of the custody records is as observed through the keeper getters (an emptied map reads back as a record with an empty map)",
                 "three coin denominations (integers, default = 0); uint64 quantities below 2^63 (no wrap-around modelled)",
                 "transactions are atomic (ante + messages committed together or not at all) as in baseapp.runTx; gas, fees and signatures are outside this property (C02/C09)",
                 "address rotation (x/recovery): its preconditions outside custody (recovery proof, fee, account existence, rotation history) are computed by the harness from the real state and given to the model as one flag; accounts touched by a rotation are outside the vote theorems (their clauses are named ..._rotated)",
                 "readings: a custodian is an address whose map entry is true; the key requirement applies to accounts whose custody is enabled; an absent whitelist/limit record and a limit entry emptied by RemoveFromLimits restrict nothing; a password matches if it or its sha256 digest equals the password of the request; the limit clause only asks that a single send above the limit amount is refused"]
    R.coq_files(FILES)
    R.coq_property()
    R.audit()
    pins(R)
    n = 500 if R.tier == "quick" else 12000
    obs = observe(R, n)
    total = 0
    seen = set()
    if obs:
        out, mism, viol, total, cases = obs
        dist = json.load(open(os.path.join(out, "dist.json")))
        steps = sum(len(c.get("ops", [])) for c in cases)
        R.oblige("correspondence: model = real ante decorator + handlers on every step of %d histories (%d transactions)" % (total, steps), not mism,
                 "first mismatching histories: " + json.dumps([slim(cases[i]) for i in mism[:2]])[:6000])
        report(R, viol, cases, seen)
        R.samples = [slim(cases[0]), slim(cases[len(cases) // 2])]
        R.coverage.update({"traces_validated_against_impl": total, "transactions": steps, "input_distribution": dist,
                           "model_variant_probed": dist.get("variant"),
                           "alphabet": "16 custody messages, bank send / multi-send, x/recovery address rotation; transactions of one or two messages (+ unrelated messages before/after, separate fee payer); block times with nanoseconds",
                           "clauses_checked": ["key", "only_custodians", "vote_once", "threshold", "password", "payout_without_release", "blocked", "whitelist", "limits", "outflow", "release", "rotate", "not_atomic", "unmodelled_state"]})
    # a broken proof / correspondence: widen the search for a concrete failing input
    if R.broken and not [v for v in R.violations if v["sig"] not in known_sigs(R)]:
        for s in range(100, 103):
            o2 = observe(R, 6000, seed=R.seed + s)
            if o2:
                _, _, viol2, t2, cases2 = o2
                total += t2
                before = len(seen)
                report(R, viol2, cases2, seen)
                if [v for v in R.violations if v["sig"] not in known_sigs(R)]:
                    break
    R.finish(level="proof", technique="Coq proof over a hand-written, variant-parameterised model of the custody ante decorator + handlers (incl. soundness of the spec checker on the repaired variants); differential run of the real code evaluated in Coq step by step; Coq spec checker on the real observations",
             extra={"evaluations": total})


def known_sigs(R):
    import vlib
    return {f["sig"] for f in vlib.known_findings()["finding"] if f["property"] == R.pid}
