"""C08 -- a proposal takes effect only if it passed, exactly once, and atomically.
Coq model of the proposal lifecycle (x/gov abci.go / keeper/proposal.go / msg_server.go) with theorems
over arbitrary histories; tie to /repo: (a) translator gen_govhandlers (error branch of the durations
handler, shape of router.ApplyProposal), (b) differential run of the real msg server + real
gov.EndBlocker against the model, (c) spec checker vm_computed on the real observations."""
import json, os

FILES = ["Base/Prelude.v", "Base/Dec.v", "Gen/GovHandlers.v", "Model/Gov.v", "Model/GovWorld.v", "Model/C08Check.v",
         "Model/F32Tally.v", "Proofs/Gov.v", "Proofs/C08Check.v", "Proofs/F32Tally.v"]


def observe(R, n, seed=None, nb=200):
    env = {"VERIF_SEED": str(seed)} if seed is not None else None
    out = R.harness("c08", ["-n", n, "-nb", nb], env=env, outdir=os.path.join(R.work, "c08_%s" % (seed if seed is not None else "main")))
    if not out:
        return None
    # evaluate in chunks (each chunk = up to 16 parallel shards of <= 150 cases): bounds the memory of the coqc processes
    import shutil
    lines = [l for l in open(os.path.join(out, "cases.txt")) if l.strip()]
    CH = 2400
    mism, viol, total = [], [], 0
    for ci in range(0, len(lines), CH):
        cdir = out if len(lines) <= CH else os.path.join(out, "chunk%d" % (ci // CH))
        if cdir != out:
            os.makedirs(cdir, exist_ok=True)
            open(os.path.join(cdir, "cases.txt"), "w").write("".join(lines[ci:ci + CH]))
            for f in ("pre.v", "meta.json"):
                shutil.copyfile(os.path.join(out, f), os.path.join(cdir, f))
        res = R.coq_cases(cdir, label="C08 correspondence")
        if res is None:
            return None
        m, v, t = res
        mism += [ci + i for i in m]
        viol += [(ci + i, cl) for i, cl in v]
        total += t
    cases = json.load(open(os.path.join(out, "cases.json")))
    return out, mism, viol, total, cases


def brief(case):
    """replay data of one history: initial world + operations (without the bulky snapshots)"""
    if case.get("kind") == "dynamic_timing":
        return {"seed": case["seed"], "index": case["index"], "kind": "dynamic_timing", "dynamic_timing": case["dynamic_timing"],
                "how": "harness/cmd/c08/dyntime.go: object created with these parameters, real submit + yes votes, end blocks at the listed times"}
    if case.get("kind") == "scenario":
        return {"seed": case["seed"], "index": case["index"], "kind": "scenario", "scenario": case["scenario"],
                "how": "harness/cmd/c08/scenarios.go: submit while every step would succeed, pass, break the scripted step, enact"}
    ops = [{k: v for k, v in o.items() if k != "proposals"} for o in case["ops"]]
    return {"seed": case["seed"], "index": case["index"], "kind": case.get("kind"), "boundary": case.get("boundary"),
            "initial_world": case["initial_world"], "ops": ops}


def report(R, cases, viol):
    for idx, clauses in viol:
        for c in sorted(set(clauses)):
            R.violation(c, "real gov code violates clause %s in %s history #%d (seed %s)%s; operations with handler calls: %s"
                        % (c, cases[idx].get("kind"), idx, cases[idx]["seed"],
                           (" boundary spec " + json.dumps(cases[idx]["boundary"])) if cases[idx].get("boundary") else "",
                           json.dumps(cases[idx]["scenario"] if cases[idx].get("kind") == "scenario" else
                                      cases[idx]["dynamic_timing"] if cases[idx].get("kind") == "dynamic_timing" else
                                      [o for o in brief(cases[idx])["ops"] if o.get("applied") or o["op"] == "submit" and o["result"] == "ok"])[:600]),
                        brief(cases[idx]))


def run(R):
    R.trusted += ["translator harness/cmd/gen_govhandlers (go/ast; exact statement shapes of SetProposalDurationsProposalHandler.Apply, ProposalRouter.ApplyProposal, and in processProposal the IsQuorum error branch (panic / quorum not reached) and the dynamic-voter block (veto-capable voters from permission 0 / from the allowed addresses); anything else is rejected)",
                  "harness/cmd/c08: the proposal router is rebuilt from six real handlers (five gov ones + spending UpdateSpendingPool with its real dynamic-voter methods) wrapped by a call logger; a registry upsert with hash h9 is made to fail after the real handler wrote (probe of the router's cache); msg server, keepers, EndBlocker, router.ApplyProposal are the real ones",
                  "Model/GovWorld.v: hand-written model of the five probe handlers and of seven network properties, validated by the differential run",
                  "Flocq binary32 (theorem C08_tally_float_exact_refuted_and_partial only) depends on ClassicalDedekindReals.sig_not_dec, ClassicalDedekindReals.sig_forall_dec, FunctionalExtensionality.functional_extensionality_dep, Classical_Prop.classic; the other 19 theorems are closed under the global context"]
    R.assume += ["proposal handlers write only state outside proposals/votes/queues (the model's handler type is A -> outcome A)",
                 "dynamic-voter proposals: spending UpdateSpendingPoolProposal is modelled and exercised (owner accounts only, no owner roles); the distribution / withdraw pool proposals are covered by the lifecycle theorems through the oracles only",
                 "councilor rank bookkeeping (OnCouncilorAct/Absent) and the average-slash argument of handlers are not modelled; durations and block counts stay below 2^31 (no int64/time.Duration wrap-around)",
                 "a panic inside EndBlocker (property C06; only with the earlier IsQuorum-error-panics shape) is observed as 'panic' and the block's writes are discarded; the model does the same",
                 "UpdateSpendingPoolProposal.ValidateBasic (quorum within [0,1]) is modelled as in the current tree",
                 "scripted atomicity scenarios (spending distribution / withdraw, basket withdraw-surplus, gov durations): the 'complete effect' predicate and the byte-wise store comparison are computed by the harness; collectives handlers are pinned by the error-shape table but not scripted",
                 "block times carry nanoseconds (model time unit = ns); periods are whole seconds as in the code",
                 "permission state: actors with individual whitelist + blacklist and roles 1 (sudo) and 3 (probe) with their whitelists/blacklists restricted to the ten permissions the harness uses; the checker evolves its own ghost copy of these records from the accepted edits",
                 "address rotation: only MsgRotateRecoveryAddress onto an address without actor record is exercised; content rewrites of slash-validator proposals (recovery, RefuteSlashingProposal), the automatic slash proposal of slashing.Jail and InitGenesis are pinned as writers (C08_lifecycle_writers_pinned) but outside the model"]
    if not R.gen("gen_govhandlers", "GovHandlers.v"):
        # the tree is outside the translator's fragment (already a broken obligation): fall back to the
        # last known shapes so that the spec checker can still look for a concrete failing input
        import vlib as V
        open(os.path.join(V.COQ, "Gen", "GovHandlers.v"), "w").write(
            "From Sekai Require Import Base.Prelude.\nDefinition durations_error_returned : bool := false.\n"
            "Definition router_apply_on_cache_written_iff_ok : bool := true.\n"
            "Definition quorum_error_panics_flag : bool := false.\nDefinition dynamic_veto_from_allowed : bool := true.\n"
            "Definition lifecycle_writers : list string := [].\nDefinition handler_error_shapes : list (string * list string) := [].\n"
            "Definition dynamic_param_sources : list (string * list string) := [].\n")
    R.coq_files(FILES)
    R.coq_property()
    R.audit()
    n = 200 if R.tier == "quick" else 3000
    obs = observe(R, n, nb=200 if R.tier == "quick" else -1)   # boundary stream: 30 core + sample / whole enumeration
    total = 0
    if obs:
        out, mism, viol, total, cases = obs
        R.oblige("correspondence: model = real msg server + EndBlocker on %d histories" % total, not mism,
                 "first mismatching histories: " + json.dumps([brief(cases[i]) for i in mism[:2]])[:3000])
        report(R, cases, viol)
        R.samples = [brief(cases[0])["ops"][:6], brief(cases[-1])]
        dist = json.load(open(os.path.join(out, "dist.json")))
        R.coverage.update({"traces_validated_against_impl": total, "input_distribution": dist})
    if R.broken and not R.violations:
        for s in range(100, 103):
            o2 = observe(R, 600, seed=R.seed + s, nb=1500)
            if o2:
                _, _, viol2, t2, cases2 = o2
                total += t2
                report(R, cases2, viol2)
                if viol2:
                    break
    R.finish(level="proof", technique="Coq proof over a hand-written lifecycle model (induction over operation histories, ghost log) + translator for two handler shapes + differential run of the real msg server / EndBlocker; spec checker vm_computed on real observations",
             extra={"evaluations": total})
