"""C20 -- layer-2 dApp bonds are escrowed one-to-one; the LP pool gives no free money.
Hand-written Coq model of the layer2 bond / bootstrap / LP code (Model/Layer2.v) + proofs over all
histories (Proofs/Layer2.v, Proofs/Layer2Lp.v) + differential run of the real msg server, EndBlocker
and keeper-level LP functions, evaluated inside Coq; spec checker on the real observations."""
import json, os

FILES = ["Base/Prelude.v", "Base/Dec.v", "Model/Layer2.v", "Model/C20Check.v", "Proofs/Layer2.v", "Proofs/Layer2Lp.v", "Proofs/Layer2All.v", "Proofs/Layer2Chk.v"]
ORDER = ["user", "reject", "escrow", "frame", "burn", "total-sum", "max", "refund", "held", "pool-native", "lp-mint", "lp-supply", "nofree-step", "nofree"]


def observe(R, n, seed=None):
    env = {"VERIF_SEED": str(seed)} if seed is not None else None
    out = R.harness("c20", ["-n", n], env=env, outdir=os.path.join(R.work, "c20_%s" % (seed if seed is not None else "main")))
    if not out:
        return None
    res = R.coq_cases(out, label="C20 correspondence")
    if res is None:
        return None
    mism, viol, total = res
    cases = json.load(open(os.path.join(out, "cases.json")))
    dist = json.load(open(os.path.join(out, "dist.json")))
    return out, mism, viol, total, cases, dist


def features(case, s, users):
    """What is unusual about the input at the failing step: the distinguishing feature of the signature."""
    steps = case["steps"]
    st = steps[s]
    prev = steps[s - 1] if s > 0 else {"dapps": [], "bonds": [], "now": 0}
    cur = {"Min": case["min_raw"], "Max": case["max_raw"], "Dur": case["duration"]}
    for x in steps[:s]:
        if x["op"] == "setcfg" and x.get("cfg"):
            cur = x["cfg"]
    minthr, maxthr, duration = cur["Min"] * 1000000, cur["Max"] * 1000000, cur["Dur"]
    op = st["op"]
    if op == "create":
        if st["name"] == "":
            return "empty-name"
        if st["amt"] < 0:
            return "negative-amount"
        if st["amt"] > maxthr:
            return "amount-above-max"
        return "none"
    if op == "tick":
        ctime = {}
        for x in steps[:s]:
            if x["op"] == "create" and x["ok"]:
                ctime[x["name"]] = x["now"]
        due = [d["name"] for d in prev["dapps"] if d["status"] == 0 and ctime.get(d["name"], 0) + duration <= st["now"]
               and int(d["total"]) < minthr]
        feats = set()
        for n in due:
            if n == "":
                feats.add("empty-name")
            for b in prev["bonds"]:
                key = b["dapp"] + (b.get("user") or (users[b["u"]] if b["u"] >= 0 else "?"))
                if key.startswith(n):
                    if b["dapp"] != n and n != "":
                        feats.add("prefix-name")
                    if int(b["amt"]) <= 0:
                        feats.add("zero-bond-record")
        for f in ("empty-name", "prefix-name", "zero-bond-record"):
            if f in feats:
                return f
        return "none"
    if op in ("mintissue", "burntx", "banksend"):
        return "lp-denom" if str(st.get("den", "")).startswith("lp/") else "none"
    if op == "upsert":
        old = [d for d in prev["dapps"] if d["name"] == st["name"]]
        if old and int(old[0]["total"]) != st.get("total", 0):
            return "total-rewritten"
        return "none"
    if op in ("kswap", "kredeem", "kconvert"):
        fee = st.get("fee")
        if op == "kconvert":   # the conversion uses the stored pool fees of both dApps
            fees = {}
            for x in steps[:s]:
                if x["op"] == "create" and x["ok"] and x.get("params"):
                    fees[x["name"]] = x["params"]["fee"]
                if x["op"] == "upsert" and x["ok"] and x.get("fee") is not None:
                    fees[x["name"]] = x["fee"]        # the pool fee read back from the stored record
            fee = min([fees.get(st.get("name"), "0"), fees.get(st.get("name2"), "0")], key=float)
        if fee is not None and float(fee) < 0:
            return "negative-fee"
    if op == "kconvert" and st.get("name") == st.get("name2"):
        return "same-dapp"
    if any(d["name"] == "" for d in prev["dapps"]) and st.get("name") == "":
        return "empty-name"
    return "none"


def sig_of(case, clauses, users):
    cl = sorted(clauses, key=lambda c: ORDER.index(c.split("@")[0]) if c.split("@")[0] in ORDER else 99)
    name, step = cl[0].split("@")
    s = int(step)
    if case["steps"][s]["op"] == "upsert" and any(c.startswith("pool-native@") for c in cl):
        name = "pool-native"     # a rewritten TotalBond shows as total-sum / held / pool-native: one signature
    return "%s:%s:%s" % (name, case["steps"][s]["op"], features(case, s, users)), s


def brief(case, s):
    st = case["steps"][s]
    hist = [{k: x[k] for k in ("op", "u", "name", "name2", "den", "amt", "fee", "ok", "status", "total", "ctime", "ptime", "liq", "cfg", "now", "proposal", "registered") if k in x} for x in case["steps"][:s + 1]]
    return {"kind": case["kind"], "cfg": case.get("cfg"), "min_raw": case["min_raw"], "max_raw": case["max_raw"], "duration": case["duration"],
            "failing_step": s, "history": hist, "before": case["steps"][s - 1] if s else None, "after": st}


def report(R, obs):
    out, mism, viol, total, cases, dist = obs
    users = dist["users"]
    for idx, cl in viol:
        sig, s = sig_of(cases[idx], cl, users)
        R.violation(sig, "real code violates clause(s) %s at step %d (%s) of a %s history" % (cl, s, cases[idx]["steps"][s]["op"], cases[idx]["kind"]),
                    brief(cases[idx], s))


def latent(cases):
    """Keeper-level histories (not transactions): how often did the REAL keeper functions hand a user more
    ukex than he paid while his LP holdings did not shrink (the witness of no_free_money_integer_refuted)?"""
    hits, best = 0, 0
    for c in cases:
        if c["kind"] != "keeper":
            continue
        ks = [i for i, s in enumerate(c["steps"]) if s["op"].startswith("k")]
        if not ks or ks[0] == 0:
            continue
        base = c["steps"][ks[0] - 1]
        lp0 = {l["den"]: l["users"] for l in base.get("lp", [])}
        gain = 0
        for s in c["steps"][ks[0]:]:
            lp = {l["den"]: l["users"] for l in s.get("lp", [])}
            for u in range(3):
                if all(int(lp.get(d, ["0"] * 5)[u]) >= int(v[u]) for d, v in lp0.items()) and \
                   all(int(v[u]) >= int(lp0.get(d, ["0"] * 5)[u]) for d, v in lp.items()):
                    gain = max(gain, int(s["bals"][u]) - int(base["bals"][u]))
        if gain > 0:
            hits += 1
            best = max(best, gain)
    return {"keeper_histories_with_free_money": hits, "largest_gain_ukex": best}


def run(R):
    R.trusted += ["hand-written model Model/Layer2.v of x/layer2 bond/bootstrap/LP code, validated on every run by the differential run (every step of every history compared inside Coq)",
                  "Base/Dec.v model of sdk.Dec Mul/Quo/RoundInt; bank send/mint/burn modelled as a ledger (positive amounts, sufficient balance)",
                  "three probes in the harness decide which variant of the model (as-is / repaired, per defect) the tree is compared with",
                  "no axioms: every theorem of Properties/C20.v is closed under the global context"]
    R.assume += ["KV store, protobuf and bank keeper are faithful (observed through queries and balances)",
                 "user addresses are bech32 strings of equal length (so store keys name++user are equal only for equal pairs)",
                 "not modelled: a creation bond in a foreign denomination by a holder of the bond-free creation permission; two dApps sharing one LP denomination; spending-pool name clashes; liquidation timestamps",
                 "LP messages are modelled as always rejected (inverted existence check in the three handlers); the keeper-level LP functions are modelled and compared separately"]
    R.coq_files(FILES)
    R.coq_property()
    R.audit()
    n = 300 if R.tier == "quick" else 3000
    obs = observe(R, n)
    total = 0
    if obs:
        out, mism, viol, total, cases, dist = obs
        R.oblige("correspondence: model = real msg server / EndBlocker / keeper-level LP functions on %d histories (%d steps)" % (total, dist["steps"]),
                 not mism, "first mismatching histories: " + json.dumps([cases[i] for i in mism[:2]])[:6000])
        var = dist["variant"]
        R.oblige("probes: the tree has none of the four repaired message-level defects (the full-strength theorems are stated for [fixed v])",
                 not (var["prefix_iteration"] or var["zero_record_blocks_refund"] or var["creation_bond_unchecked"] or var["negative_creation_bond_accepted"]), json.dumps(var))
        report(R, obs)
        R.samples = [brief(cases[0], min(3, len(cases[0]["steps"]) - 1)), brief(cases[-1], min(3, len(cases[-1]["steps"]) - 1))]
        R.coverage.update({"latent_keeper_level_rounding_exploit_on_real_code": latent(cases), "traces_validated_against_impl": total, "steps_validated": dist["steps"], "input_distribution": dist})
    if R.broken and not R.violations:
        for s in range(100, 104):
            o2 = observe(R, 1500, seed=R.seed + s)
            if o2:
                total += o2[3]
                report(R, o2)
                if R.violations:
                    break
    if R.tier == "thorough" and hasattr(R, "coqchk"):
        R.coqchk()
    R.finish(level="proof", technique="Coq proofs (induction over operation histories) about a hand-written model of the layer2 bond/bootstrap/LP code + differential run of the real msg server, EndBlocker and keeper functions evaluated in Coq; spec checker vm_computed on real observations",
             extra={"evaluations": total})


def replay(R, path):
    """Prints the recorded failing history and re-runs the generated histories on the current tree,
    reporting which of the recorded signatures still reproduce on the real code."""
    data = json.load(open(path))
    print(json.dumps(data, indent=1)[:6000])
    want = {v["sig"] for v in data.get("violations", [])}
    obs = observe(R, 300)
    if obs and want:
        out, mism, viol, total, cases, dist = obs
        got = {sig_of(cases[i], cl, dist["users"])[0] for i, cl in viol}
        print("replayed on the current tree (%d histories): still reproducing %s; gone %s" % (total, sorted(want & got), sorted(want - got)))
