"""C07 -- permissions.  Hand-written model of x/gov permissions (Model/Perm.v) + proofs
(check_allowed <-> defining rule, index refinement invariant over histories, voters_exact, gate
theorems, refutation witnesses) + translator-generated gate table (Gen/Gates.v, gates_complete) +
differential run of the real keeper / msg servers / proposal handlers / genesis export+import /
recovery rotation / layer2 handler; spec checker evaluated in Coq on the real observations."""
import json, os, re

FILES = ["Base/Prelude.v", "Gen/Gates.v", "Model/Perm.v", "Model/C07Check.v", "Proofs/Perm.v"]


def read_gen(R):
    import vlib
    path = os.path.join(vlib.COQ, "Gen", "Gates.v")
    try:
        txt = open(path).read()
    except OSError:
        return [], [], []
    rows = lambda marker: re.findall(r'^\s*"([^"]*)";? \(\* %s \*\)' % marker, txt, re.M)
    tree = dict(re.findall(r'\(\* TREE (\w+)=(\w+) \*\)', txt))
    return rows("GATE"), rows("WRAPPER"), rows("ERROR"), tree


def observe(R, n, seed=None):
    env = {"VERIF_SEED": str(seed)} if seed is not None else None
    out = R.harness("c07", ["-n", n], env=env, outdir=os.path.join(R.work, "c07_%s" % (seed if seed is not None else "main")))
    if not out:
        return None
    res = R.coq_cases(out, label="C07 correspondence")
    if res is None:
        return None
    mism, viol, total = res
    cases = json.load(open(os.path.join(out, "cases.json")))
    return out, mism, viol, total, cases


def brief(case):
    ops = []
    for o in case["ops"]:
        ops.append({k: v for k, v in o.items() if k in ("kind", "ok") or v not in (0, None, [], "")})
    return {"label": case["label"], "ops": ops}


def report(R, viol, cases):
    for idx, clauses in viol:
        for cl in clauses:
            label = cases[idx].get("label", "")
            if label.startswith("probe:") and cl.endswith(":probe"):
                cl = cl + "@" + label[6:]          # which handler (and content type) let the actor through
            R.violation(cl, "real code violates clause %s (clause:blamed operation) in history %s" % (cl, json.dumps(brief(cases[idx]))), brief(cases[idx]))


def run(R):
    R.trusted += ["translator harness/cmd/gen_gates (go/ast: CheckIfAllowedPermission call sites in x/*/keeper/msg_server.go, module keeper wrappers, ProposalPermission/VotePermission bodies, call sites writing the permission stores, fingerprints of the modelled functions; interface registry: every kira sdk.Msg type; anything outside the fragment is a translator error)",
                  "hand-written model Model/Perm.v of x/gov permissions (util.go, network_actor.go, permission_registry.go, types.go, actor.go, msg_server.go editors, proposal_handler.go, genesis.go, recovery rotation gov part; net effect of InitGenesis per actor / per role and of the rotation), validated by the differential run",
                  "no axioms: every theorem of Properties/C07.v is closed under the global context"]
    R.assume += ["KV store prefixes are maps; protobuf round trip of NetworkActor / Permissions is faithful (observed through the keeper getters)",
                 "actor status / votes / skin do not enter the permission rule (VoteProposal additionally requires an Active actor; every actor created by the modelled paths is Active)",
                 "permissions, role ids, addresses are integers; uint32 truncation of permission values is not exercised",
                 "a failed message / proposal enactment is rolled back (harness runs each operation in a cache context, as baseapp does per transaction)",
                 "genesis import is run on a gov store emptied of permission data (prefixes 0x10-0x12, 0x30-0x33, 0x50), i.e. a new chain",
                 "the model's four variation points (layer2 wrapper permission, ClaimCouncilor index write, InitGenesis role blacklists, repaired rotation) are selected by the translator gen_gates from the shape of the code; a wrong selection shows as a correspondence mismatch",
                 "rotation: only the gov:network_actor part of RotateRecoveryAddress is modelled; its acceptance (accounts, fee, proof) is taken from the observation"]
    R.gen("gen_gates", "Gates.v")
    R.coq_files(FILES)
    R.coq_property()
    R.audit()
    gates, wrappers, gerrs, tree = read_gen(R)
    # call sites whose module wrapper checks another permission than the one requested: each is a gate violation
    for w in wrappers:
        R.violation("gate-wrapper:" + w, "the handler requests one permission but the module keeper's CheckIfAllowedPermission wrapper checks another: " + w,
                    {"translator": "harness/cmd/gen_gates", "row": w})
    n = 400 if R.tier == "quick" else 2500
    obs = observe(R, n)
    total = steps = 0
    if obs:
        out, mism, viol, total, cases = obs
        dist = json.load(open(os.path.join(out, "dist.json")))
        steps = dist.get("steps", 0)
        R.oblige("correspondence: model = real keeper / msg servers / proposal handlers / genesis / rotation on %d histories (%d steps; records, indexes, full permission matrix, voter sets, accept/reject after every step)" % (total, steps),
                 not mism, "first mismatching histories: " + json.dumps([brief(cases[i]) for i in mism[:3]]))
        report(R, viol, cases)
        R.samples = [brief(cases[0]), brief(cases[len(cases) // 2]), brief(cases[-1])]
        R.coverage.update({"traces_validated_against_impl": total, "steps_validated": steps, "input_distribution": dist,
                           "gate_table": {"msg_gates": len(gates), "wrapper_mismatches": wrappers},
                           "tree_variant (translator; the model follows it)": tree})
    # a broken proof / translator / correspondence: widen the search for a concrete failing input
    import vlib
    known = {f["sig"] for f in vlib.known_findings()["finding"] if f["property"] == R.pid}
    if R.broken and not [v for v in R.violations if v["sig"] not in known]:
        for s in range(100, 103):
            o2 = observe(R, 2000, seed=R.seed + s)
            if o2:
                _, _, viol2, t2, cases2 = o2
                total += t2
                report(R, viol2, cases2)
    R.finish(level="proof", technique="Coq proofs over a hand-written model of x/gov permissions (decision rule <-> spec, index refinement invariant by induction over op lists, voter enumeration, gates) + translator-generated gate table + differential run of the real code; spec checker vm_computed on real observations",
             extra={"evaluations": steps or total})
