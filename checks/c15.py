"""C15 -- validator status follows allowed transitions; offences and downtime are punished.
Shares model, proofs, harness (-prop c15) and correspondence with C05 (see checks/c05.py); the spec
checker is coq/Model/C15Check.v."""
from checks import c05


def run(R):
    c05.run_common(R, "c15", "C15 (status machine, downtime, evidence, unjail window)",
                   "Coq proof (allowed edges per cause, downtime threshold, evidence jails, full signer never punished, rank/streak non-negative over all histories, refutation of the jail exit) over a hand-written model + one-step differential run of the real keepers / msg servers / begin- and end-blockers + spec checker with its own ghost counters vm_computed on the real observations")
